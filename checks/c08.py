"""C08 Non-linear and total least-squares fits obey the implicit-function rule.

E-PROD over (model family, data layout, correlation, priors, gradient mode) for least_squares and
(model, x layout) for total_least_squares.  Oracles independent of the Hessian code:
(1) stationarity of the documented chi-square (re-implemented here) by central differences,
(2) re-fit sensitivities: (p(y_i+eps) - p(y_i-eps))/2eps with Richardson extrapolation equals the
    coefficient of delta y_i in the parameter's fluctuations (same for x_i in total least squares),
(3) total least squares with negligible x errors equals the ordinary fit."""
import os
import copy
import math
import warnings
import itertools
import numpy as np
from mc import engine, alpha, ref, compare
from mc.engine import Acc

LEVEL = 'exploration'
RULE = ('full product: model {a exp(-b x), a cosh(b (x - 3)), a/(1+b x), a exp(-b x)+c, two-dimensional a x1 + b exp(-x2)} x data '
        'layout {every point on its own ensemble, all points on one ensemble} x chi-square {uncorrelated, correlated} x priors '
        '{none, Obs prior on the non-linear parameter} x gradient {autograd, num_grad}; total_least_squares for every model with '
        'observable abscissae (own ensembles), every model x {uncorrelated, correlated} x priors x method {migrad, Nelder-Mead, Powell} against the Levenberg-Marquardt result (parameters, chi-square, fluctuations); three models sharing one code object fitted in every order against the same models written out, fit_lin dispatch with observable x, negligible-x-error limit.  For every fit: '
        'stationarity of the re-implemented chi-square and a finite-difference re-fit sensitivity for EVERY data point (and every '
        'abscissa / prior) against the reported fluctuations.  Non-trivial = every fit')
ASSUMPTIONS = ['sensitivities by re-fitting with y_i +- eps, eps = 0.1 sigma and 0.05 sigma (Richardson), accepted within 2e-3 of the '
               'largest coefficient (minimiser noise); weights are frozen because a constant shift leaves the error unchanged (asserted)',
               'data are generated on the model at well-conditioned parameter values']
EXHAUSTIVE = True
CHUNK = 1


def anp():
    import autograd.numpy as a
    return a


def models():
    a = anp()
    return {
        'exp': (lambda p, x: p[0] * a.exp(-p[1] * x), [1.2, 0.45], 1, [1.0, 0.4]),
        'cosh': (lambda p, x: p[0] * a.cosh(p[1] * (x - 3.0)), [0.7, 0.35], 1, [0.6, 0.3]),
        'rational': (lambda p, x: p[0] / (1 + p[1] * x), [1.5, 0.6], 1, [1.3, 0.5]),
        'exp+c': (lambda p, x: p[0] * a.exp(-p[1] * x) + p[2], [1.2, 0.8, 0.3], 1, [1.0, 0.7, 0.25]),
        '2d': (lambda p, x: p[0] * x[0] + p[1] * a.exp(-x[1]), [0.8, 1.4], 2, [0.7, 1.2]),
    }


def xs_for(dim, n):
    t = np.arange(n, dtype=float)
    if dim == 2:
        return np.array([0.5 + 0.35 * t, 0.2 + 0.4 * ((t * 3) % n)])
    return 0.4 + 0.7 * t


def make_data(pe, model, n, layout, key):
    f, ptrue, dim, guess = models()[model]
    x = xs_for(dim, n)
    r = alpha.rng('c08', key, model, n, layout)
    common = r.normal(size=40)
    ys = []
    for i in range(n):
        xi = x[:, i] if dim == 2 else x[i]
        mean = float(f(ptrue, xi)) * (1 + 0.01 * r.normal())
        sig = 0.03 * abs(mean) + 0.004
        if layout == 'indep':
            d = mean + sig * r.normal(size=30 + i)
            ys.append(pe.Obs([d], ['E%d|r1' % i]))
        elif layout == 'factor':
            # every point on its own ensemble times ONE common factor on a shared ensemble: the chain lists of the points differ
            # pairwise but overlap, the points are correlated through the factor
            if i == 0:
                zfac = pe.Obs([1.0 + 0.04 * common], ['Z|r1'])
            d = mean + 0.3 * sig * r.normal(size=30 + i)
            ys.append(pe.Obs([d], ['E%d|r1' % i]) * zfac)
        else:
            d = mean + sig * (0.5 * common + 0.87 * r.normal(size=40))
            ys.append(pe.Obs([d], ['S|r1']))
    [y.gamma_method() for y in ys]
    return x, ys


def chisq_func(f, x, yv, W, prior=None):
    """The documented chi-square: r^T W r (+ ((p_k - prior)/dprior)^2)."""
    def chi(p):
        model = np.array([float(f(p, x[:, i] if x.ndim == 2 else x[i])) for i in range(len(yv))])
        r = yv - model
        c = float(r @ W @ r)
        if prior:
            k, pv, pd = prior
            c += ((p[k] - pv) / pd) ** 2
        return c
    return chi


def num_grad(chi, p, h=1e-6):
    g = np.zeros(len(p))
    for k in range(len(p)):
        e = np.zeros(len(p))
        e[k] = h * max(1.0, abs(p[k]))
        g[k] = (chi(p + e) - chi(p - e)) / (2 * e[k])
    return g


def coefficient(param, chain, source):
    """d(param)/d(source) read off the fluctuations on the chain that only 'source' lives on."""
    ratio = param.deltas[chain] / source.deltas[chain]
    m = float(np.mean(ratio))
    spread = float(np.max(np.abs(ratio - m)))
    return m, spread


def build(tier, seed):
    cases = []
    for model in models():
        for layout in ('indep', 'shared', 'factor'):
            for corr in (False, True):
                if layout == 'indep' and corr:
                    continue     # independent ensembles: the estimated correlation matrix is the identity
                for prior in (False, True):
                    for ng in (False, True):
                        cases.append({'kind': 'ls', 'model': model, 'layout': layout, 'corr': corr, 'prior': prior, 'num_grad': ng})
                cases.append({'kind': 'ls', 'model': model, 'layout': layout, 'corr': corr, 'prior': 'string', 'num_grad': False})
        for ng in (False, True):
            if ng and tier == 'quick' and model not in ('exp', '2d'):
                continue      # num_grad total least squares is slow: two models in the quick tier, all in thorough
            cases.append({'kind': 'tls', 'model': model, 'num_grad': ng})
    cases.append({'kind': 'tls-limit'})
    # data whose central values scatter much less than their errors (both of ODRPACK's convergence criteria are met at once)
    cases.append({'kind': 'tls-tight'})
    # the same model written in other Python forms (parameter unpacking, negative indices, helper calls, integer abscissae)
    for layout in ('indep', 'shared'):
        cases.append({'kind': 'model-forms', 'layout': layout})
    # call history: fits after fits (same function object, equal correlation matrices, loose tolerances before)
    cases.append({'kind': 'fit-sequence'})
    # call history: three models that share one code object (closures from a factory), fitted in every order
    for order in itertools.permutations(range(3)):
        cases.append({'kind': 'ls-factory', 'order': list(order)})
    # the other minimisers must arrive at the same stationary point, chi-square and fluctuations as Levenberg-Marquardt
    for model in models():
        for corr in (False, True):
            for prior in (False, True):
                for method in ('migrad', 'Nelder-Mead', 'Powell'):
                    if model == 'cosh' and not prior:
                        continue       # a cosh(b (x - 3)) has the mirror minimum b -> -b; the prior on b removes the degeneracy
                    cases.append({'kind': 'ls-method', 'model': model, 'layout': 'shared', 'corr': corr, 'prior': prior, 'method': method})
    return cases


def run_case(case):
    pe = engine.import_pyerrors()
    acc = Acc()
    with warnings.catch_warnings():
        warnings.simplefilter('ignore')
        if case['kind'] == 'ls':
            run_ls(pe, acc, case)
        elif case['kind'] == 'tls':
            run_tls(pe, acc, case)
        elif case['kind'] == 'ls-method':
            run_ls_method(pe, acc, case)
        elif case['kind'] == 'ls-factory':
            run_ls_factory(pe, acc, case)
        elif case['kind'] == 'fit-sequence':
            run_fit_sequence(pe, acc, case)
        elif case['kind'] == 'model-forms':
            run_model_forms(pe, acc, case)
        elif case['kind'] == 'tls-tight':
            run_tls_tight(pe, acc, case)
        else:
            run_tls_limit(pe, acc, case)
    return acc


def richardson(fit_at, eps):
    """central difference with steps eps and eps/2, extrapolated"""
    d1 = (fit_at(+eps) - fit_at(-eps)) / (2 * eps)
    d2 = (fit_at(+eps / 2) - fit_at(-eps / 2)) / eps
    return (4 * d2 - d1) / 3


def run_ls(pe, acc, case):
    model, layout, corr, use_prior, ng = case['model'], case['layout'], case['corr'], case['prior'], case['num_grad']
    f, ptrue, dim, guess = models()[model]
    npar = len(ptrue)
    n = 6 if npar == 2 else 7
    x, ys = make_data(pe, model, n, layout, 'ls')
    kw = {'initial_guess': guess}
    if corr:
        kw['correlated_fit'] = True
    if ng:
        kw['num_grad'] = True
    prior_obs = None
    prior_arg = None
    prior_str = None
    if use_prior:
        prior_obs = pe.Obs([ptrue[1] * 1.05 + 0.1 * ptrue[1] * alpha.rng('c08prior', model).normal(size=25)], ['P|r1'])
        prior_obs.gamma_method()
        prior_arg = {1: prior_obs}
    if use_prior == 'string':
        # the documented explicit form 'value(error)' with a decimal point in both: value 1.05 ptrue, error 0.1 ptrue
        pv, pd = round(ptrue[1] * 1.05, 2), round(0.1 * ptrue[1], 3)
        prior_str = '%.2f(%.3f)' % (pv, pd)
        prior_arg = {1: prior_str}
    sig = 'ls:%s%s%s%s' % (model, ':corr' if corr else '', (':prior-string' if prior_str else ':prior') if use_prior else '', ':numgrad' if ng else '')
    sub = dict(case)
    try:
        res = pe.least_squares(x, ys, f, priors=prior_arg, silent=True, **kw)
    except Exception as e:
        acc.fail(sig + ':raised', sub, 'least_squares raised %s: %s' % (type(e).__name__, e))
        return
    pfit = np.array([o.value for o in res.fit_parameters])
    dy = np.array([y.dvalue for y in ys])
    yv = np.array([y.value for y in ys])
    if corr:
        cm = pe.covariance(ys, correlation=True)
        W = np.linalg.inv(np.diag(dy) @ cm @ np.diag(dy))
    else:
        W = np.diag(1 / dy ** 2)
    pr = ((1, pv, pd) if prior_str else (1, prior_obs.value, prior_obs.dvalue)) if use_prior else None
    chi = chisq_func(f, x, yv, W, pr)
    # (1) stationarity and reported chi-square
    c0 = chi(pfit)
    g = num_grad(chi, pfit)
    if not np.max(np.abs(g)) <= 1e-4 * max(1.0, c0):
        acc.fail(sig + ':stationarity', sub, 'gradient of the documented chi-square at the returned parameters: %s (chi2=%g)' % (g, c0))
        return
    if not abs(res.chisquare - c0) <= 1e-6 * max(1.0, c0):
        acc.fail(sig + ':chisquare', sub, 'reported chisquare %r, documented chi-square at the solution %r' % (res.chisquare, c0))
        return
    if res.dof != n - npar + (1 if use_prior else 0):
        acc.fail(sig + ':dof', sub, 'dof %r' % res.dof)
        return
    if layout == 'factor':       # stationary point of the documented (correlated) chi-square, its value and the degrees of freedom
        acc.ok(repr(case), True, 'ls:common-factor' + (':corr' if corr else '') + (':prior' if use_prior else '') + (':numgrad' if ng else ''))
        acc.sample(dict(case, points=n))
        return
    # (2) re-fit sensitivities for every data point (and the prior)
    kw2 = dict(kw, initial_guess=list(pfit))
    sources = [('y%d' % i, i) for i in range(n)] + ([('prior', None)] if (use_prior and not prior_str) else [])
    coefs = np.zeros((len(sources), npar))
    for si, (nm, i) in enumerate(sources):
        src = ys[i] if i is not None else prior_obs
        eps0 = 0.1 * src.dvalue

        def fit_at(eps, i=i):
            ys2 = list(ys)
            pa = prior_arg
            if i is not None:
                ys2[i] = ys[i] + eps
                ys2[i].gamma_method()
                if abs(ys2[i].dvalue - ys[i].dvalue) > 1e-12 * ys[i].dvalue:
                    raise engine.MachineryError('shifting a data point changed its error')
            else:
                po = prior_obs + eps
                po.gamma_method()
                pa = {1: po}
            r2 = pe.least_squares(x, ys2, f, priors=pa, silent=True, **kw2)
            return np.array([o.value for o in r2.fit_parameters])
        coefs[si] = richardson(fit_at, eps0)
    cmax = np.max(np.abs(coefs), axis=0)
    if layout == 'indep':
        for si, (nm, i) in enumerate(sources):
            src = ys[i] if i is not None else prior_obs
            chain = src.names[0]
            for k in range(npar):
                got, spread = coefficient(res.fit_parameters[k], chain, src)
                if spread > 1e-9 * max(abs(got), 1e-12) + 1e-14:
                    acc.fail(sig + ':not-linear', sub, 'fluctuations of parameter %d on chain %s are not proportional to those of %s' % (k, chain, nm))
                    return
                tol = 2e-3 * max(abs(coefs[si, k]), 1e-2 * cmax[k])
                if not abs(got - coefs[si, k]) <= tol:
                    acc.fail(sig + ':sensitivity', sub, '%s model: d p%d / d %s from the fluctuations = %.8g, from re-fitting = %.8g' % (model, k, nm, got, coefs[si, k]))
                    return
        # nothing else enters
        for k in range(npar):
            allowed = set(src.names[0] for src in ys) | ({'P|r1'} if (use_prior and not prior_str) else set())
            if set(nm for nm in res.fit_parameters[k].names if not nm.startswith('#prior')) != allowed:
                acc.fail(sig + ':chains', sub, 'parameter %d lives on %s, expected %s' % (k, res.fit_parameters[k].names, sorted(allowed)))
                return
    else:
        # all data on one ensemble: the fluctuations must be the coefficient-weighted sum of the data fluctuations
        for k in range(npar):
            exp = sum(coefs[i, k] * ys[i].deltas['S|r1'] for i in range(n))
            got = res.fit_parameters[k].deltas['S|r1']
            sc = np.max(np.abs(exp)) + 1e-300
            if not np.max(np.abs(got - exp)) <= 3e-3 * sc:
                acc.fail(sig + ':sensitivity', sub, '%s model, shared ensemble: fluctuations of parameter %d differ from sum_i (dp/dy_i) delta y_i by %g (scale %g)' % (
                    model, k, np.max(np.abs(got - exp)), sc))
                return
            if use_prior and not prior_str:
                got, spread = coefficient(res.fit_parameters[k], 'P|r1', prior_obs)
                tol = 2e-3 * max(abs(coefs[n, k]), 1e-2 * cmax[k])
                if not abs(got - coefs[n, k]) <= tol:
                    acc.fail(sig + ':sensitivity-prior', sub, 'd p%d / d prior: %g vs re-fit %g' % (k, got, coefs[n, k]))
                    return
    acc.ok(repr(case), True, 'ls' + (':corr' if corr else '') + (':prior' if use_prior else '') + (':numgrad' if ng else ''))
    acc.count('refits', 4 * len(sources))
    acc.count('sensitivity-coefficients-compared', len(sources) * npar)
    acc.sample(dict(case, points=n))


def _same_fit(res, exp, npar, tolv, told):
    for j in range(npar):
        g, e = res.fit_parameters[j], copy.deepcopy(exp.fit_parameters[j])
        e.gamma_method()
        if not abs(g.value - e.value) <= tolv * e.dvalue:
            return 'parameter %d: %.12g instead of %.12g (error %.3g)' % (j, g.value, e.value, e.dvalue)
        if sorted(g.names) != sorted(e.names):
            return 'parameter %d lives on %s instead of %s' % (j, g.names, e.names)
        for nm in e.deltas:
            sc = np.max(np.abs(e.deltas[nm])) + 1e-300
            if not np.max(np.abs(g.deltas[nm] - e.deltas[nm])) <= told * sc:
                return 'fluctuations of parameter %d on %s deviate by %g (scale %g)' % (j, nm, np.max(np.abs(g.deltas[nm] - e.deltas[nm])), sc)
    return None


def run_model_forms(pe, acc, case):
    """One model, several ways of writing it: every form is fitted (least_squares and total_least_squares) and has to give the
    result of the plain indexed form, which run_ls / run_tls compare with the implicit-function reference."""
    a = anp()

    def unpack(p, x):
        A, m = p
        return A * a.exp(-m * x)

    def unpack_star(p, x):
        A, *rest = p
        return A * a.exp(-rest[0] * x)

    def helper(p, x):
        return _amp(p) * a.exp(-_mass(p) * x)

    def _amp(p):
        return p[0]

    def _mass(p):
        return p[len(p) - 1] if len(p) == 2 else p[1] + p[5]      # a wrong number of parameters fails with an IndexError

    forms = {'indexed': lambda p, x: p[0] * a.exp(-p[1] * x), 'unpacked': unpack, 'star-unpacked': unpack_star, 'negative-index': lambda p, x: p[-2] * a.exp(-p[-1] * x) + 0 * p[1],
             'helpers': helper, 'power-of-e': lambda p, x: p[0] * a.e ** (-p[1] * x)}
    n = 7
    xf, ys = make_data(pe, 'exp', n, case['layout'], 'forms')
    xint = [int(v) for v in range(1, n + 1)]
    rr = alpha.rng('c08forms', case['layout'])
    yp = [pe.Obs([1.7 * xi ** -0.8 * (1 + 0.02 * rr.normal(size=40))], ['S|r1' if case['layout'] == 'shared' else 'P%d|r1' % xi]) for xi in xint]
    xo = [pe.Obs([xv + 0.01 * rr.normal(size=30)], ['X%d|r1' % i]) for i, xv in enumerate(xf)]
    [o.gamma_method() for o in yp + xo]
    ref = pe.least_squares(xf, ys, forms['indexed'], silent=True)
    reft = pe.total_least_squares(xo, ys, forms['indexed'], silent=True)
    for nm, f in forms.items():
        for kind, fit, exp in (('ls', lambda f=f: pe.least_squares(xf, ys, f, silent=True), ref), ('tls', lambda f=f: pe.total_least_squares(xo, ys, f, silent=True), reft)):
            sub = dict(case, form=nm, fit=kind)
            try:
                res = fit()
            except Exception as e:
                acc.fail('model-form:refused', sub, 'the two-parameter exponential written as "%s" is refused by %s: %s: %s' % (nm, kind, type(e).__name__, e))
                continue
            bad = _same_fit(res, exp, 2, 1e-6, 1e-5)
            if bad:
                acc.fail('model-form:differs', sub, '%s fit of the form "%s" differs from the indexed form: %s' % (kind, nm, bad))
            else:
                acc.ok(('form', case['layout'], nm, kind), nm != 'indexed', 'model-form')
    # power law on integer abscissae given as a list of Python ints / an integer array, against the same fit on floats
    pw = lambda p, x: p[0] * x ** (-p[1])      # noqa: E731
    refp = pe.least_squares(np.array(xint, dtype=float), yp, pw, silent=True)
    for nm, xx in (('int-list', xint), ('int-array', np.array(xint)), ('int64-array', np.array(xint, dtype=np.int64))):
        sub = dict(case, form='power-law', x=nm)
        try:
            res = pe.least_squares(xx, yp, pw, silent=True)
        except Exception as e:
            acc.fail('model-form:refused', sub, 'power law a*x^(-b) on integer abscissae (%s) refused: %s: %s' % (nm, type(e).__name__, e))
            continue
        bad = _same_fit(res, refp, 2, 1e-6, 1e-5)
        if bad:
            acc.fail('model-form:differs', sub, 'power law on %s differs from the fit on floats: %s' % (nm, bad))
        else:
            acc.ok(('form-int', case['layout'], nm), True, 'model-form')
    acc.sample({'kind': 'model-forms', 'forms': sorted(forms), 'integer_abscissae': ['int-list', 'int-array', 'int64-array']})


def run_fit_sequence(pe, acc, case):
    """Every fit is compared with the same fit made through an independent route (the same model as a different function
    object, resp. the sensitivity oracle of the single-fit cases) after other fits have been made."""
    a = anp()
    f = models()['exp'][0]
    f_twin = lambda p, x: p[0] * a.exp(-p[1] * x)          # the same model, another function object
    guess = models()['exp'][3]
    n = 6
    # (0) the arguments come back unchanged: float abscissae in non-ascending order, fits with the plot options, then the same
    #     objects fitted again - the second fit equals the fit of a fresh copy of the data
    import matplotlib
    matplotlib.use('Agg')
    import matplotlib.pyplot as plt
    x0, y0 = make_data(pe, 'exp', n, 'shared', 'seqopt')
    perm = [4, 0, 5, 2, 1, 3]
    xp, yp = np.array([x0[i] for i in perm], dtype=float), [y0[i] for i in perm]
    ref_fit = pe.least_squares(xp.copy(), list(yp), f, silent=True, initial_guess=guess)
    for opts in ({'resplot': True}, {'qqplot': True}, {'resplot': True, 'qqplot': True}):
        xb = xp.copy()
        sub = dict(case, options=sorted(opts))
        try:
            pe.least_squares(xp, yp, f, silent=True, initial_guess=guess, **opts)
            plt.close('all')
            bad = None if np.array_equal(xp, xb) else 'least_squares(%s) changed the abscissae it was given: %s -> %s' % (opts, xb.tolist(), xp.tolist())
            if not bad:
                bad = _same_fit(pe.least_squares(xp, yp, f, silent=True, initial_guess=guess), ref_fit, 2, 1e-6, 1e-5)
                bad = bad and 'the fit of the same objects after a fit with %s: %s' % (opts, bad)
        except Exception as e:
            plt.close('all')
            bad = 'raised %s: %s' % (type(e).__name__, e)
        if bad:
            acc.fail('fit-sequence:argument-changed', sub, bad)
            xp = xb.copy()
        else:
            acc.ok(('seq-opt', repr(sorted(opts))), True, 'fit-sequence')
    # (a) correlated fits of data sets on independent ensembles: the estimated correlation matrix is the identity for both,
    #     the errors differ
    sets = []
    for k in range(3):
        xk, yk = make_data(pe, 'exp', n, 'indep', ('seq', k))
        yk = [y * (1.0 + 0.0 * k) for y in yk]
        r = alpha.rng('c08seq', k)
        yk = [pe.Obs([y.value + (0.02 + 0.05 * k) * (1 + i % 3) * r.normal(size=30)], ['Q%d_%d|r1' % (k, i)]) for i, y in enumerate(yk)]
        [y.gamma_method() for y in yk]
        sets.append((xk, yk))
    for order in itertools.permutations(range(3)):
        for pos, k in enumerate(order):
            xk, yk = sets[k]
            sub = dict(case, part='correlated-independent', order=list(order), position=pos)
            try:
                res = pe.least_squares(xk, yk, f, silent=True, initial_guess=guess, correlated_fit=True)
                exp = pe.least_squares(xk, yk, f_twin, silent=True, initial_guess=guess)      # identity correlation: same as uncorrelated
                bad = _same_fit(res, exp, 2, 1e-4, 1e-5)
            except Exception as e:
                bad = 'raised %s: %s' % (type(e).__name__, e)
            if bad:
                acc.fail('fit-sequence:correlated', sub, 'correlated fit of data set %d (independent ensembles) as number %d of the order %s: %s' % (k, pos + 1, list(order), bad))
            else:
                acc.ok(('fseq-corr', order, k), True, 'fit-sequence')
    # (b) a loose tolerance in one fit must not be the tolerance of the next one
    xs, ys = make_data(pe, 'exp', n, 'shared', 'seqtol')
    base = pe.least_squares(xs, ys, f_twin, silent=True, initial_guess=guess)
    for method in ('Nelder-Mead', 'Powell', 'migrad'):
        for tol in (1e-1, 0.5):
            sub = dict(case, part='tolerance', method=method, tol=tol)
            try:
                pe.least_squares(xs, ys, f, silent=True, initial_guess=guess, method=method, tol=tol)
            except Exception:
                pass
            try:
                res = pe.least_squares(xs, ys, f, silent=True, initial_guess=guess, method=method)
                bad = _same_fit(res, base, 2, 3e-3, 5e-3)
            except Exception as e:
                bad = None if 'did not converge' in str(e) else 'raised %s: %s' % (type(e).__name__, e)
            if bad:
                acc.fail('fit-sequence:tolerance', sub, '%s fit with the default tolerance after a %s fit with tol=%g: %s' % (method, method, tol, bad))
            else:
                acc.ok(('fseq-tol', method, tol), True, 'fit-sequence')
    # (c) total least squares with the SAME function object on data sets with different x errors
    tsets = []
    for k in range(3):
        xv, ysk = make_data(pe, 'exp', n, 'indep', ('tseq', k))
        r = alpha.rng('c08tseq', k)
        xo = [pe.Obs([xv[i] + (0.01 + 0.04 * k) * (1 + (i + k) % 2) * r.normal(size=25)], ['X%d_%d|r1' % (k, i)]) for i in range(n)]
        [o.gamma_method() for o in xo]
        tsets.append((xo, ysk))
    for order in itertools.permutations(range(3)):
        for pos, k in enumerate(order):
            xo, ysk = tsets[k]
            sub = dict(case, part='tls-same-function', order=list(order), position=pos)
            try:
                res = pe.total_least_squares(xo, ysk, f, silent=True, initial_guess=guess)
                exp = pe.total_least_squares(xo, ysk, [lambda p, x: p[0] * a.exp(-p[1] * x), lambda p, x: p[0] * a.exp(-(p[1] * x)), lambda p, x: a.exp(-p[1] * x) * p[0]][k], silent=True, initial_guess=guess)
                bad = _same_fit(res, exp, 2, 1e-5, 1e-6)
            except Exception as e:
                bad = 'raised %s: %s' % (type(e).__name__, e)
            if bad:
                acc.fail('fit-sequence:tls', sub, 'total least squares of data set %d with the same function object as number %d of the order %s: %s' % (k, pos + 1, list(order), bad))
            else:
                acc.ok(('fseq-tls', order, k), True, 'fit-sequence')
    acc.sample(dict(case, parts=['correlated fits on independent ensembles in every order', 'default tolerance after loose tolerance', 'total least squares with one function object on three data sets in every order']))


def run_ls_factory(pe, acc, case):
    a = anp()

    def make(k):
        return lambda p, x: p[0] * a.exp(-k * p[1] * x)
    ks = [0.5, 1.0, 2.0]
    fs = [make(k) for k in ks]
    written = [lambda p, x: p[0] * a.exp(-0.5 * p[1] * x), lambda p, x: p[0] * a.exp(-1.0 * p[1] * x), lambda p, x: p[0] * a.exp(-2.0 * p[1] * x)]
    if fs[0].__code__ is not fs[2].__code__ or written[0].__code__ is written[1].__code__:
        raise engine.MachineryError('factory / written-out functions do not have the intended code objects')
    n = 6
    x = 0.3 + 0.4 * np.arange(n)
    data = []
    for i, k in enumerate(ks):
        r = alpha.rng('c08fac', i)
        common = r.normal(size=40)
        ys = []
        for j in range(n):
            mean = 1.2 * math.exp(-k * 0.45 * x[j]) * (1 + 0.01 * r.normal())
            ys.append(pe.Obs([mean * (1 + 0.03 * (0.5 * common + 0.8 * r.normal(size=40)))], ['S|r1']))
        [y.gamma_method() for y in ys]
        data.append(ys)
    for kw_name, kw in (('plain', {}), ('correlated', {'correlated_fit': True}), ('num_grad', {'num_grad': True})):
        for pos, i in enumerate(case['order']):
            sub = dict(case, which=i, position=pos, options=kw_name)
            try:
                res = pe.least_squares(x, data[i], fs[i], silent=True, initial_guess=[1.0, 0.4], **kw)
                exp = pe.least_squares(x, data[i], written[i], silent=True, initial_guess=[1.0, 0.4], **kw)
            except Exception as e:
                acc.fail('ls-factory:raised', sub, 'least_squares raised %s: %s' % (type(e).__name__, e))
                continue
            bad = None
            [o.gamma_method() for o in exp.fit_parameters]
            for j in range(2):
                g, e = res.fit_parameters[j], exp.fit_parameters[j]
                if not abs(g.value - e.value) <= 1e-6 * e.dvalue:
                    bad = 'parameter %d: %.12g, with the same model written out %.12g' % (j, g.value, e.value)
                elif not np.max(np.abs(g.deltas['S|r1'] - e.deltas['S|r1'])) <= 1e-6 * np.max(np.abs(e.deltas['S|r1'])):
                    bad = 'fluctuations of parameter %d differ from those obtained with the same model written out (max deviation %g of %g)' % (
                        j, np.max(np.abs(g.deltas['S|r1'] - e.deltas['S|r1'])), np.max(np.abs(e.deltas['S|r1'])))
                if bad:
                    break
            if not bad and not abs(res.chisquare - exp.chisquare) <= 1e-8 * max(1.0, exp.chisquare):
                bad = 'chisquare %r vs %r' % (res.chisquare, exp.chisquare)
            if bad:
                acc.fail('ls-factory:%s' % kw_name, sub, 'model #%d of a factory (k=%g) fitted as number %d of the order %s (%s): %s' % (i, ks[i], pos + 1, case['order'], kw_name, bad))
            else:
                acc.ok(('lsfac', tuple(case['order']), i, kw_name), True, 'ls-factory')
    acc.sample(dict(case, models='p0 exp(-k p1 x), k in %s, from one factory' % ks))


def run_ls_method(pe, acc, case):
    model, layout, corr, use_prior, method = case['model'], case['layout'], case['corr'], case['prior'], case['method']
    f, ptrue, dim, guess = models()[model]
    npar = len(ptrue)
    n = 6 if npar == 2 else 7
    x, ys = make_data(pe, model, n, layout, 'ls')
    kw = {'initial_guess': guess}
    if corr:
        kw['correlated_fit'] = True
    prior_arg = None
    if use_prior:
        prior_obs = pe.Obs([ptrue[1] * 1.05 + 0.1 * ptrue[1] * alpha.rng('c08prior', model).normal(size=25)], ['P|r1'])
        prior_obs.gamma_method()
        prior_arg = {1: prior_obs}
    sig = 'ls-method:%s:%s%s%s' % (method, model, ':corr' if corr else '', ':prior' if use_prior else '')
    try:
        base = pe.least_squares(x, ys, f, priors=prior_arg, silent=True, **kw)
        res = pe.least_squares(x, ys, f, priors=prior_arg, silent=True, method=method, **kw)
    except Exception as e:
        if 'did not converge' in str(e):
            acc.ok(repr(case), False, 'ls-method:refused(no convergence)')      # the library's own refusal
            return
        acc.fail(sig + ':raised', dict(case), 'least_squares(method=%s) raised %s: %s' % (method, type(e).__name__, e))
        return
    [o.gamma_method() for o in base.fit_parameters]
    for k in range(npar):
        a, b = base.fit_parameters[k], res.fit_parameters[k]
        if not abs(a.value - b.value) <= 2e-3 * a.dvalue:
            acc.fail(sig + ':parameters', dict(case), 'parameter %d: %s gives %.10g, Levenberg-Marquardt %.10g (error %.3g)' % (k, method, b.value, a.value, a.dvalue))
            return
        if sorted(a.names) != sorted(b.names):
            acc.fail(sig + ':chains', dict(case), 'parameter %d lives on %s, with Levenberg-Marquardt on %s' % (k, b.names, a.names))
            return
        for nm in a.deltas:
            sc = np.max(np.abs(a.deltas[nm])) + 1e-300
            if not np.max(np.abs(a.deltas[nm] - b.deltas[nm])) <= 5e-3 * sc:
                acc.fail(sig + ':fluctuations', dict(case), 'parameter %d, chain %s: fluctuations differ from the Levenberg-Marquardt result by %g (scale %g)' % (
                    k, nm, np.max(np.abs(a.deltas[nm] - b.deltas[nm])), sc))
                return
    if not abs(res.chisquare - base.chisquare) <= 1e-5 * max(1.0, base.chisquare):
        acc.fail(sig + ':chisquare', dict(case), 'chisquare %r vs %r' % (res.chisquare, base.chisquare))
        return
    acc.ok(repr(case), True, 'ls-method:' + method)
    acc.sample(dict(case, points=n))


def run_tls(pe, acc, case):
    model = case['model']
    f, ptrue, dim, guess = models()[model]
    npar = len(ptrue)
    n = 6 if npar == 2 else 7
    xv, ys = make_data(pe, model, n, 'indep', 'tls')
    r = alpha.rng('c08tlsx', model)
    if dim == 2:
        xo = np.empty((2, n), dtype=object)
        for a_ in range(2):
            for i in range(n):
                xo[a_, i] = pe.Obs([xv[a_, i] + 0.02 * r.normal(size=30)], ['X%d_%d|r1' % (a_, i)])
        flat = list(xo.ravel())
    else:
        xo = [pe.Obs([xv[i] + 0.02 * r.normal(size=30)], ['X%d|r1' % i]) for i in range(n)]
        flat = list(xo)
    [o.gamma_method() for o in flat]
    for ng in (case['num_grad'],):
        sub = dict(case, num_grad=ng)
        sig = 'tls:%s%s' % (model, ':numgrad' if ng else '')
        kw = {'initial_guess': guess}
        if ng:
            kw['num_grad'] = True
        try:
            res = pe.total_least_squares(xo, ys, f, silent=True, **kw)
        except Exception as e:
            acc.fail(sig + ':raised', sub, 'total_least_squares raised %s: %s' % (type(e).__name__, e))
            continue
        pfit = np.array([o.value for o in res.fit_parameters])
        xval = np.vectorize(lambda o: o.value)(np.array(xo, dtype=object)).astype(float)
        dx = np.vectorize(lambda o: o.dvalue)(np.array(xo, dtype=object)).astype(float)
        yv = np.array([y.value for y in ys])
        dy = np.array([y.dvalue for y in ys])
        m = xval.size

        def chi(q):
            p, xi = q[:npar], q[npar:].reshape(xval.shape)
            model_v = np.array([float(f(p, xi[:, i] if dim == 2 else xi[i])) for i in range(n)])
            return float(np.sum(((yv - model_v) / dy) ** 2) + np.sum(((xval - xi) / dx) ** 2))
        q0 = np.concatenate([pfit, np.asarray(res.xplus, dtype=float).ravel()])
        c0 = chi(q0)
        g = num_grad(chi, q0)
        if not np.max(np.abs(g)) <= 1e-3 * max(1.0, c0):
            acc.fail(sig + ':stationarity', sub, 'gradient of the documented chi-square (incl. x residuals) at (parameters, xplus): max %g (chi2=%g)' % (np.max(np.abs(g)), c0))
            continue
        if not abs(res.odr_chisquare - c0) <= 1e-6 * max(1.0, c0):
            acc.fail(sig + ':chisquare', sub, 'odr_chisquare %r, documented %r' % (res.odr_chisquare, c0))
            continue
        if res.dof != n - npar:
            acc.fail(sig + ':dof', sub, 'dof %r' % res.dof)
            continue
        kw2 = dict(kw, initial_guess=list(pfit))
        bad = None
        sources = [('y%d' % i, ys, i) for i in range(n)] + [('x%d' % j, flat, j) for j in range(len(flat))]
        coefs = np.zeros((len(sources), npar))
        for si, (nm, lst, i) in enumerate(sources):
            src = lst[i]

            def fit_at(eps, lst=lst, i=i):
                ys2, fl2 = list(ys), list(flat)
                tgt = ys2 if lst is ys else fl2
                tgt[i] = src + eps
                tgt[i].gamma_method()
                x2 = np.array(fl2, dtype=object).reshape(np.array(xo, dtype=object).shape)
                r2 = pe.total_least_squares(x2 if dim == 2 else list(x2), ys2, f, silent=True, **kw2)
                return np.array([o.value for o in r2.fit_parameters])
            coefs[si] = richardson(fit_at, 0.1 * src.dvalue)
        cmax = np.max(np.abs(coefs), axis=0)
        for si, (nm, lst, i) in enumerate(sources):
            src = lst[i]
            for k in range(npar):
                got, spread = coefficient(res.fit_parameters[k], src.names[0], src)
                tol = 3e-3 * max(abs(coefs[si, k]), 1e-2 * cmax[k])
                if spread > 1e-9 * max(abs(got), 1e-12) + 1e-14 or not abs(got - coefs[si, k]) <= tol:
                    bad = '%s model: d p%d / d %s from the fluctuations = %.8g, from re-fitting = %.8g' % (model, k, nm, got, coefs[si, k])
                    break
            if bad:
                break
        if bad:
            acc.fail(sig + ':sensitivity', sub, bad)
        else:
            acc.ok(repr(sub), True, 'tls' + (':numgrad' if ng else ''))
            acc.count('refits', 4 * len(sources))
            acc.count('sensitivity-coefficients-compared', len(sources) * npar)
    acc.sample(dict(case, points=n))


def run_tls_tight(pe, acc, case):
    """Central values on the curve to 1e-3 / 1e-6 of the errors (or exactly): every such fit is served, at a stationary point of the
    documented chi-square and at the true parameters."""
    for model in ('exp', 'exp+c', 'cosh', 'rational'):
        f, ptrue, dim, guess = models()[model]
        npar = len(ptrue)
        n = 8
        xv = xs_for(1, n)
        for tight, dxs in itertools.product((1e-3, 1e-6, 0.0), (0.02, 0.1)):
            r = alpha.rng('c08tight', model, tight, dxs)
            ys, xo = [], []
            for i in range(n):
                mean = float(f(ptrue, xv[i]))
                sig = 0.03 * abs(mean) + 0.004
                z = r.normal(size=40)
                z = (z - z.mean()) / z.std(ddof=1)
                ys.append(pe.Obs([mean * 1.0 + sig * tight * r.normal() + sig * math.sqrt(40) * z], ['E%d|r1' % i]))
                w = r.normal(size=30)
                w = (w - w.mean()) / w.std(ddof=1)
                xo.append(pe.Obs([xv[i] + dxs * tight * r.normal() + dxs * math.sqrt(30) * w], ['X%d|r1' % i]))
            [o.gamma_method(S=0) for o in ys + xo]
            sub = dict(case, model=model, tight=tight, dx=dxs)
            try:
                res = pe.total_least_squares(xo, ys, f, silent=True, initial_guess=guess)
            except Exception as e:
                acc.fail('tls-tight:raised', sub, 'total_least_squares on %s data lying on the curve to %g of the errors (x errors %g) raised %s: %s' % (model, tight, dxs, type(e).__name__, e))
                continue
            pfit = np.array([o.value for o in res.fit_parameters])
            xval, dx = np.array([o.value for o in xo]), np.array([o.dvalue for o in xo])
            yv, dy = np.array([y.value for y in ys]), np.array([y.dvalue for y in ys])

            def chi(q):
                pp, xi = q[:npar], q[npar:]
                return float(np.sum(((yv - np.array([float(f(pp, xi[i])) for i in range(n)])) / dy) ** 2) + np.sum(((xval - xi) / dx) ** 2))
            q0 = np.concatenate([pfit, np.asarray(res.xplus, dtype=float).ravel()])
            g = num_grad(chi, q0)
            bad = None
            if not np.max(np.abs(g)) <= 1e-3 * max(1.0, chi(q0)):
                bad = 'not a stationary point of the documented chi-square: max gradient %g' % np.max(np.abs(g))
            elif not np.all(np.abs(pfit - np.array(ptrue)) <= 10 * max(tight, 1e-9) * np.abs(ptrue) + 1e-7):
                bad = 'parameters %s, the data lie on the curve with parameters %s' % (pfit, ptrue)
            if bad:
                acc.fail('tls-tight', sub, '%s, scatter %g of the errors, x errors %g: %s' % (model, tight, dxs, bad))
            else:
                acc.ok(('tight', model, tight, dxs), True, 'tls-tight')
    acc.sample({'kind': 'tls-tight', 'models': ['exp', 'exp+c', 'cosh', 'rational'], 'scatter_over_error': [1e-3, 1e-6, 0.0], 'x_errors': [0.02, 0.1]})


def run_tls_limit(pe, acc, case):
    """x errors -> 0: total least squares coincides with the ordinary fit; fit_lin dispatches on the type of x."""
    for model in ('exp', 'rational', 'exp+c'):
        f, ptrue, dim, guess = models()[model]
        n = 7
        xv, ys = make_data(pe, model, n, 'indep', 'lim')
        r = alpha.rng('c08lim', model)
        xo = [pe.Obs([xv[i] + 1e-9 * r.normal(size=20)], ['X%d|r1' % i]) for i in range(n)]
        [o.gamma_method() for o in xo]
        xm = np.array([o.value for o in xo])
        a = pe.least_squares(xm, ys, f, silent=True, initial_guess=guess)
        b = pe.total_least_squares(xo, ys, f, silent=True, initial_guess=guess)
        bad = None
        for k in range(len(ptrue)):
            oa, ob = copy.deepcopy(a.fit_parameters[k]), copy.deepcopy(b.fit_parameters[k])
            oa.gamma_method()
            ob.gamma_method()
            if not abs(oa.value - ob.value) <= 1e-5 * abs(oa.value) or not abs(oa.dvalue - ob.dvalue) <= 1e-4 * oa.dvalue:
                bad = 'parameter %d: ordinary %r +- %r, total least squares with negligible x errors %r +- %r' % (k, oa.value, oa.dvalue, ob.value, ob.dvalue)
            for i in range(n):
                ca, _ = coefficient(a.fit_parameters[k], 'E%d|r1' % i, ys[i])
                cb, _ = coefficient(b.fit_parameters[k], 'E%d|r1' % i, ys[i])
                if not abs(ca - cb) <= 1e-4 * max(abs(ca), 1e-3):
                    bad = bad or 'parameter %d: dp/dy_%d differs: %r vs %r' % (k, i, ca, cb)
        if not abs(a.chisquare - b.odr_chisquare) <= 1e-5 * max(1.0, a.chisquare):
            bad = bad or 'chisquare %r vs %r' % (a.chisquare, b.odr_chisquare)
        if bad:
            acc.fail('tls-limit', dict(case, model=model), bad)
        else:
            acc.ok(('lim', model), True, 'tls-limit')
    # fit_lin with observable abscissae = total least squares of a straight line
    r = alpha.rng('c08fl')
    n = 6
    xo = [pe.Obs([0.5 + 0.6 * i + 0.03 * r.normal(size=25)], ['X%d|r1' % i]) for i in range(n)]
    ys = [pe.Obs([1.0 + 0.7 * (0.5 + 0.6 * i) + 0.04 * r.normal(size=25)], ['E%d|r1' % i]) for i in range(n)]
    [o.gamma_method() for o in xo + ys]
    a = pe.fits.fit_lin(xo, ys, silent=True)
    b = pe.total_least_squares(xo, ys, lambda p, x: p[0] + p[1] * x, silent=True)
    bad = None
    for k in range(2):
        bad = bad or ref.close(compare.to_ref(b.fit_parameters[k]), compare.to_ref(a[k]), 1e-6)
    if bad:
        acc.fail('fit_lin-tls', case, 'fit_lin with observable x differs from total_least_squares: %s' % bad)
    else:
        acc.ok('fit_lin-tls', True, 'fit_lin-tls')
    acc.sample({'kind': 'tls-limit', 'models': ['exp', 'rational', 'exp+c']})
