"""C14 Correlator arithmetic acts timeslice-wise and propagates undefined slices.

E-PROD: all defined-slice patterns per operand for T=2..5 (exhaustive), <=2 undefined slices in
total for larger T; all operators / functions / partner types in both orders; index maps against
their literal definitions; aliasing oracle (operands and arguments deep-compared before/after,
second invocation with the same argument objects must equal the first)."""
import os
import copy
import math
import warnings
import itertools
import numpy as np
from mc import engine, alpha
from mc.engine import Acc

LEVEL = 'exploration'
RULE = ('(a) arithmetic: T=2..5 x every pair of non-empty defined-slice patterns (exhaustive) and T in {6,8,12,16} with <=2 '
        'undefined slices in total, N in {1,2}: Corr op Corr for + - * / (and @ for N=2); Corr op partner and partner op Corr '
        'for partners Obs, CObs, int, float (complex number for complex content) x every pattern; ** with int/float/Obs '
        'exponent; neg, abs; (b) functions: 18 elementary functions x every pattern for T<=4 x data inside the domain and data '
        'producing NaN at chosen slices (method and numpy call); (c) complex content on its supported subset; (d) index maps '
        'roll(dt=-2T-1..2T+1), reverse, thin(spacing 1..4, offset 0..3), symmetric, anti_symmetric, T_symmetry(+-1), item, '
        'projected (array / per-timeslice vectors, normalize on/off), trace, matrix_symmetric, Hankel(N=1..3, periodic on/off), '
        'repr/print with a range, every pattern for T<=6; (e) aliasing oracle on all of these; (f) chains: every sequence of <= 3 (quick) / 4 (thorough, four of the eight initial correlators) operations from a '
        '23+19-letter alphabet (index maps, arithmetic with Corr/Obs/number partners, exp/log/abs/**2, Hankel, item, trace, matrix_symmetric, projected, matmul) started from 8 initial '
        'correlators (T=4,5,6,8 with undefined and negative slices), each intermediate Corr compared with a list model and operands checked for mutation.  Non-trivial = an operand '
        'has an undefined slice, or a non-Corr partner, or a NaN-producing value, or an index map')
ASSUMPTIONS = ['per-timeslice expectations are formed with pyerrors scalar Obs arithmetic (decided by C01)',
               'inside the support table a designed refusal (the library\'s own TypeError for a wrong partner type, a missing '
               'reflected operator) is recorded as refused; a result undefined on every timeslice may be returned or refused']
EXHAUSTIVE = True
CHUNK = 1

LAY = {'A|r1': 'c8'}


def mkobs(pe, key, val, sig=0.05):
    return alpha.make_obs(pe, LAY, ('c14', key), 'white', val, sig)[0]


def mkcorr(pe, key, pattern, vals, N=1, cplx=False):
    content = []
    for t, p in enumerate(pattern):
        if not p:
            content.append(None)
        elif N == 1:
            o = mkobs(pe, (key, t), vals[t])
            content.append(pe.CObs(o, mkobs(pe, (key, t, 'i'), 0.5 * vals[t] + 0.2)) if cplx else o)
        else:
            m = np.empty((N, N), dtype=object)
            for i in range(N):
                for j in range(N):
                    o = mkobs(pe, (key, t, i, j), vals[t] + 0.4 * (i == j) + 0.1 * i - 0.05 * j)
                    m[i, j] = pe.CObs(o, mkobs(pe, (key, t, i, j, 'i'), 0.3 + 0.1 * j)) if cplx else o
            content.append(m)
    return pe.Corr(content)


def patterns(T):
    return [p for p in itertools.product([1, 0], repeat=T) if any(p)]


def sparse_pairs(T):
    """All pairs of patterns with at most two undefined slices in total (both operands together)."""
    out = []
    full = tuple([1] * T)
    slots = [(w, t) for w in (0, 1) for t in range(T)]
    for k in (0, 1, 2):
        for holes in itertools.combinations(slots, k):
            a, b = list(full), list(full)
            for w, t in holes:
                (a if w == 0 else b)[t] = 0
            out.append((tuple(a), tuple(b)))
    return out


def same_entry(x, y, pe, rtol=1e-12):
    """x: implementation entry, y: expected entry (Obs / CObs)."""
    if isinstance(y, pe.CObs) or isinstance(x, pe.CObs):
        if not (isinstance(x, pe.CObs) and isinstance(y, pe.CObs)):
            return 'type %s, expected %s' % (type(x).__name__, type(y).__name__)
        for part in ('real', 'imag'):
            xa, ya = getattr(x, part), getattr(y, part)
            if isinstance(ya, pe.Obs) != isinstance(xa, pe.Obs):
                return '%s part type' % part
            bad = same_entry(xa, ya, pe, rtol) if isinstance(ya, pe.Obs) else (None if abs(xa - ya) <= rtol * max(1, abs(ya)) else '%s part %r vs %r' % (part, xa, ya))
            if bad:
                return part + ': ' + bad
        return None
    if not isinstance(x, pe.Obs):
        return 'entry is a %s' % type(x).__name__
    sc = max(abs(y.value), max([np.max(np.abs(d)) for d in y.deltas.values()] + [0.0]), 1e-300)
    if np.isnan(y.value) or np.isnan(x.value):
        return None if (np.isnan(y.value) and np.isnan(x.value)) else 'value %r vs %r' % (x.value, y.value)
    if not abs(x.value - y.value) <= rtol * sc:
        return 'value %r, expected %r' % (x.value, y.value)
    if sorted(x.names) != sorted(y.names):
        return 'names %s vs %s' % (x.names, y.names)
    for n in y.deltas:
        if list(x.idl[n]) != list(y.idl[n]):
            return 'configurations of %s' % n
        if not np.all(np.abs(x.deltas[n] - y.deltas[n]) <= rtol * sc):
            return 'fluctuations of %s differ by %g' % (n, np.max(np.abs(x.deltas[n] - y.deltas[n])))
    return None


def entry_isnan(e, pe):
    for v in np.asarray(e, dtype=object).ravel():
        val = v.value if isinstance(v, pe.Obs) else (v.real.value if isinstance(v, pe.CObs) else v)
        if isinstance(val, complex) or np.iscomplexobj(val):
            if np.isnan(val.real) or np.isnan(val.imag):
                return True
        elif np.isnan(val):
            return True
        if isinstance(v, pe.CObs) and np.isnan(v.imag.value if isinstance(v.imag, pe.Obs) else v.imag):
            return True
    return False


def compare_corr(pe, res, T, N, expected, rtol=1e-12):
    """expected: list of per-slice expected entries (array / Obs) or None."""
    if not isinstance(res, pe.Corr):
        return 'result is %s, not a Corr' % type(res).__name__
    if res.T != T:
        return 'T=%d, expected %d' % (res.T, T)
    if res.N != N:
        return 'N=%d, expected %d' % (res.N, N)
    for t in range(T):
        e = expected[t]
        r = res.content[t]
        if e is None:
            if r is not None:
                return 'timeslice %d is defined although an operand is undefined / the value is not a number there' % t
            continue
        if r is None:
            return 'timeslice %d is undefined although all operands are defined' % t
        if np.shape(r) != ((N, N) if N > 1 else (1,)):
            return 'timeslice %d of a correlator with N=%d has shape %s (single-valued correlators hold (1,), matrix correlators (N, N))' % (t, N, np.shape(r))
        ea = np.asarray(e, dtype=object).reshape(-1)
        ra = np.asarray(r, dtype=object).reshape(-1)
        if ea.shape != ra.shape:
            return 'timeslice %d has shape %s, expected %s' % (t, np.asarray(r).shape, np.asarray(e).shape)
        for k in range(len(ea)):
            bad = same_entry(ra[k], ea[k], pe, rtol)
            if bad:
                return 'timeslice %d entry %d: %s' % (t, k, bad)
    return None


def snapshot(x, pe):
    """Deep, comparable fingerprint of an operand / argument."""
    if x is None:
        return None
    if isinstance(x, pe.Corr):
        return ('Corr', x.T, x.N, x.tag, None if x.prange is None else tuple(x.prange), tuple(snapshot(c, pe) for c in x.content))
    if isinstance(x, pe.Obs):
        # ... including the state of its error analysis (an operand that was never analysed stays unanalysed)
        return ('Obs', float(x.value).hex() if not isinstance(x.value, complex) else repr(x.value), tuple((n, tuple(x.idl[n]), x.deltas[n].tobytes()) for n in sorted(x.deltas)), x.tag,
                repr(getattr(x, '_dvalue', None)), repr(getattr(x, 'ddvalue', None)), tuple(sorted(getattr(x, 'S', {}).items())), tuple(sorted(getattr(x, 'e_windowsize', {}).items())))
    if isinstance(x, pe.CObs):
        return ('CObs', snapshot(x.real, pe), snapshot(x.imag, pe))
    if isinstance(x, np.ndarray):
        if x.dtype == object:
            return ('arr', x.shape, tuple(snapshot(v, pe) for v in x.ravel()))
        return ('nd', x.shape, x.dtype.str, x.tobytes())
    if isinstance(x, (list, tuple)):
        return (type(x).__name__, tuple(snapshot(v, pe) for v in x))
    return ('v', repr(x))


def call_checked(pe, acc, sig, sub, what, f, args, expected_fn, T, N, nontrivial=True, key=None, refusal_ok=False, all_undef_ok=True):
    """Runs f(*args) twice with the same argument objects, checks the result against expected_fn() and that no
    argument was mutated."""
    before = [snapshot(a, pe) for a in args]
    try:
        expected = expected_fn()
    except Exception as e:
        raise engine.MachineryError('expectation for %s failed: %r' % (what, e))
    all_undef = all(e is None for e in expected)
    try:
        with warnings.catch_warnings():
            warnings.simplefilter('ignore')
            res = f(*args)
            after = [snapshot(a, pe) for a in args]
            res2 = f(*args)
    except Exception as e:
        if all_undef and all_undef_ok:
            acc.ok(key or (sig, repr(sub)), False, 'all-undefined-refused')
            return
        if refusal_ok and isinstance(e, TypeError) and ('wrong type' in str(e) or 'unsupported operand' in str(e) or 'not supported' in str(e)):
            acc.ok(key or (sig, repr(sub)), False, 'refused')
            return
        acc.fail(sig + ':raised', sub, '%s raised %s: %s' % (what, type(e).__name__, e))
        return
    if after != before:
        i = [k for k in range(len(args)) if after[k] != before[k]][0]
        acc.fail(sig + ':mutates-argument', sub, '%s modified its argument #%d' % (what, i))
        return
    bad = compare_corr(pe, res, T, N, expected)
    if bad and all_undef and all_undef_ok:
        bad = None
    if bad:
        acc.fail(sig, sub, '%s: %s' % (what, bad))
        return
    if snapshot(res, pe) != snapshot(res2, pe):
        acc.fail(sig + ':second-call-differs', sub, '%s: a second call with the same argument objects gives a different result' % what)
        return
    acc.ok(key or (sig, repr(sub)), nontrivial, sig.split(':')[0])


def slicewise(pe, a, b, op, T):
    """Expected content of Corr a op b (b may be a Corr or a partner applied to every slice)."""
    out = []
    for t in range(T):
        x = a.content[t] if isinstance(a, pe.Corr) else a
        y = b.content[t] if isinstance(b, pe.Corr) else b
        if x is None or y is None:
            out.append(None)
            continue
        with warnings.catch_warnings():
            warnings.simplefilter('ignore')
            e = op(x, y)
        out.append(None if entry_isnan(e, pe) else e)
    return out


import operator
OPS = {'+': operator.add, '-': operator.sub, '*': operator.mul, '/': operator.truediv}


# ------------------------------------------------------------------ case lists
def build(tier, seed):
    cases = []
    for N in (1, 2):
        for T in (2, 3, 4, 5):
            pats = patterns(T)
            pairs = list(itertools.product(pats, repeat=2))
            if N == 2 and T == 5 and tier == 'quick':
                pairs = [p for p in pairs if sum(p[0]) + sum(p[1]) >= 2 * T - 3]   # N=2, T=5: <=3 undefined in total (quick)
            for i in range(0, len(pairs), 40):
                cases.append({'kind': 'arith', 'T': T, 'N': N, 'pairs': [[list(a), list(b)] for a, b in pairs[i:i + 40]]})
        for T in ((6, 8, 16) if tier == 'quick' else (6, 7, 8, 12, 16)):
            pairs = sparse_pairs(T)
            for i in range(0, len(pairs), 40):
                cases.append({'kind': 'arith', 'T': T, 'N': N, 'pairs': [[list(a), list(b)] for a, b in pairs[i:i + 40]]})
    for T in (2, 3, 4):
        cases.append({'kind': 'partner', 'T': T, 'N': 1})
        cases.append({'kind': 'partner', 'T': T, 'N': 2})
        cases.append({'kind': 'func', 'T': T})
        cases.append({'kind': 'complex', 'T': T})
    for T in (2, 3, 4, 5, 6):
        cases.append({'kind': 'maps', 'T': T})
    for T in ((8, 16) if tier == 'quick' else (7, 8, 12, 16)):
        cases.append({'kind': 'maps', 'T': T, 'sparse': True})
    for T in (3, 4, 6):
        cases.append({'kind': 'matrix-maps', 'T': T})
    cases.append({'kind': 'partial-matrix'})
    # chains of operations: every sequence of <= depth steps; one case per (initial correlator, first step)
    for init in sorted(CHAIN_INIT):
        deep = tier != 'quick' and init in ('t4', 't4h1', 't5h03', 't6h2')
        firsts = sorted(n for n in _chain_names(CHAIN_INIT[init][0]) if n.endswith('@1'))
        for first in firsts:
            cases.append({'kind': 'chain', 'init': init, 'depth': 4 if deep else 3, 'first': first})
    return cases


def _chain_names(T):
    base = ['roll1', 'roll-2', 'reverse', 'thin20', 'thin21', 'thin31', 'neg', '*obs', 'obs-', '2.5/']
    n1 = [b + '@1' for b in base] + ['+K@1', 'K-@1', '*Bh@1', '/Bh@1', '**2@1', 'exp@1', 'log@1', 'abs@1', 'T_symmetry@1', 'Hankel2@1', 'Hankel2p@1']
    if T % 2 == 0:
        n1 += ['symmetric@1', 'anti_symmetric@1']
    return n1


def vals_for(T, base=1.5, step=0.3):
    return [base + step * t for t in range(T)]


def run_case(case):
    pe = engine.import_pyerrors()
    acc = Acc()
    k = case['kind']
    with warnings.catch_warnings():
        warnings.simplefilter('ignore')
        if k == 'arith':
            run_arith(pe, acc, case)
        elif k == 'partner':
            run_partner(pe, acc, case)
        elif k == 'func':
            run_func(pe, acc, case)
        elif k == 'complex':
            run_complex(pe, acc, case)
        elif k == 'maps':
            run_maps(pe, acc, case)
        elif k == 'matrix-maps':
            run_matrix_maps(pe, acc, case)
        elif k == 'partial-matrix':
            run_partial(pe, acc, case)
        elif k == 'chain':
            run_chain(pe, acc, case)
    return acc


def run_arith(pe, acc, case):
    T, N = case['T'], case['N']
    full = [1] * T
    A0 = mkcorr(pe, 'A', full, vals_for(T), N)
    B0 = mkcorr(pe, 'B', full, vals_for(T, 0.8, -0.05), N)
    for pa, pb in case['pairs']:
        A = pe.Corr([A0.content[t] if pa[t] else None for t in range(T)])
        B = pe.Corr([B0.content[t] if pb[t] else None for t in range(T)])
        ops = ['+', '-', '*', '/'] + (['@'] if N == 2 else [])
        for op in ops:
            if 'op' in case and case['op'] != op:
                continue
            sub = {'kind': 'arith', 'T': T, 'N': N, 'pairs': [[pa, pb]], 'op': op}
            f = OPS.get(op, operator.matmul)
            call_checked(pe, acc, 'corr%scorr' % op, sub, 'Corr %s Corr, patterns %s %s' % (op, pa, pb), f, [A, B],
                         lambda: slicewise(pe, A, B, f, T), T, N, nontrivial=(0 in pa or 0 in pb), key=('ar', T, N, tuple(pa), tuple(pb), op))
    acc.sample({'kind': 'arith', 'T': T, 'N': N, 'pattern_pair': case['pairs'][-1], 'ops': '+ - * /' + (' @' if N == 2 else '')})


def run_partner(pe, acc, case):
    T, N = case['T'], case['N']
    A0 = mkcorr(pe, 'PA', [1] * T, vals_for(T), N)
    partners = {'Obs': mkobs(pe, 'po', 0.7), 'CObs': pe.CObs(mkobs(pe, 'pcr', 0.7), mkobs(pe, 'pci', -0.4)), 'int': 2, 'float': 0.5,
                'npfloat': np.float64(0.25), 'npint': np.int64(3), 'npuint8': np.uint8(2), 'npint32': np.int32(-3), 'zero': 0, 'zero-float': 0.0,
                # partners of very small magnitude are not zero
                'tiny-Obs': mkobs(pe, 'pt', 0.7) * 1e-11, 'tiny-CObs': pe.CObs(mkobs(pe, 'ptr', 0.7) * 1e-11, mkobs(pe, 'pti', -0.4) * 1e-11)}
    for pa in patterns(T):
        A = pe.Corr([A0.content[t] if pa[t] else None for t in range(T)], prange=[0, T - 1])
        for pn, P in partners.items():
            for op in ('+', '-', '*', '/'):
                for side in ('right', 'left'):
                    if pn.startswith('zero') and op == '/' and side == 'right':
                        continue       # division of a correlator by the number zero is refused
                    sub = dict(case, pa=list(pa), partner=pn, op=op, side=side)
                    if 'partner' in case and (case['pa'], case['partner'], case['op'], case['side']) != (list(pa), pn, op, side):
                        continue
                    f = OPS[op]
                    if side == 'right':
                        fn, args, exp = f, [A, P], (lambda: slicewise(pe, A, P, f, T))
                    else:
                        fn, args, exp = f, [P, A], (lambda: slicewise(pe, P, A, f, T))
                    call_checked(pe, acc, 'corr%s%s:%s' % (op, pn, side), sub, '%s, pattern %s' % (('Corr %s %s' % (op, pn)) if side == 'right' else ('%s %s Corr' % (pn, op)), pa),
                                 fn, args, exp, T, N, key=('pt', T, N, tuple(pa), pn, op, side))
        # ** with a real exponent on the right; neg; abs
        for en, E in (('int', 2), ('float', 0.5), ('negfloat', -1.5), ('Obs', mkobs(pe, 'pe', 1.3)), ('npint', np.int64(2)), ('npnegint', np.int32(-1))):
            sub = dict(case, pa=list(pa), exponent=en)
            call_checked(pe, acc, 'corr**%s' % en, sub, 'Corr ** %s, pattern %s' % (en, pa), operator.pow, [A, E],
                         lambda: slicewise(pe, A, E, operator.pow, T), T, N, key=('pow', T, N, tuple(pa), en))
        for un, f in (('neg', operator.neg), ('abs', abs)):
            sub = dict(case, pa=list(pa), unary=un)
            call_checked(pe, acc, 'corr:%s' % un, sub, '%s(Corr), pattern %s' % (un, pa), f, [A],
                         lambda: [None if A.content[t] is None else f(A.content[t]) for t in range(T)], T, N, key=('un', T, N, tuple(pa), un))
    acc.sample({'kind': 'partner', 'T': T, 'N': N, 'partners': list(partners), 'ops': '+ - * / ** neg abs', 'sides': ['right', 'left']})


FUNCS = ['sqrt', 'log', 'exp', 'sin', 'cos', 'tan', 'sinh', 'cosh', 'tanh', 'arcsin', 'arccos', 'arctan', 'arcsinh', 'arccosh', 'arctanh']
# values inside the domain / a value producing NaN
FDOM = {'sqrt': (1.3, -0.7), 'log': (1.3, -0.7), 'arcsin': (0.4, 2.0), 'arccos': (0.4, -2.0), 'arccosh': (1.8, 0.5), 'arctanh': (0.4, 1.7)}


def run_func(pe, acc, case):
    T = case['T']
    for fn in FUNCS:
        good, badv = FDOM.get(fn, (0.6, None))
        for pa in patterns(T):
            nan_sets = [()] + ([(t,) for t in range(T) if pa[t]] if badv is not None else []) + ([tuple(t for t in range(T) if pa[t])] if badv is not None and sum(pa) > 1 else [])
            for nan_at in nan_sets:
                vals = [badv if t in nan_at else good + 0.05 * t for t in range(T)]
                A = mkcorr(pe, ('F', fn), pa, vals)
                for how in ('method', 'numpy'):
                    sub = dict(case, fn=fn, pa=list(pa), nan_at=list(nan_at), how=how)
                    if 'fn' in case and (case['fn'], case['pa'], case['nan_at'], case['how']) != (fn, list(pa), list(nan_at), how):
                        continue
                    f = (lambda c: getattr(c, fn)()) if how == 'method' else (lambda c: getattr(np, fn)(c))

                    def exp():
                        out = []
                        for t in range(T):
                            if A.content[t] is None:
                                out.append(None)
                                continue
                            e = getattr(np, fn)(A.content[t])
                            out.append(None if entry_isnan(e, pe) else e)
                        return out
                    call_checked(pe, acc, 'func:%s%s' % (fn, ':nan' if nan_at else ''), sub, '%s(Corr) via %s, pattern %s, NaN-producing value at %s' % (fn, how, pa, list(nan_at)),
                                 f, [A], exp, T, 1, key=('fn', T, fn, tuple(pa), nan_at, how))
    # matrix-valued content: a not-a-number value in ANY entry makes the timeslice undefined
    if T <= 3:
        for fn in ('log', 'sqrt', 'arcsin', 'exp', 'arccosh'):
            good, badv = FDOM.get(fn, (0.6, None))
            for pa in patterns(T):
                for nan_t in [None] + [t for t in range(T) if pa[t]]:
                    for entry in ([(0, 0), (0, 1), (1, 0), (1, 1)] if (nan_t is not None and badv is not None) else [None]):
                        M = mkcorr(pe, ('FM', fn), pa, [good] * T, N=2)
                        if entry is not None:
                            cont = [None if c is None else c.copy() for c in M.content]
                            cont[nan_t][entry] = mkobs(pe, ('FMbad', fn, nan_t, entry), badv)
                            M = pe.Corr(cont)
                        # keep all entries inside the domain except the chosen one (mkcorr adds small offsets per entry)
                        for how in ('method', 'numpy'):
                            sub = dict(case, fn=fn, pa=list(pa), nan_t=nan_t, entry=list(entry) if entry else None, how=how, N=2)
                            f = (lambda c: getattr(c, fn)()) if how == 'method' else (lambda c: getattr(np, fn)(c))

                            def exp2(M=M):
                                out = []
                                for t in range(T):
                                    if M.content[t] is None:
                                        out.append(None)
                                        continue
                                    e = getattr(np, fn)(M.content[t])
                                    out.append(None if entry_isnan(e, pe) else e)
                                return out
                            call_checked(pe, acc, 'func-matrix:%s%s' % (fn, ':nan' if entry else ''), sub, '%s(matrix Corr) via %s, pattern %s, NaN-producing value at t=%s entry %s' % (fn, how, pa, nan_t, entry),
                                         f, [M], exp2, T, 2, key=('fnm', T, fn, tuple(pa), nan_t, entry, how))
    # division producing 0/0 at one slice (Corr / Corr is specified to drop NaN slices)
    for pa in patterns(T):
        for z in [t for t in range(T) if pa[t]]:
            zero = pe.Obs([np.zeros(8)], ['A|r1'])
            A = mkcorr(pe, 'ZA', pa, vals_for(T))
            Bc = [mkobs(pe, ('ZB', t), 0.7) if pa[t] else None for t in range(T)]
            Ac = list(A.content)
            Ac[z] = np.array([zero])
            Bc[z] = zero
            A2, B2 = pe.Corr([a if a is None else a[0] for a in Ac]), pe.Corr(Bc)
            sub = dict(case, div00=z, pa=list(pa))
            call_checked(pe, acc, 'corr/corr:nan', sub, 'Corr / Corr with 0/0 at slice %d, pattern %s' % (z, pa), operator.truediv, [A2, B2],
                         lambda: slicewise(pe, A2, B2, operator.truediv, T), T, 1, key=('d00', T, tuple(pa), z))
    acc.sample({'kind': 'func', 'T': T, 'functions': FUNCS, 'nan_values': FDOM})


def run_complex(pe, acc, case):
    """Complex content: + - * with Corr / Obs / CObs / number partners where the correlator or a real quantity is the
    left operand; / by real Obs and numbers."""
    T = case['T']
    C0 = mkcorr(pe, 'CC', [1] * T, vals_for(T), 1, cplx=True)
    R0 = mkcorr(pe, 'CR', [1] * T, vals_for(T, 0.9, 0.1), 1)
    D0 = mkcorr(pe, 'CD', [1] * T, vals_for(T, 0.6, 0.2), 1, cplx=True)
    partners = {'Obs': mkobs(pe, 'co', 0.7), 'CObs': pe.CObs(mkobs(pe, 'ccr', 0.7), mkobs(pe, 'cci', -0.4)), 'int': 2, 'float': 0.5, 'complex': 1 + 2j}
    for pa in patterns(T):
        C = pe.Corr([C0.content[t][0] if pa[t] else None for t in range(T)])
        for pb in patterns(T):
            R = pe.Corr([R0.content[t][0] if pb[t] else None for t in range(T)])
            D = pe.Corr([D0.content[t][0] if pb[t] else None for t in range(T)])
            for op in ('+', '-', '*'):
                f = OPS[op]
                for nm, X, Y in (('complexCorr%scomplexCorr' % op, C, D), ('complexCorr%srealCorr' % op, C, R), ('realCorr%scomplexCorr' % op, R, C)):
                    sub = dict(case, pa=list(pa), pb=list(pb), what=nm)
                    call_checked(pe, acc, 'complex:' + nm, sub, '%s patterns %s %s' % (nm, pa, pb), f, [X, Y], lambda: slicewise(pe, X, Y, f, T), T, 1,
                                 key=('cx', T, tuple(pa), tuple(pb), nm))
        for pn, P in partners.items():
            for op in ('+', '-', '*'):
                f = OPS[op]
                sub = dict(case, pa=list(pa), partner=pn, op=op, side='right')
                call_checked(pe, acc, 'complex:corr%s%s' % (op, pn), sub, 'complex Corr %s %s, pattern %s' % (op, pn, pa), f, [C, P], lambda: slicewise(pe, C, P, f, T), T, 1,
                             key=('cxp', T, tuple(pa), pn, op))
                if pn in ('Obs', 'int', 'float'):     # a real quantity as left operand
                    sub = dict(case, pa=list(pa), partner=pn, op=op, side='left')
                    call_checked(pe, acc, 'complex:%s%scorr' % (pn, op), sub, '%s %s complex Corr, pattern %s' % (pn, op, pa), f, [P, C], lambda: slicewise(pe, P, C, f, T), T, 1,
                                 key=('cxl', T, tuple(pa), pn, op))
            if pn in ('Obs', 'int', 'float'):
                sub = dict(case, pa=list(pa), partner=pn, op='/', side='right')
                call_checked(pe, acc, 'complex:corr/%s' % pn, sub, 'complex Corr / %s, pattern %s' % (pn, pa), operator.truediv, [C, P],
                             lambda: slicewise(pe, C, P, operator.truediv, T), T, 1, key=('cxd', T, tuple(pa), pn))
        # CObs on the left of a REAL correlator (real content, all orders are demanded)
    acc.sample({'kind': 'complex', 'T': T, 'partners': list(partners)})


def run_maps(pe, acc, case):
    T = case['T']
    if case.get('sparse'):
        pats = [tuple(0 if t in holes else 1 for t in range(T)) for k in (0, 1, 2) for holes in itertools.combinations(range(T), k)]
    else:
        pats = patterns(T)
    C0 = mkcorr(pe, 'M', [1] * T, vals_for(T))
    P0 = mkcorr(pe, 'MP', [1] * T, vals_for(T, 1.4, 0.31))
    for pa in pats:
        if 'pa' in case and case['pa'] != list(pa):
            continue
        C = pe.Corr([C0.content[t][0] if pa[t] else None for t in range(T)])
        c = C.content
        sub0 = dict(case, pa=list(pa))
        for dt in range(-2 * T - 1, 2 * T + 2):
            call_checked(pe, acc, 'roll', dict(sub0, dt=dt), 'roll(%d), pattern %s' % (dt, pa), lambda x, d: x.roll(d), [C, dt],
                         lambda: [c[(t - dt) % T] for t in range(T)], T, 1, key=('roll', T, pa, dt))
        call_checked(pe, acc, 'reverse', sub0, 'reverse(), pattern %s' % (pa,), lambda x: x.reverse(), [C], lambda: [c[T - 1 - t] for t in range(T)], T, 1, key=('rev', T, pa))
        for sp in (1, 2, 3, 4):
            for off in (0, 1, 2, 3):
                call_checked(pe, acc, 'thin', dict(sub0, spacing=sp, offset=off), 'thin(%d,%d), pattern %s' % (sp, off, pa), lambda x, s, o: x.thin(s, o), [C, sp, off],
                             lambda: [c[t] if (off + t) % sp == 0 else None for t in range(T)], T, 1, key=('thin', T, pa, sp, off))
        if T % 2 == 0:
            for nm, sg in (('symmetric', 1.0), ('anti_symmetric', -1.0)):
                def exp(sg=sg):
                    out = [c[0]]
                    for t in range(1, T):
                        out.append(None if (c[t] is None or c[T - t] is None) else 0.5 * (c[t] + sg * c[T - t]))
                    return out
                call_checked(pe, acc, nm, sub0, '%s(), pattern %s' % (nm, pa), lambda x, nm=nm: getattr(x, nm)(), [C], exp, T, 1, key=(nm, T, pa))
        else:
            for nm in ('symmetric', 'anti_symmetric'):
                try:
                    getattr(C, nm)()
                    acc.fail(nm + ':odd-T-accepted', sub0, '%s accepted odd T' % nm)
                except ValueError:
                    acc.ok((nm, 'odd', T, pa), True, 'odd-T-refused')
        for pb in (pats if T <= 4 else [tuple([1] * T), pa]):
            P = pe.Corr([P0.content[t][0] if pb[t] else None for t in range(T)])
            for parity in (1, -1):
                call_checked(pe, acc, 'T_symmetry', dict(sub0, pb=list(pb), parity=parity), 'T_symmetry(partner %s, parity %d), pattern %s' % (pb, parity, pa),
                             lambda x, p, par: x.T_symmetry(p, par), [C, P, parity],
                             lambda: [None if (c[t] is None or P.content[T - 1 - t] is None) else 0.5 * (c[t] + parity * P.content[T - 1 - t]) for t in range(T)], T, 1,
                             key=('tsym', T, pa, pb, parity))
        for Nh in (1, 2, 3):
            for periodic in (False, True):
                def exp(Nh=Nh, periodic=periodic):
                    out = []
                    for t in range(T):
                        m = np.empty((Nh, Nh), dtype=object)
                        ok = True
                        for i in range(Nh):
                            for j in range(Nh):
                                idx = t + i + j
                                if periodic:
                                    idx = idx % T
                                elif idx >= T:
                                    ok = False
                                    break
                                if c[idx] is None:
                                    ok = False
                                    break
                                m[i, j] = c[idx][0]
                            if not ok:
                                break
                        out.append(m if ok else None)
                    return out
                call_checked(pe, acc, 'Hankel:N=%d:%s' % (Nh, 'periodic' if periodic else 'open') + ('' if all(pa) else ':undefined-slices'), dict(sub0, Nh=Nh, periodic=periodic),
                             'Hankel(%d, periodic=%s), pattern %s' % (Nh, periodic, pa), lambda x, n, p: x.Hankel(n, periodic=p), [C, Nh, periodic], exp, T, Nh, key=('hank', T, pa, Nh, periodic))
        # printing with a range: the argument list must not be modified, repeated calls agree
        for pr in ([0, None], [1, 2], [0, T - 1], [1, None]):
            arg = list(pr)
            before = list(arg)
            s1 = C.__repr__(arg)
            after1 = list(arg)
            s2 = C.__repr__(arg)
            if after1 != before:
                acc.fail('repr:mutates-argument', dict(sub0, print_range=pr), '__repr__(print_range=%s) changed its argument to %s' % (before, after1))
            elif s1 != s2:
                acc.fail('repr:second-call-differs', dict(sub0, print_range=pr), 'repeated __repr__ with the same range object differ')
            else:
                lines = s1.split('------------------\n')[1].splitlines()
                lo, hi = pr[0], (T - 1 if pr[1] is None else min(pr[1], T - 1))
                if len(lines) != hi - lo + 1 or [ln.split('\t')[0] for ln in lines] != [str(t) for t in range(lo, hi + 1)]:
                    acc.fail('repr:range', dict(sub0, print_range=pr), '__repr__(print_range=%s) prints timeslices %s' % (pr, [ln.split(chr(9))[0] for ln in lines]))
                else:
                    acc.ok(('repr', T, pa, tuple(pr)), True, 'repr')
    acc.sample({'kind': 'maps', 'T': T, 'patterns': len(pats), 'maps': 'roll reverse thin symmetric anti_symmetric T_symmetry Hankel repr'})


def run_matrix_maps(pe, acc, case):
    T = case['T']
    N = 2
    M0 = mkcorr(pe, 'MM', [1] * T, vals_for(T), N)
    for pa in patterns(T):
        M = pe.Corr([M0.content[t] if pa[t] else None for t in range(T)])
        c = M.content
        sub0 = dict(case, pa=list(pa))
        for i in range(N):
            for j in range(N):
                call_checked(pe, acc, 'item', dict(sub0, i=i, j=j), 'item(%d,%d), pattern %s' % (i, j, pa), lambda x, a, b: x.item(a, b), [M, i, j],
                             lambda: [None if c[t] is None else c[t][i, j] for t in range(T)], T, 1, key=('item', T, pa, i, j))
        call_checked(pe, acc, 'trace', sub0, 'trace(), pattern %s' % (pa,), lambda x: x.trace(), [M], lambda: [None if c[t] is None else np.trace(c[t]) for t in range(T)], T, 1, key=('tr', T, pa))
        call_checked(pe, acc, 'matrix_symmetric', sub0, 'matrix_symmetric(), pattern %s' % (pa,), lambda x: x.matrix_symmetric(), [M],
                     lambda: [None if c[t] is None else 0.5 * (c[t] + c[t].T) for t in range(T)], T, N, key=('ms', T, pa))
        # transposed entries with exactly EQUAL central values but different fluctuations: still not a symmetric matrix of observables
        Q = []
        for t in range(T):
            if c[t] is None:
                Q.append(None)
                continue
            q = c[t].copy()
            q[1, 0] = q[1, 0] + (q[0, 1].value - q[1, 0].value)
            if q[1, 0].value != q[0, 1].value:
                q[1, 0] = q[1, 0] + (q[0, 1].value - q[1, 0].value)
            Q.append(q)
        if all(x is None or x[1, 0].value == x[0, 1].value for x in Q):
            MQ = pe.Corr(Q)
            call_checked(pe, acc, 'matrix_symmetric:equal-means', sub0, 'matrix_symmetric() of a matrix whose transposed entries have equal means, pattern %s' % (pa,), lambda x: x.matrix_symmetric(), [MQ],
                         lambda: [None if Q[t] is None else 0.5 * (Q[t] + Q[t].T) for t in range(T)], T, N, key=('msq', T, pa))
        # the same matrix at another magnitude (1e-13, 1e9): symmetrisation does not depend on the units
        for msc in (1e-13, 1e9):
            cs = [None if c[t] is None else c[t] * msc for t in range(T)]
            Ms = pe.Corr(cs)
            call_checked(pe, acc, 'matrix_symmetric:scaled', dict(sub0, scale=msc), 'matrix_symmetric() of a matrix of magnitude %g, pattern %s' % (msc, pa), lambda x: x.matrix_symmetric(), [Ms],
                         lambda cs=cs: [None if cs[t] is None else 0.5 * (cs[t] + cs[t].T) for t in range(T)], T, N, key=('mss', T, pa, msc))
        vl, vr = np.array([1.0, 2.0]), np.array([-0.5, 1.5])
        for normalize in (False, True):
            nl = vl / np.sqrt(vl @ vl) if normalize else vl
            nr = vr / np.sqrt(vr @ vr) if normalize else vr
            call_checked(pe, acc, 'projected:array', dict(sub0, normalize=normalize), 'projected(vl, vr, normalize=%s), pattern %s' % (normalize, pa),
                         lambda x, a, b, n: x.projected(a, b, normalize=n), [M, vl, vr, normalize],
                         lambda: [None if c[t] is None else nl @ c[t] @ nr for t in range(T)], T, 1, key=('proj', T, pa, normalize))
            call_checked(pe, acc, 'projected:default', dict(sub0, normalize=normalize), 'projected() default vector, pattern %s' % (pa,),
                         lambda x, n: x.projected(normalize=n), [M, normalize], lambda: [None if c[t] is None else c[t][0, 0] for t in range(T)], T, 1, key=('proj0', T, pa, normalize))
            # two DIFFERENT lists of per-timeslice vectors (left / right), a list on one side and a single vector on the other
            ll = [np.array([1.0 + 0.1 * t, 2.0 - 0.2 * t]) for t in range(T)]
            rl = [np.array([-0.5 + 0.3 * t, 1.5 + 0.1 * t]) for t in range(T)]
            nrm = (lambda v: v / np.sqrt(v @ v)) if normalize else (lambda v: v)
            for nm2, a2, b2 in (('list-list', ll, rl), ('list-vector', ll, vr), ('vector-list', vl, rl)):
                call_checked(pe, acc, 'projected:%s%s' % (nm2, ':normalize' if normalize else ''), dict(sub0, normalize=normalize, form=nm2),
                             'projected(%s, normalize=%s), pattern %s' % (nm2, normalize, pa), lambda x, a, b, n: x.projected(a, b, normalize=n), [M, a2, b2, normalize],
                             lambda a2=a2, b2=b2: [None if c[t] is None else nrm(a2[t] if isinstance(a2, list) else a2) @ c[t] @ nrm(b2[t] if isinstance(b2, list) else b2) for t in range(T)],
                             T, 1, key=('proj2', T, pa, normalize, nm2))
            # per-timeslice vectors (lists), with an undefined vector at one slice
            for vnone in [None] + list(range(T)):
                vlist = [None if t == vnone else np.array([1.0 + 0.1 * t, 2.0 - 0.2 * t]) for t in range(T)]

                def exp(vlist=vlist, normalize=normalize):
                    out = []
                    for t in range(T):
                        if c[t] is None or vlist[t] is None:
                            out.append(None)
                        else:
                            v = vlist[t] / np.sqrt(vlist[t] @ vlist[t]) if normalize else vlist[t]
                            out.append(v @ c[t] @ v)
                    return out
                call_checked(pe, acc, 'projected:list%s' % (':normalize' if normalize else ''), dict(sub0, normalize=normalize, vnone=vnone),
                             'projected(list of vectors, normalize=%s), pattern %s, undefined vector at %s' % (normalize, pa, vnone),
                             lambda x, v, n: x.projected(v, normalize=n), [M, vlist, normalize], exp, T, 1, key=('projl', T, pa, normalize, vnone))
    acc.sample({'kind': 'matrix-maps', 'T': T, 'N': N, 'maps': 'item trace matrix_symmetric projected'})


def run_partial(pe, acc, case):
    """Matrix-valued timeslices in which only some entries are missing count as undefined timeslices."""
    T, N = 3, 2
    A0 = mkcorr(pe, 'PM', [1] * T, vals_for(T), N)
    B = mkcorr(pe, 'PB', [1] * T, vals_for(T, 0.8, -0.05), N)
    kinds = ['full', 'none', 'one-missing', 'three-missing', 'row-missing']

    def slice_of(kind, t):
        if kind == 'full':
            return A0.content[t]
        if kind == 'none':
            return None
        m = A0.content[t].copy()
        if kind == 'one-missing':
            m[0, 1] = None
        elif kind == 'three-missing':
            m[0, 1] = m[1, 0] = m[1, 1] = None
        elif kind == 'row-missing':
            m[1, 0] = m[1, 1] = None
        return m
    for ks in itertools.product(kinds, repeat=T):
        if all(k != 'full' for k in ks):
            continue
        A = pe.Corr([slice_of(k, t) for t, k in enumerate(ks)])
        defined = [k == 'full' for k in ks]
        for op in ('+', '-', '*', '/', '@'):
            f = OPS.get(op, operator.matmul)
            sub = dict(case, ks=list(ks), op=op)
            call_checked(pe, acc, 'partial-matrix:corr%scorr' % op, sub, 'Corr %s Corr with partially missing matrices %s' % (op, ks), f, [A, B],
                         lambda: [f(A0.content[t], B.content[t]) if defined[t] else None for t in range(T)], T, N, key=('pm', ks, op))
        for un, f in (('neg', operator.neg), ('*2', lambda c: c * 2), ('trace', None)):
            sub = dict(case, ks=list(ks), op=un)
            if un == 'trace':
                call_checked(pe, acc, 'partial-matrix:trace', sub, 'trace with partially missing matrices %s' % (ks,), lambda c: c.trace(), [A],
                             lambda: [np.trace(A0.content[t]) if defined[t] else None for t in range(T)], T, 1, key=('pm', ks, un))
            else:
                call_checked(pe, acc, 'partial-matrix:' + un, sub, '%s with partially missing matrices %s' % (un, ks), f, [A],
                             lambda: [f(A0.content[t]) if defined[t] else None for t in range(T)], T, N, key=('pm', ks, un))
    acc.sample({'kind': 'partial-matrix', 'slice_kinds': kinds})


# ------------------------------------------------------------------ chains of operations (depth-bounded, exhaustive)
# A correlator reached by one operation is fed into the next: every sequence of <= depth operations from a small
# alphabet, started from several initial correlators, is executed on the real Corr objects and on a plain list model
# (one entry per timeslice: None or an object array).  After every step the Corr must equal the model, and the
# operand of the step must be untouched.  This reaches states no single call reaches (results of Hankel fed to item /
# trace / matmul, thinned and rolled correlators being symmetrised, NaN slices created by log after a sign change...).
def _mat(pe, f):
    """slice-wise model helper: apply f to a defined slice, None stays None, NaN result -> None"""
    def g(c):
        out = []
        for e in c:
            if e is None:
                out.append(None)
                continue
            with warnings.catch_warnings():
                warnings.simplefilter('ignore')
                r = f(e)
            out.append(None if entry_isnan(r, pe) else r)
        return out
    return g


def _pair(pe, f, other):
    def g(c):
        out = []
        for t, e in enumerate(c):
            o = other[t]
            if e is None or o is None:
                out.append(None)
                continue
            with warnings.catch_warnings():
                warnings.simplefilter('ignore')
                r = f(e, o)
            out.append(None if entry_isnan(r, pe) else r)
        return out
    return g


def _matmul_model(a, b):
    n = a.shape[0]
    out = np.empty((n, n), dtype=object)
    for i in range(n):
        for j in range(n):
            s = a[i, 0] * b[0, j]
            for k in range(1, n):
                s = s + a[i, k] * b[k, j]
            out[i, j] = s
    return out


def _hankel_model(c, T, Nh, periodic):
    out = []
    for t in range(T):
        m = np.empty((Nh, Nh), dtype=object)
        ok = True
        for i in range(Nh):
            for j in range(Nh):
                idx = t + i + j
                if periodic:
                    idx %= T
                elif idx >= T:
                    ok = False
                    break
                if c[idx] is None:
                    ok = False
                    break
                m[i, j] = c[idx][0]
            if not ok:
                break
        out.append(m if ok else None)
    return out


def _sym_model(c, T, sg):
    out = [c[0]]
    for t in range(1, T):
        out.append(None if (c[t] is None or c[T - t] is None) else 0.5 * (c[t] + sg * c[T - t]))
    return out


def chain_alphabet(pe, T):
    """name -> (N it applies to, implementation step, model step, N of the result, partner objects)."""
    K = mkcorr(pe, ('chK', T), [1] * T, vals_for(T, 0.7, 0.1))
    Bh = mkcorr(pe, ('chB', T), [0 if t == 2 else 1 for t in range(T)], vals_for(T, 1.1, -0.07))
    M2 = mkcorr(pe, ('chM', T), [0 if t == 1 else 1 for t in range(T)], vals_for(T, 0.9, 0.05), 2)
    o = mkobs(pe, ('chO', T), 1.7)
    v = np.array([1.0, -0.5])
    vn = v / np.sqrt(v @ v)
    A = {}
    for N in (1, 2):
        for dt in (1, -2):
            A['roll%d@%d' % (dt, N)] = (N, lambda C, dt=dt: C.roll(dt), lambda c, dt=dt: [c[(t - dt) % T] for t in range(T)], N, [])
        A['reverse@%d' % N] = (N, lambda C: C.reverse(), lambda c: [c[T - 1 - t] for t in range(T)], N, [])
        for sp, off in ((2, 0), (2, 1), (3, 1)):
            A['thin%d%d@%d' % (sp, off, N)] = (N, lambda C, sp=sp, off=off: C.thin(sp, off),
                                               lambda c, sp=sp, off=off: [c[t] if (off + t) % sp == 0 else None for t in range(T)], N, [])
        A['neg@%d' % N] = (N, lambda C: -C, _mat(pe, lambda e: -1 * e), N, [])
        A['*obs@%d' % N] = (N, lambda C: C * o, _mat(pe, lambda e: e * o), N, [o])
        A['obs-@%d' % N] = (N, lambda C: o - C, _mat(pe, lambda e: o - e), N, [o])
        A['2.5/@%d' % N] = (N, lambda C: C / 2.5, _mat(pe, lambda e: e / 2.5), N, [])
    A['+K@1'] = (1, lambda C: C + K, _pair(pe, lambda e, k: e + k, K.content), 1, [K])
    A['K-@1'] = (1, lambda C: K - C, _pair(pe, lambda e, k: k - e, K.content), 1, [K])
    A['*Bh@1'] = (1, lambda C: C * Bh, _pair(pe, lambda e, k: e * k, Bh.content), 1, [Bh])
    A['/Bh@1'] = (1, lambda C: C / Bh, _pair(pe, lambda e, k: e / k, Bh.content), 1, [Bh])
    A['**2@1'] = (1, lambda C: C ** 2, _mat(pe, lambda e: e ** 2), 1, [])
    A['exp@1'] = (1, lambda C: np.exp(C), _mat(pe, lambda e: np.exp(e)), 1, [])
    A['log@1'] = (1, lambda C: C.log(), _mat(pe, lambda e: np.log(e)), 1, [])
    A['abs@1'] = (1, lambda C: abs(C), _mat(pe, lambda e: np.abs(e)), 1, [])
    if T % 2 == 0:
        A['symmetric@1'] = (1, lambda C: C.symmetric(), lambda c: _sym_model(c, T, 1.0), 1, [])
        A['anti_symmetric@1'] = (1, lambda C: C.anti_symmetric(), lambda c: _sym_model(c, T, -1.0), 1, [])
    A['T_symmetry@1'] = (1, lambda C: C.T_symmetry(K, -1), lambda c: [None if c[t] is None else 0.5 * (c[t] - K.content[T - 1 - t]) for t in range(T)], 1, [K])
    A['Hankel2@1'] = (1, lambda C: C.Hankel(2), lambda c: _hankel_model(c, T, 2, False), 2, [])
    A['Hankel2p@1'] = (1, lambda C: C.Hankel(2, periodic=True), lambda c: _hankel_model(c, T, 2, True), 2, [])
    A['+M2@2'] = (2, lambda C: C + M2, _pair(pe, lambda e, k: e + k, M2.content), 2, [M2])
    A['@M2@2'] = (2, lambda C: C @ M2, _pair(pe, _matmul_model, M2.content), 2, [M2])
    A['M2@@2'] = (2, lambda C: M2 @ C, _pair(pe, lambda e, k: _matmul_model(k, e), M2.content), 2, [M2])
    A['item01@2'] = (2, lambda C: C.item(0, 1), lambda c: [None if e is None else np.array([e[0, 1]], dtype=object) for e in c], 1, [])
    A['item10@2'] = (2, lambda C: C.item(1, 0), lambda c: [None if e is None else np.array([e[1, 0]], dtype=object) for e in c], 1, [])
    A['trace@2'] = (2, lambda C: C.trace(), lambda c: [None if e is None else np.array([e[0, 0] + e[1, 1]], dtype=object) for e in c], 1, [])
    A['matrix_symmetric@2'] = (2, lambda C: C.matrix_symmetric(), lambda c: [None if e is None else 0.5 * (e + e.T) for e in c], 2, [])
    A['projected@2'] = (2, lambda C: C.projected(v), lambda c: [None if e is None else np.array([v @ e @ v], dtype=object) for e in c], 1, [v])
    A['projected-n@2'] = (2, lambda C: C.projected(v, normalize=True), lambda c: [None if e is None else np.array([vn @ e @ vn], dtype=object) for e in c], 1, [v])
    return A


CHAIN_INIT = {
    't4': (4, [1, 1, 1, 1]), 't4h1': (4, [1, 0, 1, 1]), 't5': (5, [1, 1, 1, 1, 1]), 't5h03': (5, [0, 1, 1, 0, 1]),
    't6': (6, [1, 1, 1, 1, 1, 1]), 't6h2': (6, [1, 1, 0, 1, 1, 1]), 't6h45': (6, [1, 1, 1, 1, 0, 0]), 't8h3': (8, [1, 1, 1, 0, 1, 1, 1, 1]),
}


def _finite_model(c, pe):
    for e in c:
        if e is None:
            continue
        for x in np.asarray(e, dtype=object).ravel():
            if not np.isfinite(x.value) or any(not np.all(np.isfinite(d)) for d in x.deltas.values()):
                return False
    return True


def run_chain(pe, acc, case):
    T, pat = CHAIN_INIT[case['init']]
    depth = case['depth']
    A = chain_alphabet(pe, T)
    names = sorted(A)
    vals = vals_for(T, 1.5, 0.3)
    vals[T // 2] = -0.6            # one negative entry: log makes a NaN slice there
    C0 = mkcorr(pe, ('chain', case['init']), pat, vals)
    only = case.get('path')
    stats = {'nodes': 0}

    def step(C, c, N, path):
        if len(path) >= depth:
            return
        for nm in names:
            n_in, f, g, n_out, partners = A[nm]
            if n_in != N:
                continue
            if len(path) == 0 and 'first' in case and nm != case['first']:
                continue
            if only is not None and only[len(path)] != nm:
                continue
            newpath = path + [nm]
            sub = {'kind': 'chain', 'init': case['init'], 'depth': len(newpath), 'path': newpath}
            try:
                exp = g(c)
            except Exception as e:
                raise engine.MachineryError('chain model %s failed: %r' % (newpath, e))
            if not _finite_model(exp, pe):
                acc.skip('chain-nonfinite-intermediate')     # division by an exact zero etc.: not followed
                continue
            args = [C] + partners
            before = [snapshot(a, pe) for a in args]
            stats['nodes'] += 1
            try:
                with warnings.catch_warnings():
                    warnings.simplefilter('ignore')
                    R = f(C)
            except Exception as e:
                if all(x is None for x in exp):
                    acc.ok(('chain', case['init'], tuple(newpath)), False, 'chain:all-undefined-refused')
                else:
                    acc.fail('chain:%s:raised' % nm.split('@')[0], sub, 'after %s, %s raised %s: %s' % (path, nm, type(e).__name__, e))
                continue
            after = [snapshot(a, pe) for a in args]
            if after != before:
                acc.fail('chain:%s:mutates-argument' % nm.split('@')[0], sub, 'after %s, %s modified its operand/argument' % (path, nm))
                continue
            if all(x is None for x in exp):
                acc.ok(('chain', case['init'], tuple(newpath)), False, 'chain:all-undefined')
                continue
            bad = compare_corr(pe, R, T, n_out, exp, rtol=1e-10)
            if bad:
                acc.fail('chain:%s' % nm.split('@')[0], sub, 'sequence %s from %s%s: %s' % (newpath, case['init'], pat, bad))
                continue
            acc.ok(('chain', case['init'], tuple(newpath)), True, 'chain-depth%d' % len(newpath))
            step(R, exp, n_out, newpath)
    step(C0, list(C0.content), 1, [])
    acc.count('chain-nodes', stats['nodes'])
    acc.sample({'kind': 'chain', 'init': case['init'], 'pattern': pat, 'depth': depth, 'first': case.get('first'), 'alphabet': names})
