"""C13 Jackknife and bootstrap export/import are exact resampling transforms.

E-PROD: every chain length in the bound x configuration-list kind x data shape (jackknife);
bootstrap: lengths 5..12 x sample counts x resampling tables (all 126 multisets for n=5 with one
sample - exhaustive -, structured families, name-seeded default).  Oracle: explicit loops."""
import os
import sys
import math
import json
import itertools
import subprocess
import numpy as np
from mc import engine, alpha
from mc.engine import Acc

LEVEL = 'exploration'
RULE = ('full product: chain length 5..60 (quick) / 5..500 (thorough) x configuration list {contiguous, shifted, strided, '
        'irregular} x data {white, AR(1), alternating, count-like with zeros, constant}: leave-one-out means by explicit loops, '
        'entry 0, import restores value / fluctuations / configuration list, jackknife variance = squared S=0 error = '
        'var/n from the samples.  Bootstrap: lengths 5..12 x sample counts {1, n-1, n, n+3, 50} x tables {all 126 multisets of '
        'size 5 (n=5, one sample; exhaustive), constant rows, cyclic shifts, identity-like, seeded default}: rows = means '
        'over the listed configurations; reproducible (also across interpreter hash seeds and across a sequence of exports of equally named chains of different length), seeded by the md5 hash of the chain name, chain-consistent, import restores '
        'the samples when the table has full column rank, fewer samples than configurations and multi-chain observables are '
        'refused.  Non-trivial = everything except constant data')
ASSUMPTIONS = ['import after export is compared to rtol 1e-12 (jackknife) / 1e-9 x condition number (bootstrap least squares)']
EXHAUSTIVE = True
REPEAT = 2      # every case is evaluated twice in the same process: the second verdict must equal the first (call-history oracle)
CHUNK = 4
DATA = ['white', 'ar1', 'alt', 'count', 'const', 'precise', 'tiny', 'tinyzero', 'huge', 'bigmean']      # precise: relative fluctuations of a few 1e-4 (nearly, but not, constant samples)

SCALED = {'tiny': (1e-9, 1e-13), 'tinyzero': (0.0, 1e-13), 'huge': (3e9, 1e9), 'bigmean': (1e6, 1e-3)}


def idl_for(kind, n):
    if kind == 'contiguous':
        return list(range(1, n + 1))
    if kind == 'shifted':
        return list(range(1001, 1001 + n))
    if kind == 'strided':
        return list(range(3, 3 + 4 * n, 4))
    if kind == 'irregular':
        out, c = [], 1
        for i in range(n):
            out.append(c)
            c += 1 + (i % 3 == 1) + 2 * (i % 7 == 5)
        return out
    raise ValueError(kind)


IDL_KINDS = ['contiguous', 'shifted', 'strided', 'irregular']


def build(tier, seed):
    nmax = 60 if tier == 'quick' else 500
    cases = [{'kind': 'jack', 'n': n} for n in range(5, nmax + 1)]
    for n in range(5, 13):
        cases.append({'kind': 'boot', 'n': n})
    # call history: chains of very different lengths exported / imported one after the other in one process (every order of 4 lengths)
    cases.append({'kind': 'length-sequence'})
    cases.append({'kind': 'boot-multisets'})
    cases.append({'kind': 'boot-seeding'})
    cases.append({'kind': 'refusals'})
    return cases


def mk(pe, n, ik, d, key, name='A|r1'):
    cfgs = idl_for(ik, n)
    if d == 'precise':
        x = 0.5937 + 2e-4 * alpha.rng('c13', key, n, ik, d).normal(size=len(cfgs))
    elif d in SCALED:
        # other magnitudes: 1e-9 +- 1e-13, 0 +- 1e-13, 3e9 +- 1e9, 1e6 +- 1e-3
        m, sg = SCALED[d]
        x = m + sg * alpha.rng('c13', key, n, ik, d).normal(size=len(cfgs))
    else:
        x = alpha.data(d, cfgs, alpha.rng('c13', key, n, ik, d), 1.0 if d != 'count' else 0.0, 0.3)
    return pe.Obs([x], [name], idl=[alpha.idl_carrier(cfgs)]), np.asarray(x, dtype=float), cfgs


def run_case(case):
    pe = engine.import_pyerrors()
    acc = Acc()
    k = case['kind']
    if k == 'length-sequence':
        lens = [200, 60, 7, 23]
        objs = {n: mk(pe, n, 'irregular' if n % 2 else 'strided', 'ar1', 'seq') for n in lens}
        for order in itertools.permutations(lens):
            bad = None
            for n in order:
                o, x, cfgs = objs[n]
                try:
                    j = o.export_jackknife()
                    back = pe.import_jackknife(j, 'A|r1', idl=[o.idl['A|r1']])
                    sc = np.max(np.abs(x))
                    if back.value != o.value or list(back.idl['A|r1']) != cfgs or not np.all(np.abs(back.deltas['A|r1'] - o.deltas['A|r1']) <= 1e-11 * sc):
                        bad = 'jackknife round trip of the chain of length %d' % n
                    rn = np.array([[(3 * i + 7 * s_) % n for i in range(n)] for s_ in range(n)] + [[(i * i + s_) % n for i in range(n)] for s_ in range(n + 2)])
                    b = o.export_bootstrap(len(rn), random_numbers=rn)
                    expb = np.array([o.value] + [np.mean(x[row]) for row in rn])
                    if not np.all(np.abs(b - expb) <= 1e-12 * sc):
                        bad = bad or 'bootstrap export of the chain of length %d' % n
                    b1, b2 = o.export_bootstrap(40), o.export_bootstrap(40)
                    if not np.array_equal(b1, b2):
                        bad = bad or 'default-seeded bootstrap export of the chain of length %d is not reproducible' % n
                except Exception as e:
                    bad = 'length %d raised %s: %s' % (n, type(e).__name__, e)
                if bad:
                    acc.fail('resampling:length-sequence', dict(case, order=list(order), n=n), 'chains of lengths %s handled in this order: %s' % (list(order), bad))
                    break
            else:
                acc.ok(('lenseq', order), True, 'length-sequence')
        acc.sample(dict(case, lengths=lens, orders='all 24'))
    elif k == 'jack':
        n = case['n']
        for ik in IDL_KINDS:
            for d in DATA:
                if 'ik' in case and (case['ik'], case['d']) != (ik, d):
                    continue
                sub = dict(case, ik=ik, d=d)
                o, x, cfgs = mk(pe, n, ik, d, 'j')
                j = o.export_jackknife()
                tot = math.fsum(x)
                exp = np.array([tot / n] + [(tot - xi) / (n - 1) for xi in x])
                sc = max(np.max(np.abs(x)), 1e-300)
                if j.shape != (n + 1,) or not np.all(np.abs(j - exp) <= 1e-13 * sc):
                    acc.fail('jackknife:export', sub, 'n=%d %s %s: jackknife samples differ from leave-one-out means by %g' % (n, ik, d, np.max(np.abs(j - exp))))
                    continue
                if j[0] != o.value:
                    acc.fail('jackknife:entry0', sub, 'entry 0 %r != value %r' % (j[0], o.value))
                    continue
                # the exported array belongs to the caller: changing it in place has no effect on later exports
                jc = o.export_jackknife()
                jc *= 2.0
                jc[1] = -7.0
                if not np.array_equal(o.export_jackknife(), j):
                    acc.fail('jackknife:export-aliased', sub, 'n=%d %s %s: after the caller changed an exported array in place, a new export differs from the first one' % (n, ik, d))
                    continue
                back = pe.import_jackknife(j, 'A|r1', idl=[o.idl['A|r1']])
                bad = None
                if back.value != o.value:
                    bad = 'value %r != %r' % (back.value, o.value)
                elif list(back.idl['A|r1']) != cfgs or type(back.idl['A|r1']) is not type(o.idl['A|r1']):
                    bad = 'configuration list %r != %r' % (back.idl['A|r1'], o.idl['A|r1'])
                elif not np.all(np.abs(back.deltas['A|r1'] - o.deltas['A|r1']) <= 1e-11 * sc) or back.names != o.names or back.N != n:
                    bad = 'fluctuations differ by %g' % np.max(np.abs(back.deltas['A|r1'] - o.deltas['A|r1']))
                elif abs(back.r_values['A|r1'] - o.r_values['A|r1']) > 1e-12 * sc:
                    bad = 'replica mean %r != %r' % (back.r_values['A|r1'], o.r_values['A|r1'])
                if bad:
                    acc.fail('jackknife:import', sub, 'n=%d %s %s: %s' % (n, ik, d, bad))
                    continue
                # the configuration list handed to the import stays the caller's: changing it afterwards does not touch the observable
                mine = list(cfgs)
                back3 = pe.import_jackknife(j, 'A|r1', idl=[mine])
                mine.append(cfgs[-1] + 1000)
                mine[0] = cfgs[0] - 1 if cfgs[0] > 1 else mine[0]
                mine.extend([cfgs[-1] + 2000, cfgs[-1] + 3000])
                if list(back3.idl['A|r1']) != cfgs or back3.N != n or back3.shape['A|r1'] != n or len(back3.deltas['A|r1']) != n:
                    acc.fail('jackknife:import-idl-aliased', sub, 'n=%d %s %s: after the caller changed the list it had passed as idl, the imported observable lives on %d configurations (N=%d, %d fluctuations)' % (
                        n, ik, d, len(back3.idl['A|r1']), back3.N, len(back3.deltas['A|r1'])))
                    continue
                # without idl the default list 1..n is used
                back2 = pe.import_jackknife(j, 'A|r1')
                if list(back2.idl['A|r1']) != list(range(1, n + 1)):
                    acc.fail('jackknife:import-default-idl', sub, 'default configuration list %r' % (back2.idl['A|r1'],))
                    continue
                var_j = (n - 1) / n * math.fsum((ji - np.mean(j[1:])) ** 2 for ji in j[1:])
                o.gamma_method(S=0)
                naive = np.var(x, ddof=1) / n
                # differences of the exported samples carry the rounding of the samples themselves (relevant for a large mean with small fluctuations)
                tol = 1e-10 * max(naive, 1e-300) + 1e-28 * sc ** 2 + 1e-14 * sc * math.sqrt(naive * n)
                if abs(var_j - o.dvalue ** 2) > tol or abs(var_j - naive) > tol:
                    acc.fail('jackknife:variance', sub, 'jackknife variance %r, S=0 error^2 %r, var/n %r' % (var_j, o.dvalue ** 2, naive))
                    continue
                acc.ok(('j', n, ik, d), d != 'const', 'jackknife')
        acc.sample({'kind': 'jackknife', 'n': n, 'idl_kinds': IDL_KINDS, 'data': DATA})
    elif k == 'boot':
        n = case['n']
        for ik in ('contiguous', 'irregular'):
            for d in ('white', 'count', 'huge', 'bigmean', 'tiny'):
                o, x, cfgs = mk(pe, n, ik, d, 'b')
                for ns in (1, n - 1, n, n + 3, 50):
                    tables = {
                        'const-rows': np.array([[s % n] * n for s in range(ns)]),
                        'cyclic': np.array([[(i + s) % n for i in range(n)] for s in range(ns)]),
                        'identity-like': np.array([[i if i != s % n else (i + 1) % n for i in range(n)] for s in range(ns)]),
                        'seeded-table': alpha.rng('c13tab', n, ns).integers(0, n, size=(ns, n)),
                        'onehot+': np.array([[s % n] * (n - 1) + [(s // n + s) % n] for s in range(ns)]),
                        # "any table at all": rows with fewer / more draws than there are configurations
                        'short-rows': np.array([[(i + 2 * s) % n for i in range(max(1, n - 2))] for s in range(ns)]),
                        'long-rows': np.array([[(i * i + s) % n for i in range(n + 3)] for s in range(ns)]),
                        'single-draw': np.array([[s % n] for s in range(ns)]),
                    }
                    for tn, tab in tables.items():
                        sub = dict(case, ik=ik, d=d, ns=ns, table=tn)
                        if 'table' in case and (case['ik'], case['d'], case['ns'], case['table']) != (ik, d, ns, tn):
                            continue
                        b = o.export_bootstrap(ns, random_numbers=tab)
                        exp = np.array([o.value] + [math.fsum(x[i] for i in row) / len(row) for row in tab])
                        sc = max(np.max(np.abs(x)), 1e-300)
                        if b.shape != (ns + 1,) or not np.all(np.abs(b - exp) <= 1e-13 * sc) or b[0] != o.value:
                            acc.fail('bootstrap:export', sub, 'n=%d %s %s ns=%d table=%s: rows differ from resampled means by %g' % (n, ik, d, ns, tn, np.max(np.abs(b - exp))))
                            continue
                        # import
                        if tab.shape[1] != n:
                            acc.ok(('b-exp', n, ik, d, ns, tn), True, 'export-ok(rows of another length)')
                            continue
                        if ns < n:
                            try:
                                pe.import_bootstrap(b, 'A|r1', tab)
                                acc.fail('bootstrap:import-underdetermined-accepted', sub, 'import with %d samples for %d configurations accepted' % (ns, n))
                            except ValueError:
                                acc.ok(('b-ref', n, ik, d, ns, tn), True, 'underdetermined-refused')
                            continue
                        proj = np.vstack([np.bincount(r, minlength=n) for r in tab]) / n
                        sv = np.linalg.svd(proj, compute_uv=False)
                        if sv[-1] < 1e-6 * sv[0]:
                            acc.ok(('b-rank', n, ik, d, ns, tn), True, 'export-ok(rank-deficient table)')
                            continue
                        cond = sv[0] / sv[-1]
                        b_before, tab_before = b.copy(), tab.copy()
                        try:
                            back = pe.import_bootstrap(b, 'A|r1', tab)
                            again = pe.import_bootstrap(b, 'A|r1', tab)
                            if not np.array_equal(b, b_before) or not np.array_equal(tab, tab_before):
                                acc.fail('bootstrap:import-mutates-argument', sub, 'import_bootstrap changed the %s it was given (n=%d ns=%d table=%s)' % ('samples' if not np.array_equal(b, b_before) else 'table', n, ns, tn))
                                continue
                            if again.value != back.value or not np.array_equal(again.deltas['A|r1'], back.deltas['A|r1']):
                                acc.fail('bootstrap:import-second-call-differs', sub, 'a second import of the same samples gives another observable (n=%d ns=%d table=%s)' % (n, ns, tn))
                                continue
                        except Exception as e:
                            acc.fail('bootstrap:import-refused', sub, 'n=%d ns=%d table=%s (full column rank, condition %g): import_bootstrap raised %s: %s' % (n, ns, tn, cond, type(e).__name__, e))
                            continue
                        got = back.deltas['A|r1'] + back.r_values['A|r1']
                        if back.value != o.value or not np.all(np.abs(got - x) <= 1e-11 * cond * sc):
                            acc.fail('bootstrap:import', sub, 'n=%d ns=%d table=%s: import does not restore the samples (max diff %g, cond %g)' % (n, ns, tn, np.max(np.abs(got - x)), cond))
                            continue
                        acc.ok(('b', n, ik, d, ns, tn), True, 'bootstrap-roundtrip')
        acc.sample({'kind': 'bootstrap', 'n': n, 'samples': [1, n - 1, n, n + 3, 50], 'tables': ['const-rows', 'cyclic', 'identity-like', 'seeded-table', 'onehot+']})
    elif k == 'boot-multisets':
        n = 5
        o, x, cfgs = mk(pe, n, 'irregular', 'white', 'ms')
        cnt = 0
        for ms in itertools.combinations_with_replacement(range(n), n):
            tab = np.array([ms])
            b = o.export_bootstrap(1, random_numbers=tab)
            exp = math.fsum(x[i] for i in ms) / n
            cnt += 1
            if abs(b[1] - exp) > 1e-13 or b[0] != o.value:
                acc.fail('bootstrap:multiset', dict(case, ms=list(ms)), 'multiset %s: %r != %r' % (ms, b[1], exp))
            else:
                acc.ok(('ms', ms), True, 'bootstrap-multiset')
        if cnt != 126:
            raise engine.MachineryError('expected 126 multisets')
        acc.sample({'kind': 'boot-multisets', 'count': cnt})
    elif k == 'boot-seeding':
        for n, ns in ((7, 10), (12, 25), (30, 8)):
            for name in ('A|r1', 'ens_B', 'A|r2'):
                o, x, cfgs = mk(pe, n, 'strided', 'white', 'seed', name)
                p, y, _ = mk(pe, n, 'strided', 'ar1', 'seed2', name)
                fn = '/dev/shm/c13_rng_%d_%d.txt' % (os.getpid(), n)
                b1 = o.export_bootstrap(ns, save_rng=fn)
                tab = np.atleast_2d(np.loadtxt(fn, dtype=int))
                os.remove(fn)
                b2 = o.export_bootstrap(ns)
                sub = dict(case, n=n, ns=ns, name=name)
                if tab.shape != (ns, n) or tab.min() < 0 or tab.max() >= n:
                    acc.fail('bootstrap:default-table-shape', sub, 'default table has shape %s range %d..%d' % (tab.shape, tab.min(), tab.max()))
                    continue
                exp = np.array([o.value] + [math.fsum(x[i] for i in row) / n for row in tab])
                if not np.array_equal(b1, b2):
                    acc.fail('bootstrap:not-reproducible', sub, 'two default exports differ')
                elif not np.all(np.abs(b1 - exp) <= 1e-13 * np.max(np.abs(x))):
                    acc.fail('bootstrap:default-export', sub, 'default export differs from the means over the saved table')
                else:
                    s = o + p
                    bs = s.export_bootstrap(ns)
                    bp = p.export_bootstrap(ns)
                    if not np.all(np.abs(bs - (b1 + bp)) <= 1e-12 * max(np.max(np.abs(x)), np.max(np.abs(y)))):
                        acc.fail('bootstrap:chain-inconsistent', sub, 'boot(a)+boot(b) != boot(a+b) on chain %s' % name)
                    else:
                        acc.ok(('seed', n, ns, name), True, 'bootstrap-default')
        # documented seeding rule: the default table is drawn from numpy's default_rng seeded with the md5 hash of the
        # chain name; it depends on nothing else (not on earlier exports, not on the observable, not on the ensemble only)
        import hashlib
        seq = [('A|r1', 7, 6), ('A|r1', 12, 6), ('A|r1', 9, 6), ('A|r2', 12, 6), ('A|r1', 12, 6), ('ens_B', 9, 4), ('ens_B', 5, 4), ('A|r1', 7, 6)]
        for step, (name, n, ns) in enumerate(seq):
            o, x, _ = mk(pe, n, 'contiguous', 'white', ('seq', step), name)
            b = o.export_bootstrap(ns)
            seed = int(hashlib.md5(name.encode()).hexdigest(), 16) & 0xFFFFFFFF
            tab = np.random.default_rng(seed).integers(0, n, size=(ns, n))
            exp = np.array([o.value] + [math.fsum(x[i] for i in row) / n for row in tab])
            if b.shape != exp.shape or not np.all(np.abs(b - exp) <= 1e-13 * np.max(np.abs(x))):
                acc.fail('bootstrap:default-seeding-rule', dict(case, step=step, name=name, n=n, ns=ns),
                         'export #%d in this process (chain %s, %d configurations, %d samples) does not use the table seeded by the chain name alone' % (step, name, n, ns))
                break
            acc.ok(('seq', step), True, 'bootstrap-seeding-sequence')
        # other chain name -> (generically) another table; other interpreter hash seed -> the same table
        o, x, _ = mk(pe, 9, 'contiguous', 'white', 'xp', 'A|r1')
        mine = o.export_bootstrap(6).tolist()
        code = ("import sys, json; sys.path.insert(0, %r); sys.path.insert(0, %r)\n"
                "from mc import engine; pe = engine.import_pyerrors()\n"
                "from checks import c13\n"
                "o, x, _ = c13.mk(pe, 9, 'contiguous', 'white', 'xp', 'A|r1')\n"
                "print(json.dumps(o.export_bootstrap(6).tolist()))\n") % (engine.REPO, engine.ROOT)
        env = dict(os.environ, PYTHONHASHSEED='12345')
        out = subprocess.run([sys.executable, '-c', code], env=env, capture_output=True, text=True)
        try:
            other = json.loads(out.stdout.strip().splitlines()[-1])
        except Exception:
            raise engine.MachineryError('sub-process failed: ' + out.stderr[-500:])
        if other != mine:
            acc.fail('bootstrap:hash-seed-dependent', case, 'default bootstrap samples differ between interpreters with different PYTHONHASHSEED')
        else:
            acc.ok('xproc', True, 'bootstrap-cross-process')
        acc.sample({'kind': 'boot-seeding', 'names': ['A|r1', 'ens_B', 'A|r2']})
    elif k == 'refusals':
        o2 = pe.Obs([np.arange(6.0), np.arange(7.0)], ['A|r1', 'A|r2'])
        for nm, f in (('export_jackknife', lambda: o2.export_jackknife()), ('export_bootstrap', lambda: o2.export_bootstrap(5))):
            try:
                f()
                acc.fail('refusal:multi-chain:' + nm, case, '%s accepted a two-replica observable' % nm)
            except ValueError:
                acc.ok(('ref', nm), True, 'multi-chain-refused')
        o, x, _ = mk(pe, 6, 'contiguous', 'white', 'r')
        b = o.export_bootstrap(8, random_numbers=np.zeros((8, 6), dtype=int))
        try:
            pe.import_bootstrap(b, 'A|r1', np.zeros((7, 6), dtype=int))
            acc.fail('refusal:table-shape', case, 'import_bootstrap accepted a table with the wrong number of rows')
        except ValueError:
            acc.ok(('ref', 'shape'), True, 'table-shape-refused')
        acc.sample({'kind': 'refusals'})
    return acc
