"""C04 Every observable produced by the library is structurally well-formed.

(1) E-BFS over histories of public operations on a two-register file of real objects; the
    structural invariant WF (mc.compare.wf) is evaluated on every object produced by every
    transition; closure / exception policy per DESIGN.md section 4 C04.
(2) E-PROD rejection part: every malformed-constructor kind x every position must raise."""
import os
import io
import copy
import time
import pickle
import hashlib
import warnings
import itertools
import contextlib
import math
import numpy as np
from mc import engine, alpha, ref, compare
from mc.engine import Acc

LEVEL = 'model_checking'
ASSUMPTIONS = ['states are abstracted to structure (types, chain names, configuration lists, covariance names and dimensions, '
               'flags, analysed-or-not); numbers are dropped: WF and closure depend on structure only, and pyerrors branches on '
               'values only at ==0 / NaN tests which the data alphabet and the domain guards avoid',
               'events whose operand value is outside the function domain (or a divisor within 1e-3 of zero) are disabled and counted',
               'chain-wise clauses range over Monte-Carlo chains only (the dobs importer leaves idl[cov]=[] entries, tolerated)']

BIN = ['+', '-', '*', '/']
SCAL = [('int', 2), ('float', 0.5), ('complex', 1 + 2j), ('npfloat', np.float64(0.75)), ('npint', np.int64(3)),
        ('npcomplex', np.complex128(0.5 - 1j)), ('complex-real', complex(2.0, 0.0)), ('npcomplex-real', np.complex128(3.0)),
        ('npcomplex64', np.complex64(0.5 + 1j)), ('npfloat32', np.float32(1.5))]
ARR2 = {'complex': np.array([1 + 1j, 2.0]), 'complex0d': np.array(1j), 'float0d': np.array(2.0), 'complex64': np.array([0.5 + 1j, 1j], dtype=np.complex64),
        'float2d': np.array([[0.5, 2.0], [1.0, 3.0]])}
UNARY = list(ref.UNARY)
import operator
OPS = {'+': operator.add, '-': operator.sub, '*': operator.mul, '/': operator.truediv, '**': operator.pow}


def all_events():
    ev = []
    for op in BIN:
        ev.append(('bin', op, 'ab'))
        ev.append(('bin', op, 'ba'))
    for op in BIN:
        for s, _ in SCAL:
            ev.append(('scal', op, s, 'l'))   # a op s
            ev.append(('scal', op, s, 'r'))   # s op a
        ev.append(('arr', op, 'l'))
        ev.append(('arr', op, 'r'))
    for op in list(BIN) + ['**']:
        for k in ARR2:
            ev.append(('arr2', op, 'l', k))
            ev.append(('arr2', op, 'r', k))
    ev += [('arr2', '**', 'l', 'float'), ('arr2', '**', 'r', 'float')]
    ev += [('pow', 'ab'), ('pow', 'int'), ('pow', 'float'), ('pow', 'rint'), ('pow', 'complex'), ('pow', 'rcomplex')]
    for f in UNARY:
        ev.append(('un', f))
    ev += [('reweight',), ('correlate',), ('merge',), ('gm',), ('fit',), ('root',), ('json',), ('dobs',), ('pickle',),
           ('jack',), ('cobs',), ('part', 'real'), ('part', 'imag'), ('swap',), ('conj',)]
    return ev


def pool(pe):
    """Initial register pairs: well-formed observables from the layout x covariance alphabet."""
    L = alpha.LAYOUTS_QUICK

    def o(i, key, mean=1.2):
        return alpha.make_obs(pe, L[i], ('c04', key), 'white', mean, 0.05)[0]
    cv = pe.cov_Obs([0.9, 1.1], alpha.cov_matrix(2, True, 'cv2'), 'cv2')
    w = alpha.make_obs(pe, L[8], ('c04', 'w'), 'white', 1.0, 0.02)[0]
    rw = o(8, 'rwo').reweight(w)
    cv1 = pe.cov_Obs(0.7, 0.02, 'cv1')
    multi = o(0, 'm0') * o(11, 'm1') * cv[0] * cv1
    init = [
        (o(0, 'a'), o(0, 'b', 0.8)),
        (o(1, 'a'), o(5, 'b', 0.8)),
        (o(8, 'a'), o(9, 'b', 0.8)),
        (o(10, 'a'), o(11, 'b', 0.8)),
        (cv[0], o(0, 'b', 0.8)),
        (cv[0], cv[1]),
        (cv1 * o(8, 'cc'), cv[1]),
        (rw, w),
        (multi, o(12, 'b', 0.8)),
        (o(3, 'a'), o(4, 'b', 0.8)),
        (o(0, 'ma'), o(9, 'mb', 0.8)),
        (o(5, 'a2'), o(0, 'b2', 0.8)),
        (pe.CObs(o(0, 'cr'), o(1, 'ci', 0.4)), o(0, 'b', 0.8)),
    ]
    return init


# ------------------------------------------------------------------ structure abstraction
def sig_obs(o):
    idl = tuple((n, ('r', o.idl[n].start, o.idl[n].stop, o.idl[n].step) if isinstance(o.idl[n], range) else tuple(o.idl[n]))
                for n in sorted(o.deltas))
    cov = tuple((n, o.covobs[n].cov.shape[0]) for n in sorted(o.covobs))
    return ('Obs', idl, cov, bool(o.reweighted), hasattr(o, 'e_dvalue'))


def sig_any(x, pe):
    if isinstance(x, pe.Obs):
        return sig_obs(x)
    if isinstance(x, pe.CObs):
        return ('CObs', sig_any(x.real, pe), sig_any(x.imag, pe))
    if isinstance(x, np.ndarray):
        return ('arr', x.shape, tuple(sig_any(v, pe) for v in x.ravel()))
    return ('num', type(x).__name__)


def canon(regs, pe):
    return hashlib.md5(repr((sig_any(regs[0], pe), sig_any(regs[1], pe))).encode()).hexdigest()


def val(x, pe):
    if isinstance(x, pe.Obs):
        return complex(x.value)
    if isinstance(x, pe.CObs):
        return complex(float(x.real), float(x.imag))
    return complex(x)


def is_obs(x, pe):
    return isinstance(x, pe.Obs)


ARITH_TYPES = 'Obs/CObs/int/float/complex/numpy scalar'


def check_produced(pe, acc, what, x, sub, closure=True):
    """WF on an object a transition produced.  Returns True when well-formed."""
    bad = compare.wf_any(x, pe) if closure else None
    if bad:
        acc.fail('wf:%s:%s' % (what, classify(bad)), sub, '%s produced a malformed object: %s' % (what, bad))
        return False
    return True


def classify(text):
    for key in ('complex', 'bare', 'reweighted flag', 'not sorted', 'not unique', 'strictly increasing', 'held as',
                'sample count', 'fluctuations', 'configurations,', 'not an Obs', 'covariance name', 'type'):
        if key in text:
            return key.replace(' ', '-').rstrip(',')
    return 'other'


def legit_refusal(pe, kind, a, b):
    """May reweight/correlate/merge raise for this pair?  (the misalignments the C05 statement lists)"""
    if kind == 'reweight':   # reweight(w=b, o=a)
        if a.cov_names or b.cov_names:
            return True
        if not set(a.names) <= set(b.names):
            return True
        if len(a.mc_names) > 1 or len(b.mc_names) > 1:
            return True
        return any(not set(a.idl[n]) <= set(b.idl[n]) for n in a.names)
    if kind == 'correlate':
        if a.cov_names or b.cov_names or len(a.mc_names) > 1 or len(b.mc_names) > 1:
            return True
        if sorted(a.names) != sorted(b.names):
            return True
        return any(list(a.idl[n]) != list(b.idl[n]) for n in a.names)
    if kind == 'merge':
        if a.cov_names or b.cov_names:
            return True
        if set(a.names) & set(b.names):
            return True
        # several ensembles in one constructor call are rejected by the constructor (documented)
        return len(set(n.split('|')[0] for n in list(a.names) + list(b.names))) > 1
    return False


def apply_event(pe, regs, ev, acc, path):
    """Returns successor registers, or None (event disabled / refused / produces no storable object)."""
    import autograd.numpy as anp
    a, b = regs
    sub = {'path': [list(p) for p in path], 'event': list(ev), 'init': None}
    kind = ev[0]
    va, vb = val(a, pe), val(b, pe)

    def disabled(why='domain'):
        acc.skip('disabled:' + why)
        return None

    def store(x):
        return (x, b)

    try:
        with warnings.catch_warnings():
            warnings.simplefilter('ignore')
            if kind == 'swap':
                return (b, a)
            if kind == 'bin':
                x, y = (a, b) if ev[2] == 'ab' else (b, a)
                if ev[1] == '/' and abs(val(y, pe)) < 1e-3:
                    return disabled('divisor')
                try:
                    r = OPS[ev[1]](x, y)
                except Exception as e:
                    acc.fail('closure:%s:obs-obs:raised' % ev[1], sub, '%s %s %s raised %s: %s' % (sig_any(x, pe)[0], ev[1], sig_any(y, pe)[0], type(e).__name__, e))
                    return None
                if not check_produced(pe, acc, 'arith', r, sub):
                    return None
                acc.ok(('t', tuple(map(tuple, path)), ev), True, 'arith')
                return store(r)
            if kind == 'scal':
                s = dict(SCAL)[ev[2]]
                if ev[1] == '/' and ev[3] == 'r' and abs(va) < 1e-3:
                    return disabled('divisor')
                try:
                    r = OPS[ev[1]](a, s) if ev[3] == 'l' else OPS[ev[1]](s, a)
                except Exception as e:
                    cpx = 'complex' if 'complex' in ev[2] else 'real'
                    acc.fail('closure:%s:%s:raised' % (ev[1], cpx), sub, '%s %s %s (%s) raised %s: %s' % (
                        sig_any(a, pe)[0], ev[1], ev[2], 'left' if ev[3] == 'l' else 'right', type(e).__name__, e))
                    return None
                bad = compare.wf_any(r, pe)
                if bad:
                    cpx = 'complex' if 'complex' in ev[2] else 'real'
                    acc.fail('closure:%s:%s' % (ev[1], cpx), sub, '%s %s %s (%s operand) is not closed: %s' % (
                        sig_any(a, pe)[0], ev[1], ev[2], 'left' if ev[3] == 'l' else 'right', bad))
                    return None
                acc.ok(('t', tuple(map(tuple, path)), ev), True, 'arith-scalar')
                return store(r)
            if kind == 'arr':
                arr = np.array([0.5, 2.5])
                if ev[1] == '/' and ev[2] == 'r' and abs(va) < 1e-3:
                    return disabled('divisor')
                try:
                    r = OPS[ev[1]](a, arr) if ev[2] == 'l' else OPS[ev[1]](arr, a)
                except (TypeError, ValueError):
                    acc.ok(('t', tuple(map(tuple, path)), ev), False, 'refused')
                    return None
                if not isinstance(r, np.ndarray):
                    acc.fail('closure:ndarray:not-array', sub, 'ndarray partner gave %s' % type(r).__name__)
                    return None
                check_produced(pe, acc, 'arith-ndarray', r, sub) and acc.ok(('t', tuple(map(tuple, path)), ev), True, 'arith-ndarray')
                return None     # arrays are checked but not stored
            if kind == 'arr2':
                arr = np.array([0.5, 2.5]) if ev[3] == 'float' else ARR2[ev[3]]
                if ev[1] == '/' and ev[2] == 'r' and abs(va) < 1e-3:
                    return disabled('divisor')
                if ev[1] == '**' and not (va.real > 0.05 and va.real < 4 and is_obs(a, pe)):
                    return disabled()
                try:
                    with warnings.catch_warnings():
                        warnings.simplefilter('ignore')
                        r = OPS[ev[1]](a, arr) if ev[2] == 'l' else OPS[ev[1]](arr, a)
                except (TypeError, ValueError):
                    acc.ok(('t', tuple(map(tuple, path)), ev), False, 'refused')
                    return None
                cpx = 'complex' if 'complex' in ev[3] else 'real'
                if not check_produced(pe, acc, 'arith-ndarray:%s:%s' % (ev[1], cpx), r, sub):
                    return None
                acc.ok(('t', tuple(map(tuple, path)), ev), True, 'arith-ndarray')
                return None
            if kind == 'pow':
                if not is_obs(a, pe):
                    return disabled('type')
                if not (va.real > 0.05 and va.real < 20):
                    return disabled()
                how = ev[1]
                try:
                    if how == 'ab':
                        if not is_obs(b, pe) or abs(vb) > 4:
                            return disabled()
                        r = a ** b
                    elif how == 'int':
                        r = a ** 2
                    elif how == 'float':
                        r = a ** 0.5
                    elif how == 'rint':
                        if abs(va) > 4:
                            return disabled()
                        r = 2 ** a
                    elif how == 'complex':
                        r = a ** (1 + 2j)
                    elif how == 'rcomplex':
                        if abs(va) > 4:
                            return disabled()
                        r = (1 + 2j) ** a
                except (TypeError, ValueError):
                    acc.ok(('t', tuple(map(tuple, path)), ev), False, 'refused')
                    return None
                bad = compare.wf_any(r, pe)
                if bad:
                    acc.fail('closure:**:%s' % (how if 'complex' in how else 'real'), sub, 'Obs ** %s is not closed: %s' % (how, bad))
                    return None
                acc.ok(('t', tuple(map(tuple, path)), ev), True, 'pow')
                return store(r)
            if kind == 'un':
                f, df, dom = ref.UNARY[ev[1]]
                if isinstance(a, pe.CObs):
                    if ev[1] == 'neg':
                        r = -a
                    elif ev[1] == 'abs':
                        r = abs(a)
                    else:
                        return disabled('type')
                else:
                    x = va.real
                    if (dom == 'pos' and not x > 0.05) or (dom == 'unit' and not abs(x) < 0.95) or (dom == 'gt1' and not x > 1.05) or abs(x) > 15:
                        return disabled()
                    if ev[1] == 'abs' and abs(x) < 1e-3:
                        return disabled()
                    r = -a if ev[1] == 'neg' else abs(a) if ev[1] == 'abs' else getattr(np, ev[1])(a)
                if not check_produced(pe, acc, 'function', r, sub):
                    return None
                acc.ok(('t', tuple(map(tuple, path)), ev), True, 'function')
                return store(r)
            if kind in ('reweight', 'correlate', 'merge'):
                if not (is_obs(a, pe) and is_obs(b, pe)):
                    return disabled('type')
                if kind == 'reweight' and abs(vb) < 1e-3:
                    return disabled('divisor')
                try:
                    r = pe.reweight(b, [a])[0] if kind == 'reweight' else pe.correlate(a, b) if kind == 'correlate' else pe.merge_obs([a, b])
                except Exception as e:
                    if legit_refusal(pe, kind, a, b):
                        acc.ok(('t', tuple(map(tuple, path)), ev), False, 'refused')
                    else:
                        acc.fail('refusal:%s' % kind, sub, '%s of aligned operands raised %s: %s' % (kind, type(e).__name__, e))
                    return None
                if not check_produced(pe, acc, kind if kind != 'merge' else 'merge_obs', r, sub):
                    return None
                acc.ok(('t', tuple(map(tuple, path)), ev), True, kind)
                return store(r)
            if kind == 'gm':
                r = copy.deepcopy(a)
                try:
                    r.gamma_method()
                except ValueError:
                    acc.ok(('t', tuple(map(tuple, path)), ev), False, 'refused')
                    return None
                if not check_produced(pe, acc, 'gamma_method', r, sub):
                    return None
                acc.ok(('t', tuple(map(tuple, path)), ev), True, 'gm')
                return store(r)
            if kind == 'fit':
                if not (is_obs(a, pe) and is_obs(b, pe)):
                    return disabled('type')
                ys = [copy.deepcopy(a), copy.deepcopy(b), a + b, a - b]
                [y.gamma_method() for y in ys]
                if any(y.dvalue <= 0 for y in ys):
                    return disabled('zero-error')
                try:
                    res = pe.least_squares(np.arange(1.0, 5.0), ys, lambda p, x: p[0] + p[1] * x, silent=True)
                except Exception as e:
                    # numerically degenerate data after several operations (singular Hessian, no convergence): the
                    # property constrains what is *returned*; correctness of fits on regular data is C07/C08
                    if 'hessian' in str(e) or 'converge' in str(e):
                        acc.ok(('t', tuple(map(tuple, path)), ev), False, 'refused')
                        return None
                    raise
                for p in res.fit_parameters:
                    if not check_produced(pe, acc, 'least_squares', p, sub):
                        return None
                acc.ok(('t', tuple(map(tuple, path)), ev), True, 'fit')
                return (res.fit_parameters[0], res.fit_parameters[1])
            if kind == 'root':
                if not is_obs(a, pe) or not (0.05 < va.real < 50):
                    return disabled()
                r = pe.roots.find_root(a, lambda x, d: x * x - d, guess=float(np.sqrt(va.real)))
                if not check_produced(pe, acc, 'find_root', r, sub):
                    return None
                acc.ok(('t', tuple(map(tuple, path)), ev), True, 'root')
                return store(r)
            if kind in ('json', 'dobs', 'pickle', 'jack'):
                if not is_obs(a, pe):
                    return disabled('type')
                buf = io.StringIO()
                with contextlib.redirect_stdout(buf):
                    if kind == 'json':
                        r = pe.input.json.import_json_string(pe.input.json.create_json_string(a), verbose=False)
                    elif kind == 'dobs':
                        if not a.mc_names:
                            return disabled('dobs-needs-a-chain')
                        s = pe.input.dobs.create_dobs_string([a], 'x')
                        r = pe.input.dobs.import_dobs_string(s.encode('utf-8'))[0]
                    elif kind == 'pickle':
                        r = pickle.loads(pickle.dumps(a))
                    else:
                        if len(a.names) != 1 or a.cov_names:
                            return disabled('jackknife-single-chain')
                        r = pe.import_jackknife(a.export_jackknife(), a.names[0], idl=[a.idl[a.names[0]]])
                if not check_produced(pe, acc, kind + '-roundtrip', r, sub):
                    return None
                acc.ok(('t', tuple(map(tuple, path)), ev), True, 'roundtrip')
                return store(r)
            if kind == 'cobs':
                if not (is_obs(a, pe) and is_obs(b, pe)):
                    return disabled('type')
                return store(pe.CObs(a, b))
            if kind == 'part':
                if not isinstance(a, pe.CObs):
                    return disabled('type')
                r = a.real if ev[1] == 'real' else a.imag
                if not isinstance(r, pe.Obs):
                    return disabled('type')
                return store(r)
            if kind == 'conj':
                if not isinstance(a, pe.CObs):
                    return disabled('type')
                r = a.conjugate()
                if not check_produced(pe, acc, 'conjugate', r, sub):
                    return None
                return store(r)
    except Exception as e:
        import traceback
        acc.fail('raised:%s' % kind, sub, 'event %s raised %s: %s\n%s' % (list(ev), type(e).__name__, e, traceback.format_exc()[-800:]))
        return None
    raise engine.MachineryError('unknown event %r' % (ev,))


def expand(case):
    pe = engine.import_pyerrors()
    acc = Acc()
    regs = pickle.loads(case['blob'])
    succ = []
    for ev in all_events():
        new = apply_event(pe, regs, ev, acc, case['path'])
        if new is None:
            succ.append((list(ev), None, None))
        else:
            succ.append((list(ev), canon(new, pe), pickle.dumps(new)))
    if len(case['path']) == 2 and case['path'][1][0] in ('bin', 'reweight'):
        acc.sample({'history': case['path'], 'registers': [str(sig_any(r, pe))[:160] for r in regs]})
    return {'succ': succ, 'pack': acc.pack()}


def replay_case(case):
    pe = engine.import_pyerrors()
    acc = Acc()
    if case.get('kind') == 'reject':
        return run_case(case)
    if case.get('kind') == 'pool':
        for x in pool(pe)[case['i']]:
            bad = compare.wf_any(x, pe)
            if bad:
                acc.fail('wf:constructor:' + classify(bad), case, 'initial object malformed: %s' % bad)
        return acc
    scratch = Acc()
    regs = pool(pe)[case['path'][0][1]]
    for ev in case['path'][1:]:
        new = apply_event(pe, regs, tuple(ev), scratch, [])
        if new is not None:
            regs = new
    apply_event(pe, regs, tuple(case['event']), acc, case['path'])
    return acc


# ------------------------------------------------------------------ rejection part (E-PROD)
def reject_cases():
    cases = []
    for nrep in (1, 2, 3):
        for kind in ('dup-name', 'nonstring-name', 'unsorted-idl', 'dup-idl', 'length-mismatch', 'length-mismatch-cancel', 'short', 'multi-ens',
                     'multi-ens-prefix', 'multi-ens-bare-prefix', 'multi-ens-sandwiched',
                     'names-samples-mismatch', 'idl-count-mismatch', 'decreasing-range', 'bad-idl-type', 'float-idl', 'float-idl-integer-valued',
                     'complex-samples'):
            for pos in ('first', 'middle', 'last'):
                for carrier in ('list', 'ndarray', 'range', 'uint32', 'uint8-list', 'int8'):
                    cases.append({'kind': 'reject', 'what': kind, 'nrep': nrep, 'pos': pos, 'carrier': carrier})
    for kind in ('cov-bar-name', 'cov-asymmetric', 'cov-indefinite', 'cov-nonsquare', 'cov-wrong-means', 'cov-negative-variance'):
        for dim in (1, 2, 3):
            cases.append({'kind': 'reject', 'what': kind, 'dim': dim})
    # the other side of the boundary: singular positive-semidefinite matrices (perfectly correlated inputs, a vanishing variance) are legitimate
    cases.append({'kind': 'reject', 'what': 'cov-singular-psd-accepted', 'dim': 0})
    # aliasing: the constructors must not keep references to the caller's mutable arguments
    for kind in ('alias-idl-list', 'alias-idl-ndarray', 'alias-samples', 'alias-names', 'alias-cov-matrix', 'alias-cov-means', 'alias-jackknife'):
        for nrep in (1, 2):
            cases.append({'kind': 'reject', 'what': kind, 'nrep': nrep})
    for kind in ('int8', 'int16', 'uint8', 'uint16'):
        cases.append({'kind': 'reject', 'what': 'wrap-' + kind})
    # a covariance input that is named like a Monte-Carlo chain / ensemble of another operand, through every route
    for kind in ('chain-name', 'ensemble-name', 'bare-ensemble-of-replicas'):
        cases.append({'kind': 'reject', 'what': 'collide-' + kind})
    for kind in ('int-cov-mean', 'int-cov-means', 'int-samples', 'int-jackknife', 'int-bootstrap', 'float32-samples'):
        cases.append({'kind': 'reject', 'what': 'ctor-' + kind})
    for kind in ('jack-idl-too-long', 'jack-idl-too-short', 'jack-nonstring-name', 'jack-short', 'jack-unsorted-idl', 'boot-nonstring-name'):
        for n in (5, 6, 9):
            cases.append({'kind': 'reject', 'what': kind, 'n': n})
    return cases


def run_case(case):
    """One malformed constructor request: must raise."""
    pe = engine.import_pyerrors()
    acc = Acc()
    what = case['what']
    if what == 'cov-singular-psd-accepted':
        mats = {}
        for dim in (2, 3, 4):
            for rank in range(1, dim):
                for scale in (1.0, 1e-6, 1e5):
                    V = alpha.rng('psd', dim, rank).normal(size=(dim, rank)) * scale
                    mats['outer-products dim %d rank %d scale %g' % (dim, rank, scale)] = V @ V.T
            mats['all entries equal, dim %d' % dim] = 0.3 * np.ones((dim, dim))
            mats['one vanishing variance, dim %d' % dim] = np.diag([0.0] + [0.1 * (i + 1) for i in range(dim - 1)])
            mats['zero matrix, dim %d' % dim] = np.zeros((dim, dim))
        for nm, S in mats.items():
            n = len(S)
            try:
                ol = pe.cov_Obs([1.0 + i for i in range(n)], S, 'cvs')
                bad = None
                for i, o in enumerate(ol):
                    bad = bad or compare.wf_any(o, pe)
                    if not bad and not abs(o.dvalue - math.sqrt(S[i, i])) <= 1e-12 * math.sqrt(S[i, i]) + 1e-300:
                        bad = 'error %r, sqrt of the variance %r' % (o.dvalue, math.sqrt(S[i, i]))
                tot = sum(ol[1:], ol[0])
                tot.gamma_method()
                if not bad and not abs(tot.dvalue ** 2 - float(np.sum(S))) <= 1e-10 * float(np.sum(np.abs(S))) + 1e-300:
                    bad = 'squared error of the sum %r, sum of the matrix %r' % (tot.dvalue ** 2, float(np.sum(S)))
            except Exception as e:
                bad = 'refused: %s' % (e,)
            if bad:
                acc.fail('accept:cov-singular-psd', dict(case, matrix=nm), 'singular positive-semidefinite covariance (%s): %s' % (nm, bad))
            else:
                acc.ok(('psd', nm), True, 'constructed')
        acc.sample(case)
        return acc
    if what.startswith('cov-'):
        dim = case['dim']
        S = alpha.cov_matrix(dim, True, 'rej')
        means = [1.0 + i for i in range(dim)]
        name = 'cv'
        if what == 'cov-bar-name':
            name = 'cv|1'
        elif what == 'cov-asymmetric':
            if dim == 1:
                acc.skip('n/a')
                return acc
            S = S.copy()
            S[0, 1] += 0.001
        elif what == 'cov-indefinite':
            S = -S
        elif what == 'cov-nonsquare':
            if dim == 1:
                acc.skip('n/a')
                return acc
            S = S[:, :-1]
        elif what == 'cov-wrong-means':
            means = means + [5.0]
        elif what == 'cov-negative-variance':
            # variances given as a number (dim 1) or as a 1d list (diagonal matrix): one of them negative
            S = -0.25 if dim == 1 else [0.1 * (i + 1) * (-1 if i == dim - 2 else 1) for i in range(dim)]
        # call history inside this case: the VALID matrix of the same size (and trace) was accepted just before
        S_ok = alpha.cov_matrix(dim, True, 'rej')
        pe.cov_Obs([1.0 + i for i in range(dim)] if dim > 1 else 1.0, S_ok, 'cvok')
        pe.cov_Obs([1.0 + i for i in range(dim)] if dim > 1 else 1.0, S_ok, 'cvok2') if dim > 1 else None
        # ... without and with the optional gradient argument
        nS = 1 if np.ndim(S) == 0 else len(S)
        for gname, grad in (('no-grad', None), ('grad', [1.0 + 0.5 * i for i in range(nS)]), ('grad-array', np.array([[1.0 - 0.25 * i] for i in range(nS)]))):
            try:
                r = pe.cov_Obs(means if len(means) > 1 else means[0], S, name, **({} if grad is None else {'grad': grad}))
                acc.fail('reject:%s' % what, dict(case, grad=gname), 'cov_Obs accepted %s (dim %d, %s): %r' % (what, dim, gname, r))
            except Exception:
                acc.ok((what, dim, gname), True, 'rejected')
        return acc
    if what.startswith('wrap-'):
        # configuration numbers in a narrow integer type whose differences wrap around: an unsorted list looks increasing
        dt = getattr(np, what[5:])
        info = np.iinfo(dt)
        top = int(info.max)
        lists = [np.array([top - 27, top - 17, top - 7, top, top + 1], dtype=np.int64).astype(dt),           # last entry wrapped to the minimum
                 np.array([top - 3, top - 2, top - 1, top, top + 1, top + 2], dtype=np.int64).astype(dt)]
        bad = None
        for il in lists:
            try:
                o = pe.Obs([alpha.rng('wrap', what).normal(size=len(il))], ['A|r1'], idl=[il])
                bad = bad or 'accepted the unsorted list %s (%s) as %s' % (il.tolist(), what[5:], o.idl)
            except Exception:
                pass
        ok = np.array([top - 40, top - 30, top - 20, top - 10, top], dtype=np.int64).astype(dt)
        try:
            o = pe.Obs([alpha.rng('wrap2', what).normal(size=5)], ['A|r1'], idl=[ok])
            bad = bad or compare.wf_any(o, pe) or (None if list(o.idl['A|r1']) == [top - 40, top - 30, top - 20, top - 10, top] else 'valid list %s stored as %s' % (ok.tolist(), o.idl))
        except Exception as e:
            bad = bad or 'a valid %s list was rejected: %r' % (what[5:], e)
        if bad:
            acc.fail('reject:unsorted-idl:%s' % what, case, bad)
        else:
            acc.ok((what,), True, 'rejected')
        acc.sample(case)
        return acc
    if what.startswith('collide-'):
        r = alpha.rng('collide', what)
        chain, cname = {'collide-chain-name': ('test', 'test'), 'collide-ensemble-name': ('A|r1', 'A'), 'collide-bare-ensemble-of-replicas': ('A|r2', 'A')}[what]
        mk = lambda k: pe.Obs([r.normal(1.0 + 0.1 * k, 0.1, 12)], [chain])      # noqa: E731
        a, a2 = mk(0), mk(1)
        c = pe.cov_Obs(2.0, 0.01, cname)
        other = pe.Obs([r.normal(0.5, 0.1, 9)], ['Z|r1'])
        A = np.array([[a, a2], [a2, 3 * a]], dtype=object)
        C = np.array([[c, 1.5 * c], [c * c, c]], dtype=object)
        routes = {'a+c': lambda: a + c, 'c*a': lambda: c * a, 'a/c': lambda: a / c, '(other*c)+a': lambda: other * c + a, 'derived_observable': lambda: pe.derived_observable(lambda x, **kw: x[0] * x[1] + x[2], [a, c, other]),
                  'linalg.matmul': lambda: pe.linalg.matmul(A, C), 'linalg.matmul(C, A)': lambda: pe.linalg.matmul(C, A), 'linalg.inv (mixed matrix)': lambda: pe.linalg.inv(np.array([[a, c], [c, 3 * a2]], dtype=object)),
                  'linalg.det (mixed matrix)': lambda: pe.linalg.det(np.array([[a, c], [c, 3 * a2]], dtype=object)), 'CObs product': lambda: pe.CObs(a, a2) * pe.CObs(c, c)}
        for rn, f in routes.items():
            sub = dict(case, route=rn)
            try:
                res = f()
            except Exception:
                acc.ok((what, rn), True, 'rejected')
                continue
            first = np.ravel(np.asarray(res, dtype=object))[0]
            first = first.real if isinstance(first, pe.CObs) else first
            acc.fail('reject:name-collision', sub, 'covariance input %r combined with an observable on the chain %r through %s was accepted: names %s, chains with fluctuations %s' % (
                cname, chain, rn, getattr(first, 'names', None), sorted(getattr(first, 'deltas', {}))))
        acc.sample(case)
        return acc
    if what.startswith('ctor-'):
        # integer-valued (or single precision) input to the constructors: the observable still has a floating-point central value
        r = alpha.rng('ctor', what)
        ints = np.array([3, 1, 4, 1, 5, 9, 2, 6])
        if what == 'ctor-int-cov-mean':
            objs = [pe.cov_Obs(1, 0.1, 'ci'), pe.cov_Obs(1, 0.1, 'ci') * 2, pe.cov_Obs(np.int64(2), 0.1, 'cj') if False else pe.cov_Obs(2, 1, 'cj')]
        elif what == 'ctor-int-cov-means':
            objs = list(pe.cov_Obs([1, 2], [[1, 0], [0, 4]], 'ck')) + [pe.cov_Obs([1, 2], [[1, 0], [0, 4]], 'ck')[0] + 1]
        elif what == 'ctor-int-samples':
            objs = [pe.Obs([ints], ['A|r1']), pe.Obs([ints, ints[:5]], ['A|r1', 'A|r2']), pe.Obs([ints], ['A|r1']) * 2]
        elif what == 'ctor-float32-samples':
            objs = [pe.Obs([ints.astype(np.float32) / 3], ['A|r1'])]
        elif what == 'ctor-int-jackknife':
            objs = [pe.import_jackknife(np.array([3, 1, 2, 3, 4, 5, 3]), 'A|r1'), pe.import_jackknife(np.array([3, 1, 2, 3, 4, 5, 3]), 'A|r1') + 1]
        else:
            tab = np.array([[(i + s_) % 6 for i in range(6)] for s_ in range(6)] + [[0, 0, 1, 2, 3, 4], [5, 5, 1, 2, 3, 4]])
            objs = [pe.import_bootstrap(np.arange(9), 'A|r1', tab)]
        bad = None
        for o in objs:
            bad = bad or compare.wf_any(o, pe)
        if bad:
            acc.fail('wf:constructor:%s' % what[5:], case, '%s: %s' % (what[5:], bad))
        else:
            acc.ok((what,), True, 'constructed')
        acc.sample(case)
        return acc
    if what.startswith('alias-'):
        try:
            return run_alias(pe, acc, case)
        except engine.MachineryError:
            raise
        except Exception as e:
            acc.fail('alias:%s:raised' % what.split('-', 1)[1], case, 'after the caller modified the %s it had passed in, using the observable raised %s: %s' % (what.split('-', 1)[1], type(e).__name__, e))
            return acc
    if what.startswith('jack-') or what.startswith('boot-'):
        n = case['n']
        r = alpha.rng('rejjack', n)
        src = pe.Obs([r.normal(size=n)], ['A|r1'], idl=[range(2, 2 * n + 2, 2)])
        jk = src.export_jackknife()
        try:
            if what == 'jack-idl-too-long':
                o = pe.import_jackknife(jk, 'A|r1', idl=[range(1, 2 * n + 1)])
            elif what == 'jack-idl-too-short':
                o = pe.import_jackknife(jk, 'A|r1', idl=[list(range(1, n))])
            elif what == 'jack-nonstring-name':
                o = pe.import_jackknife(jk, 5)
            elif what == 'jack-short':
                o = pe.import_jackknife(jk[:5], 'A|r1')
            elif what == 'jack-unsorted-idl':
                o = pe.import_jackknife(jk, 'A|r1', idl=[[2, 1] + list(range(3, n + 1))])
            elif what == 'boot-nonstring-name':
                rn = np.array([r.integers(0, n, size=n) for _ in range(3 * n)])
                o = pe.import_bootstrap(src.export_bootstrap(3 * n, random_numbers=rn), 7, rn)
            acc.fail('reject:%s' % what, case, '%s accepted a malformed request: names=%s idl=%s N=%s stored=%s' % (
                what.split('-')[0], o.names, o.idl, o.N, {k: len(v) for k, v in o.deltas.items()}))
        except Exception:
            acc.ok((what, n), True, 'rejected')
        acc.sample(case)
        return acc
    nrep, pos, carrier = case['nrep'], case['pos'], case['carrier']
    names = ['A|r%d' % (i + 1) for i in range(nrep)]
    cfgs = [[1, 2, 4, 5, 7, 8, 11], list(range(2, 16, 2)), [3, 4, 6, 7, 9, 10, 12]][:nrep]
    r = alpha.rng('rej', nrep)
    samples = [r.normal(size=len(c)) for c in cfgs]
    which = {'first': 0, 'middle': nrep // 2, 'last': nrep - 1}[pos]
    ipos = {'first': 0, 'middle': 3, 'last': -1}[pos]
    kw = {}
    applicable = True
    if what == 'dup-name':
        if nrep == 1:
            applicable = False
        else:
            names[which] = names[(which + 1) % nrep]
    elif what == 'nonstring-name':
        names[which] = 7
    elif what == 'unsorted-idl':
        c = list(cfgs[which])
        i = ipos if ipos >= 0 else len(c) - 1
        j = i + 1 if i + 1 < len(c) else i - 1
        c[i], c[j] = c[j], c[i]
        cfgs[which] = c
    elif what == 'dup-idl':
        c = list(cfgs[which])
        i = ipos if ipos >= 0 else len(c) - 1
        j = i + 1 if i + 1 < len(c) else i - 1
        c[i] = c[j]
        cfgs[which] = sorted(c)
    elif what == 'length-mismatch':
        samples[which] = samples[which][:-1] if pos != 'first' else np.concatenate([samples[which], [0.0]])
    elif what == 'length-mismatch-cancel':
        # one chain has a sample too few, its neighbour one too many: the total number of samples equals the total of the lists
        if nrep == 1:
            applicable = False
        else:
            other = (which + 1) % nrep
            samples[other] = np.concatenate([samples[other], samples[which][-1:]])
            samples[which] = samples[which][:-1]
    elif what == 'short':
        cfgs[which] = cfgs[which][:4]
        samples[which] = samples[which][:4]
    elif what == 'multi-ens':
        if nrep == 1:
            applicable = False
        else:
            names[which] = 'B|r1'
    elif what in ('multi-ens-prefix', 'multi-ens-bare-prefix'):
        # a second ensemble whose name has the first one's as a string prefix (or the other way round)
        if nrep == 1:
            applicable = False
        elif what == 'multi-ens-prefix':
            if pos == 'first':
                names = ['A|r1'] + ['AB|r%d' % (i + 1) for i in range(1, nrep)]
            elif pos == 'middle':
                names = ['AB|r1'] + ['A|r%d' % (i + 1) for i in range(1, nrep)]
            else:
                names[-1] = 'AB|r1'
        else:
            names = ['A'] + ['A%d' % (i + 1) for i in range(1, nrep)] if which == 0 else ['A%d' % (i + 1) for i in range(nrep - 1)] + ['A']
    elif what == 'multi-ens-sandwiched':
        # the foreign ensemble sorts BETWEEN two chains of the other ensemble (smallest and largest name belong together)
        if nrep < 3:
            applicable = False
        else:
            names = {'first': ['A', 'AB|r1', 'A|r2'], 'middle': ['A|r1', 'Ab', 'A'], 'last': ['A|r7', 'A', 'A0|r1']}[pos]
    elif what == 'names-samples-mismatch':
        names = names + ['A|r9']
    elif what == 'idl-count-mismatch':
        cfgs = cfgs + [[1, 2, 3, 4, 5]]
    elif what == 'decreasing-range':
        cfgs[which] = None
    elif what == 'bad-idl-type':
        cfgs[which] = 'tuple'
    elif what == 'float-idl':
        # configuration numbers that are not integers (one of them, at the position)
        c = [float(v) for v in cfgs[which]]
        i = ipos if ipos >= 0 else len(c) - 1
        c[i] = c[i] + 0.5
        cfgs[which] = ('float', c)
    elif what == 'float-idl-integer-valued':
        cfgs[which] = ('float', [float(v) for v in cfgs[which]])
    elif what == 'complex-samples':
        samples[which] = samples[which] + 1j * (samples[which] * 0 + (0.0 if pos == 'last' else 0.25))
    if not applicable:
        acc.skip('n/a')
        return acc

    def carry(c, i):
        if c is None:
            return range(len(samples[i]), 0, -1)
        if c == 'tuple':
            return tuple(range(1, len(samples[i]) + 1))
        if isinstance(c, tuple) and c[0] == 'float':
            return np.array(c[1]) if carrier in ('ndarray', 'uint32', 'int8') else list(c[1])
        if carrier == 'ndarray':
            return np.array(c)
        if carrier == 'uint32':
            return np.array(c, dtype=np.uint32)
        if carrier == 'uint8-list':
            return [np.uint8(v) for v in c]
        if carrier == 'int8':
            return np.array([v + 113 for v in c]).astype(np.int8)       # 113 + 15 = 128 wraps to -128: unsorted / duplicate after the wrap
        if carrier == 'range' and len(set(np.diff(c))) == 1 and np.diff(c)[0] > 0:
            return range(c[0], c[-1] + 1, c[1] - c[0])
        return list(c)
    # call history: the same chains were constructed with a VALID request (same names, lengths and end points) just before, and a
    # valid request made right after a rejected one must still succeed
    valid_names = ['A|r%d' % (i + 1) for i in range(nrep)]
    valid_cfgs = [[1, 2, 4, 5, 7, 8, 11], list(range(2, 16, 2)), [3, 4, 6, 7, 9, 10, 12]][:nrep]
    valid_samples = [alpha.rng('rejv', nrep, i).normal(size=len(c)) for i, c in enumerate(valid_cfgs)]

    def valid_request():
        v = pe.Obs(valid_samples, valid_names, idl=[(np.array(c) if carrier == 'ndarray' else list(c)) for c in valid_cfgs])
        return compare.wf_any(v, pe) or (None if {n: list(v.idl[n]) for n in v.idl} == dict(zip(valid_names, valid_cfgs)) else 'configuration lists %s' % v.idl)
    for with_idl in ((True, False) if what in ('dup-name', 'nonstring-name', 'short', 'multi-ens', 'multi-ens-prefix', 'multi-ens-bare-prefix', 'multi-ens-sandwiched', 'names-samples-mismatch', 'complex-samples') else (True,)):
        idl = [carry(c, i) for i, c in enumerate(cfgs)] if with_idl else None
        pre = valid_request()
        if pre:
            acc.fail('reject:valid-request-broken', dict(case, with_idl=with_idl), 'a valid constructor request gives a malformed object: %s' % pre)
            continue
        try:
            o = pe.Obs(samples, names, idl=idl)
            acc.fail('reject:%s' % what, dict(case, with_idl=with_idl), 'constructor accepted a malformed request (%s at %s position, %d chains, %s carrier, idl %s): names=%s idl=%s' % (
                what, pos, nrep, carrier, 'given' if with_idl else 'absent', o.names, o.idl))
        except Exception:
            post = None
            try:
                post = valid_request()
            except Exception as e:
                post = 'raised %s: %s' % (type(e).__name__, e)
            if post:
                acc.fail('reject:valid-after-rejected', dict(case, with_idl=with_idl), 'a valid request made right after the rejected one (%s): %s' % (what, post))
            else:
                acc.ok((what, nrep, pos, carrier, with_idl), True, 'rejected')
    acc.sample(case)
    return acc


def run_alias(pe, acc, case):
    """Construct, then let the caller modify / extend the objects it passed in; the observable (and what is derived from it)
    must stay as constructed."""
    what, nrep = case['what'], case['nrep']
    names = ['A|r%d' % (i + 1) for i in range(nrep)]
    cfgs = [[1, 2, 4, 5, 7, 8, 11], [3, 4, 6, 7, 9, 10, 12, 15]][:nrep]
    r = alpha.rng('alias', what, nrep)
    samples = [r.normal(1.0, 0.1, size=len(c)) for c in cfgs]

    def snap(o):
        return (o.value, tuple(o.names), {n: list(o.idl[n]) for n in o.idl}, {n: o.deltas[n].copy() for n in o.deltas}, dict(o.r_values), o.N,
                {n: (np.array(c.cov).copy(), np.array(c.grad).copy()) for n, c in o.covobs.items()})

    def same(a, b):
        return (a[0] == b[0] and a[1] == b[1] and a[2] == b[2] and all(np.array_equal(a[3][n], b[3][n]) for n in a[3]) and a[4] == b[4] and a[5] == b[5]
                and all(np.array_equal(a[6][n][0], b[6][n][0]) and np.array_equal(a[6][n][1], b[6][n][1]) for n in a[6]))
    if what in ('alias-idl-list', 'alias-idl-ndarray', 'alias-samples', 'alias-names'):
        idl = [list(c) for c in cfgs] if what != 'alias-idl-ndarray' else [np.array(c) for c in cfgs]
        nm = list(names)
        smp = [x.copy() for x in samples]
        o = pe.Obs(smp, nm, idl=idl)
        d1 = o * 2.0 + 1.0
        before = (snap(o), snap(d1))
        if what == 'alias-idl-list':
            for l in idl:
                l.extend([l[-1] + 3, l[-1] + 4, l[-1] + 9])
                l[2] = l[1]
        elif what == 'alias-idl-ndarray':
            for l in idl:
                l[2:] = l[2:] + 50
        elif what == 'alias-samples':
            for x in smp:
                x[:] = 7.0
            smp.append(np.zeros(5))
        else:
            nm.append('A|zz')
            nm[0] = 'Q|r1'
        d2 = o * 2.0 + 1.0
        bad = None
        if not same(before[0], snap(o)):
            bad = 'the observable changed when the caller modified the %s it had passed in' % what.split('-', 1)[1]
        elif not same(before[1], snap(d2)):
            bad = 'an observable derived afterwards differs from the one derived before the caller modified its %s' % what.split('-', 1)[1]
        bad = bad or compare.wf_any(o, pe) or compare.wf_any(d2, pe)
    elif what in ('alias-cov-matrix', 'alias-cov-means'):
        dim = nrep + 1
        S = np.array(alpha.cov_matrix(dim, True, 'alias'), dtype=float)
        means = np.array([1.0 + i for i in range(dim)])
        ol = pe.cov_Obs(means, S, 'cva')
        mc = pe.Obs([samples[0]], ['A|r1'])
        d1 = ol[0] * mc + ol[dim - 1]
        [x.gamma_method() for x in (ol[0], d1)]
        before = (snap(ol[0]), snap(d1), ol[0].dvalue, d1.dvalue)
        if what == 'alias-cov-matrix':
            S *= 9.0
            S[0, dim - 1] = 5.0
        else:
            means[:] = -3.0
        d2 = ol[0] * mc + ol[dim - 1]
        [x.gamma_method() for x in (ol[0], d2)]
        bad = None
        if not same(before[0], snap(ol[0])) or before[2] != ol[0].dvalue:
            bad = 'the covariance observable changed (error %r -> %r) when the caller modified the array it had passed in' % (before[2], ol[0].dvalue)
        elif not same(before[1], snap(d2)) or before[3] != d2.dvalue:
            bad = 'a derived observable changed (error %r -> %r) after the caller modified the array passed to cov_Obs' % (before[3], d2.dvalue)
    else:
        src = pe.Obs([samples[0]], ['A|r1'], idl=[list(cfgs[0])])
        jk = src.export_jackknife()
        idl = [list(cfgs[0])]
        o = pe.import_jackknife(jk, 'A|r1', idl=idl)
        before = snap(o)
        jk[:] = 0.0
        idl[0].append(99)
        bad = None if same(before, snap(o)) else 'the imported observable changed when the caller modified the jackknife array / idl it had passed in'
        bad = bad or compare.wf_any(o, pe)
    if bad:
        acc.fail('alias:%s' % what.split('-', 1)[1], case, bad)
    else:
        acc.ok((what, nrep), True, 'no-aliasing')
    acc.sample(case)
    return acc


def main(tier, seed, jobs):
    t0 = time.time()
    pe = engine.import_pyerrors()
    depth = 4 if tier == 'quick' else 6
    if os.environ.get('C04_DEPTH'):
        depth = int(os.environ['C04_DEPTH'])
    init = []
    packs0 = []
    acc = Acc()
    for i, regs in enumerate(pool(pe)):
        for x in regs:
            bad = compare.wf_any(x, pe)
            if bad:
                acc.fail('wf:constructor:' + classify(bad), {'kind': 'pool', 'i': i}, 'initial object malformed: %s' % bad)
        init.append((canon(regs, pe), pickle.dumps(regs), i))
    # every initial state is its own root (path starts with ('init', i))
    stats = {'states': 0, 'transitions': 0, 'depth_completed': depth, 'new_states_per_level': [], 'capped': False}
    seen = {}
    frontier = []
    for c, blob, i in init:
        if c not in seen:
            seen[c] = 1
            frontier.append({'blob': blob, 'path': [['init', i]]})
    packs = [acc.pack()]
    for d in range(depth):
        res = engine.pmap('checks.c04', 'expand', frontier, jobs, seed, chunksize=max(1, len(frontier) // (jobs * 8)))
        nxt = []
        for case, r in zip(frontier, res):
            if 'succ' not in r:
                packs.append(r)
                continue
            packs.append(r['pack'])
            for ev, c, blob in r['succ']:
                stats['transitions'] += 1
                if blob is None or c in seen:
                    continue
                seen[c] = 1
                nxt.append({'blob': blob, 'path': case['path'] + [ev]})
        stats['new_states_per_level'].append(len(nxt))
        frontier = nxt
    stats['states'] = len(seen)
    tot_h = engine.merge_packs(packs)
    rc = reject_cases()
    tot_r = engine.merge_packs(engine.pmap('checks.c04', 'run_case', rc, jobs, seed, chunksize=8))
    tot = engine.merge_packs([tot_h, tot_r])
    tot['samples'] = tot_h['samples'][:3] + tot_r['samples'][:2]
    extra = {'states': stats['states'], 'transitions': stats['transitions'], 'traces_validated_against_impl': stats['transitions'],
             'depth_completed': depth, 'new_states_per_level': stats['new_states_per_level'], 'initial_states': len(init),
             'events_per_state': len(all_events()), 'rejection_requests': tot_r['n'], 'frontier_not_expanded': len(frontier),
             'explanation': 'every transition executes the real operation on the real objects held in the registers; WF is evaluated on every produced object'}
    rule = ('BFS to depth %d from %d initial register pairs over %d events per state (binary operators in both orders, scalar / '
            'ndarray partners of 8+1 kinds in both positions, **, 17 functions, reweight, correlate, merge_obs, gamma_method, '
            'least_squares, find_root, json/dobs/pickle/jackknife round trips, CObs construction and parts), states merged on '
            'structure; plus the rejection product (17 malformed kinds incl. length mismatches that cancel in the total, non-integer configuration numbers, complex samples x 1..3 chains x 3 positions x 6 carriers incl. unsigned and narrow integers, 6 covariance '
            'kinds x 3 dimensions, 6 malformed import_jackknife / import_bootstrap requests x 3 lengths; 7 aliasing scenarios: the caller modifies idl lists / arrays, samples, names, covariance matrix, means, jackknife array after the constructor returned).  Non-trivial = every executed (not disabled) transition and every rejection request' % (
                depth, len(init), len(all_events())))
    return engine.report('C04', tier, seed, LEVEL, tot, time.time() - t0, rule, ASSUMPTIONS, extra_cov=extra, exhaustive=True)
