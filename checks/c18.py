"""C18 Truncated measurement files never produce wrong numbers.

E-FAULT: every byte offset 0..len-1 of one file at a time (first / middle / last replica) of every
synthetic file set of C17, and of every exported archive (json.gz, xml.gz, csv.gz).
Oracle: outcome in {exception} u {exactly the observables of the complete records before the cut}."""
import os
import io
import gzip
import math
import shutil
import warnings
import contextlib
import numpy as np
from mc import engine, alpha
from mc.engine import Acc
from mc.synth import openqcd as sq
from mc.synth import sfcf as sf

LEVEL = 'fault_enumeration'
RULE = ('every truncation offset 0..len-1 (binary and text files byte-wise) of one file at a time - the file of the first, middle '
        'and last replica - for: openQCD reweighting factors v1.4 / 1.6 / 2.0, openQCD ms.dat (read_qtop, extract_t0 with and '
        'without plaquette), sfqcd gfms (read_qtop Wilson and Zeuthen flow), ms5_xsf, sfcf separate / compact / appended '
        'layout (bi, bb and bib correlators; first, middle and last block of the file; first and last configuration; quick: byte-wise around the requested block and the file end and every 7th byte elsewhere, thorough: every byte); every '
        'offset of the compressed stream of json.gz / xml.gz (dobs, pobs) / csv.gz exports.  Outcome classes are counted; '
        'non-trivial = the offset lies strictly inside a record (not on a record boundary)')
ASSUMPTIONS = ['binary formats: a complete record is the full on-disk record (configuration number and all its blocks); a result that '
               'contains a partially written record is a violation even if the numbers taken from it happen to be intact',
               'sfcf text formats: the unit is the requested correlator block of a configuration; a cut after that block may return the '
               'full, correct numbers; any returned number must equal the stored one for its configuration and no complete '
               'configuration may be missing',
               'one file is truncated at a time']
EXHAUSTIVE = True
CHUNK = 1


def tmpdir(tag):
    d = '/dev/shm/verif_c18_%d_%s' % (os.getpid(), tag)
    shutil.rmtree(d, ignore_errors=True)
    os.makedirs(d)
    return d


@contextlib.contextmanager
def quiet():
    with warnings.catch_warnings():
        warnings.simplefilter('ignore')
        with contextlib.redirect_stdout(io.StringIO()):
            yield


def samples(o, n):
    return np.asarray(o.deltas[n]) + o.r_values[n]


def build(tier, seed):
    cases = []
    for version in ('1.4', '1.6', '2.0'):
        for which in (0, 1, 2):
            cases.append({'kind': 'rwms', 'version': version, 'which': which})
    for which in ((0, 1) if tier == 'quick' else (0, 1)):
        cases.append({'kind': 'msdat', 'reader': 'qtop', 'which': which})
        cases.append({'kind': 'msdat', 'reader': 't0', 'which': which})
        cases.append({'kind': 'msdat', 'reader': 't0-plaquette', 'which': which})
        cases.append({'kind': 'gfms', 'zeuthen': False, 'which': which})
        cases.append({'kind': 'gfms', 'zeuthen': True, 'which': which})
        cases.append({'kind': 'ms5', 'which': which})
    for layout in ('o', 'c', 'a'):
        for name in ('f_A', 'f_1', 'F_V0'):
            for block in ('first', 'middle', 'last'):
                cases.append({'kind': 'sfcf', 'layout': layout, 'name': name, 'block': block})
    # several correlators in one call (read_sfcf_multi), requested in an order that is not their order in the file
    for layout in ('c', 'o'):
        for order in (['f_P', 'f_A'], ['f_A', 'F_V0'], ['f_1', 'f_P', 'F_V0']):
            cases.append({'kind': 'sfcf-multi', 'layout': layout, 'names': order})
    for arch in ('json', 'dobs', 'pobs', 'csv'):
        cases.append({'kind': 'archive', 'arch': arch})
    return cases


def run_case(case):
    pe = engine.import_pyerrors()
    acc = Acc()
    d = tmpdir(case['kind'])
    try:
        with quiet():
            {'rwms': run_rwms, 'msdat': run_msdat, 'gfms': run_gfms, 'ms5': run_ms5, 'sfcf': run_sfcf, 'sfcf-multi': run_sfcf_multi, 'archive': run_archive}[case['kind']](pe, acc, case, d)
    finally:
        shutil.rmtree(d, ignore_errors=True)
    return acc


def sweep(acc, case, sig, path, bounds, call, judge, offsets=None):
    """Truncates 'path' at every offset; call() runs the reader; judge(result, m) -> None or text, where m is the number
    of complete records before the cut."""
    data = open(path, 'rb').read()
    classes = {}
    offs = range(len(data)) if offsets is None else offsets
    # call history: the complete file is read first (whatever a reader keeps between calls is then filled with the complete data),
    # and again after the sweep (must still be the complete data)
    try:
        full = call()
    except Exception as e:
        raise engine.MachineryError('the untruncated file set cannot be read: %r' % (e,))
    nrec = len(bounds) - 1
    bad = judge(full, nrec)
    if bad:
        acc.fail(sig + ':complete-file', dict(case, offset=len(data)), 'complete file: %s' % bad)
    for b in offs:
        with open(path, 'wb') as f:
            f.write(data[:b])
        m = sum(1 for e in bounds[1:] if e <= b)
        inside = b not in bounds
        sub = dict(case, offset=b)
        try:
            res = call()
        except Exception as e:
            acc.ok((sig, b), inside, 'exception' if inside else 'exception(at a record boundary)')
            continue
        bad = judge(res, m)
        if bad:
            acc.fail(sig, sub, 'file cut at byte %d of %d (%d complete records, cut %s): %s' % (b, len(data), m, 'inside a record' if inside else 'on a record boundary', bad))
        else:
            acc.ok((sig, b), inside, 'complete-prefix' if inside else 'complete-prefix(at a record boundary)')
    with open(path, 'wb') as f:
        f.write(data)
    try:
        bad = judge(call(), nrec)
    except Exception as e:
        bad = 'raised %s: %s' % (type(e).__name__, e)
    if bad:
        acc.fail(sig + ':complete-file-after-sweep', dict(case, offset=len(data)), 'the complete file read again after the truncated ones: %s' % bad)
    else:
        acc.ok((sig, 'complete-after'), True, 'complete-file-after-truncated-reads')


# ----------------------------------------------------------------------------- binary formats
def run_rwms(pe, acc, case, d):
    version, which = case['version'], case['which']
    reps = [1, 2, 10]
    nfct, nsrc = ([2, 1], [2, 3]) if version != '1.4' else ([1, 1], [2, 3])
    nmeas = {1: 8, 2: 9, 10: 7}
    prefix = 'ensA'
    bounds, truth = {}, {}
    for r in reps:
        bounds[r] = sq.write_rwms(os.path.join(d, '%sr%d.ms1.dat' % (prefix, r)), version, r, sq.traj_numbers(nmeas[r], 1, 1), nfct, nsrc)
        truth[r] = sq.truth_rwms(version, r, nmeas[r], nfct, nsrc)
    target = reps[which]

    def call():
        return pe.input.openQCD.read_rwms(d, prefix, version=version, postfix='ms1')

    def judge(res, m):
        if len(res) != len(nsrc):
            return '%d observables' % len(res)
        for i, o in enumerate(res):
            for r in reps:
                n = '%s|r%d' % (prefix, r)
                k = m if r == target else nmeas[r]
                if list(o.idl[n]) != list(range(1, k + 1)):
                    return 'replica r%d: configurations %s, the complete records are 1..%d' % (r, list(o.idl[n]), k)
                if not np.allclose(samples(o, n), truth[r][i][:k], rtol=1e-13, atol=0):
                    return 'replica r%d factor %d: numbers differ from the stored ones' % (r, i)
        return None
    sweep(acc, case, 'rwms:%s' % version, os.path.join(d, '%sr%d.ms1.dat' % (prefix, target)), bounds[target], call, judge)
    acc.sample({'kind': 'rwms', 'version': version, 'truncated_replica': target, 'file_bytes': bounds[target][-1], 'records': nmeas[target]})


def run_msdat(pe, acc, case, d):
    reader, which = case['reader'], case['which']
    reps = [1, 2]
    prefix = 'ensB'
    dn, nn, tmax, eps, L = 1, 12, 4, 0.05, 2
    nmeas = {1: 7, 2: 8}
    bounds = {}
    for r in reps:
        bounds[r] = sq.write_msdat(os.path.join(d, '%sr%d.ms.dat' % (prefix, r)), r, sq.traj_numbers(nmeas[r], 1, 1), dn, nn, tmax, eps)
    target = reps[which]
    names = {r: '%s|r%d' % (prefix, r) for r in reps}
    index_aim = round((0.3 * L) ** 2 / 8 / eps / dn)
    from checks.c17 import expected_root
    from mc import ref, compare

    def call():
        if reader == 'qtop':
            return pe.input.openQCD.read_qtop(d, prefix, 0.3, L=L)
        return pe.input.openQCD.extract_t0(d, prefix, dtr_read=1, xmin=1, spatial_extent=1, fit_range=2, plaquette=(reader == 't0-plaquette'), c=0.5)

    def judge(res, m):
        ks = {r: (m if r == target else nmeas[r]) for r in reps}
        if reader == 'qtop':
            for r in reps:
                n = names[r]
                if list(res.idl[n]) != list(range(1, ks[r] + 1)):
                    return 'replica r%d: configurations %s, the complete records are 1..%d' % (r, list(res.idl[n]), ks[r])
                exp = [math.fsum(sq.flow_value(r, k, 2, index_aim, t) for t in range(tmax)) for k in range(ks[r])]
                if not np.allclose(samples(res, n), exp, rtol=1e-12, atol=0):
                    return 'replica r%d: numbers differ from the stored ones' % r
            return None
        block = 0 if reader == 't0-plaquette' else 1
        E = {}
        for n_ in range(nn + 1):
            s_, i_ = {}, {}
            for r in reps:
                s_[names[r]] = [float(np.mean([sq.flow_value(r, k, block, n_, t) for t in range(1, tmax - 1)])) for k in range(ks[r])]
                i_[names[r]] = list(range(1, ks[r] + 1))
            E[n_] = (s_, i_)
        if any(k < 5 for k in ks.values()):
            return 'a result was returned although fewer than five complete records exist'
        exp = expected_root(pe, E, [n_ * dn * eps for n_ in range(nn + 1)], 0.5, 2, list(names.values()))
        return ref.close(exp, compare.to_ref(res), 1e-7)
    sweep(acc, case, 'msdat:%s' % reader, os.path.join(d, '%sr%d.ms.dat' % (prefix, target)), bounds[target], call, judge)
    acc.sample({'kind': 'msdat', 'reader': reader, 'truncated_replica': target, 'file_bytes': bounds[target][-1], 'records': nmeas[target]})


def run_gfms(pe, acc, case, d):
    zeuthen, which = case['zeuthen'], case['which']
    reps = [1, 2]
    prefix = 'ensC'
    ncs, tmax, L, cmax = 2, 3, 4, 0.4
    nmeas = {1: 7, 2: 8}
    bounds = {}
    for r in reps:
        bounds[r] = sq.write_gfms(os.path.join(d, '%sr%d.gfms.dat' % (prefix, r)), r, sq.traj_numbers(nmeas[r], 1, 1), 2, ncs, tmax, L, cmax)
    target = reps[which]
    names = {r: '%s|r%d' % (prefix, r) for r in reps}
    jc = 1
    c = cmax / ncs * jc

    def call():
        return pe.input.openQCD.read_qtop(d, prefix, c, version='sfqcd', Zeuthen_flow=zeuthen)

    def judge(res, m):
        for r in reps:
            n = names[r]
            k = m if r == target else nmeas[r]
            if list(res.idl[n]) != list(range(1, k + 1)):
                return 'replica r%d: configurations %s, the complete records are 1..%d' % (r, list(res.idl[n]), k)
            exp = [math.fsum(sq.gf_value(r, kk, jc, 0 if zeuthen else 8, t) for t in range(tmax)) for kk in range(k)]
            if not np.allclose(samples(res, n), exp, rtol=1e-12, atol=0):
                return 'replica r%d: numbers differ from the stored ones' % r
        return None
    sweep(acc, case, 'gfms:%s' % ('zeuthen' if zeuthen else 'wilson'), os.path.join(d, '%sr%d.gfms.dat' % (prefix, target)), bounds[target], call, judge)
    acc.sample({'kind': 'gfms', 'zeuthen': zeuthen, 'truncated_replica': target, 'file_bytes': bounds[target][-1]})


def run_ms5(pe, acc, case, d):
    which = case['which']
    reps = [1, 2]
    prefix = 'ensD'
    tmax = 3
    cfgl = {1: list(range(1, 8)), 2: list(range(2, 18, 2))}
    bounds = {}
    for r in reps:
        bounds[r] = sq.write_ms5_xsf(os.path.join(d, '%sr%d.ms5_xsf_dd.dat' % (prefix, r)), r, cfgl[r], tmax)
    target = reps[which]
    for corr in ('gA', 'l1'):
        ci = (sq.PLACES_BI + sq.PLACES_BB).index(corr)

        def call():
            return pe.input.openQCD.read_ms5_xsf(d, prefix, 'dd', corr)

        def judge(res, m):
            entries = [res] if corr in sq.PLACES_BB else [res.content[t][0] for t in range(tmax)]
            for t, e in enumerate(entries):
                for im, part in ((0, e.real), (1, e.imag)):
                    for r in reps:
                        n = '%s|r%d' % (prefix, r)
                        cl = cfgl[r][:m] if r == target else cfgl[r]
                        if list(part.idl[n]) != cl:
                            return 'replica r%d: configurations %s, the complete records are %s' % (r, list(part.idl[n]), cl)
                        if not np.allclose(samples(part, n), [sq.xsf_value(r, c_, ci, t, im) for c_ in cl], rtol=1e-14, atol=0):
                            return 'replica r%d: numbers differ from the stored ones' % r
            return None
        sweep(acc, dict(case, corr=corr), 'ms5:%s' % corr, os.path.join(d, '%sr%d.ms5_xsf_dd.dat' % (prefix, target)), bounds[target], call, judge)
    acc.sample({'kind': 'ms5_xsf', 'truncated_replica': target, 'file_bytes': bounds[target][-1]})


# ----------------------------------------------------------------------------- sfcf text formats
def run_sfcf(pe, acc, case, d):
    layout, name, block = case['layout'], case['name'], case['block']
    from checks.c17_sfcf import PREFIX, VERSION
    reps = [1, 2]
    cfgs = {1: list(range(1, 8)), 2: list(range(2, 16, 2))}
    names = sorted(sf.CORRS)
    for r in reps:
        {'o': sf.write_separate, 'c': sf.write_compact, 'a': sf.write_appended}[layout](d, PREFIX, r, cfgs[r], names)
    typ, T = sf.CORRS[name]
    qi, off, w, w2 = {'first': (0, 0, 0, 0), 'middle': (1, 0, 1, 1 if typ != 'bi' else 0), 'last': (1, 1, 2, 2 if typ != 'bi' else 0)}[block]
    rd = pe.input.sfcf

    def call():
        return rd.read_sfcf(d, PREFIX, name, quarks=sf.QUARKS[qi], corr_type=typ, noffset=off, wf=w, wf2=w2, version=VERSION[layout], silent=True)

    targets = []
    if layout == 'o':
        for c in (cfgs[1][0], cfgs[1][3], cfgs[1][-1]):
            targets.append((os.path.join(d, '%sr1' % PREFIX, 'cfg%d' % c, name), 1, c))
    elif layout == 'c':
        for c in (cfgs[1][0], cfgs[1][-1]):
            targets.append((os.path.join(d, '%sr1' % PREFIX, '%sr1_n%d' % (PREFIX, c)), 1, c))
    else:
        targets.append((os.path.join(d, '%sr1.%s' % (PREFIX, name)), 1, None))
        targets.append((os.path.join(d, '%sr2.%s' % (PREFIX, name)), 2, None))
    for path, trep, tcfg in targets:
        data = open(path, 'rb').read()
        if layout == 'a':
            # record = one [run] chunk per configuration
            starts = [i for i in range(len(data)) if data.startswith(b'[run]', i)]
            bounds = starts + [len(data)]
        else:
            bounds = [0, len(data)]

        def judge(res, m):
            if len(res) != T:
                return '%d timeslices' % len(res)
            for t in range(T):
                o = res[t]
                for r in reps:
                    n = '%s|r%d' % (PREFIX, r)
                    got_cfgs = list(o.idl[n])
                    if r != trep:
                        need = cfgs[r]
                        if got_cfgs != need:
                            return 'replica r%d (untouched file): configurations %s' % (r, got_cfgs)
                    else:
                        complete = cfgs[r][:m] if layout == 'a' else [c for c in cfgs[r] if c != tcfg]
                        # at most the record that contains the cut may be present in addition (its requested block can lie before the cut)
                        upper = cfgs[r][:m + 1] if layout == 'a' else cfgs[r]
                        if not set(complete) <= set(got_cfgs) or not set(got_cfgs) <= set(upper):
                            return 'replica r%d: configurations %s; complete records are %s' % (r, got_cfgs, complete)
                    exp = [sf.value(r, c, name, qi, off, w, w2, t, 0) for c in got_cfgs]
                    if not np.allclose(samples(o, n), exp, rtol=1e-15, atol=0):
                        k = int(np.argmax(np.abs(samples(o, n) - exp)))
                        return 'replica r%d timeslice %d: configuration %d carries %r, the stored number is %r' % (r, t, got_cfgs[k], samples(o, n)[k], exp[k])
            return None
        # byte-wise over the region of the requested block (+-200 bytes) and every 7th byte elsewhere (text headers)
        marker = ('name      %s\nquarks    %s\noffset    %d\nwf        %d' % (name, sf.QUARKS[qi], off, w)).encode()
        if typ != 'bi':
            marker += ('\nwf_2      %d' % w2).encode()
        offs = set(range(0, len(data), 7 if os.environ.get('VERIF_TIER', 'quick') == 'quick' else 1))
        pos = data.find(marker)
        while pos >= 0:
            offs |= set(range(max(0, pos - 60), min(len(data), pos + 60 + 60 * T + 120)))
            pos = data.find(marker, pos + 1)
        offs |= set(range(max(0, len(data) - 200), len(data)))
        sweep(acc, dict(case, file=os.path.relpath(path, d)), 'sfcf:%s:%s' % (layout, typ), path, bounds, call, judge, offsets=sorted(offs))
    acc.sample({'kind': 'sfcf', 'layout': layout, 'correlator': name, 'block': block, 'files_truncated': [os.path.relpath(p, d) for p, _, _ in targets]})


# ----------------------------------------------------------------------------- exported archives
def run_sfcf_multi(pe, acc, case, d):
    layout, nl = case['layout'], case['names']
    from checks.c17_sfcf import VERSION
    PREFIX = 'dataE'
    reps = [1, 2]
    cfgs = {1: list(range(1, 7)), 2: list(range(2, 12, 2))}
    names = sorted(sf.CORRS)
    for r in reps:
        {'o': sf.write_separate, 'c': sf.write_compact}[layout](d, PREFIX, r, cfgs[r], names)
    tl = [sf.CORRS[n][0] for n in nl]
    rd = pe.input.sfcf

    def call():
        return rd.read_sfcf_multi(d, PREFIX, list(nl), quarks_list=[sf.QUARKS[1]], corr_type_list=list(tl), noffset_list=[1], wf_list=[2], wf2_list=[2],
                                  version=VERSION[layout], silent=True)
    tcfg = cfgs[1][-1]
    targets = [os.path.join(d, '%sr1' % PREFIX, '%sr1_n%d' % (PREFIX, tcfg))] if layout == 'c' else [os.path.join(d, '%sr1' % PREFIX, 'cfg%d' % tcfg, n) for n in nl]
    for path in targets:
        data = open(path, 'rb').read()

        def judge(res, m):
            for n, typ in zip(nl, tl):
                T = sf.CORRS[n][1]
                w2 = 2 if typ != 'bi' else 0
                got = res[n][sf.QUARKS[1]]['1']['2'][str(w2) if typ != 'bi' else '0']
                if len(got) != T:
                    return '%s: %d timeslices' % (n, len(got))
                for t in range(T):
                    o = got[t]
                    for r in reps:
                        cn = '%s|r%d' % (PREFIX, r)
                        gc = list(o.idl[cn])
                        complete = cfgs[r] if r != 1 else [c for c in cfgs[r] if c != tcfg]
                        if not set(complete) <= set(gc) or not set(gc) <= set(cfgs[r]):
                            return '%s replica r%d: configurations %s; complete records are %s' % (n, r, gc, complete)
                        exp = [sf.value(r, c, n, 1, 1, 2, w2, t, 0) for c in gc]
                        if not np.allclose(samples(o, cn), exp, rtol=1e-15, atol=0):
                            k = int(np.argmax(np.abs(samples(o, cn) - exp)))
                            return '%s replica r%d timeslice %d: configuration %d carries %r, the stored number is %r' % (n, r, t, gc[k], samples(o, cn)[k], exp[k])
            return None
        offs = set(range(0, len(data), 7 if os.environ.get('VERIF_TIER', 'quick') == 'quick' else 1))
        for n, typ in zip(nl, tl):
            marker = ('name      %s\nquarks    %s\noffset    %d\nwf        %d' % (n, sf.QUARKS[1], 1, 2)).encode()
            if typ != 'bi':
                marker += ('\nwf_2      %d' % 2).encode()
            pos = data.find(marker)
            while pos >= 0:
                offs |= set(range(max(0, pos - 60), min(len(data), pos + 60 + 60 * sf.CORRS[n][1] + 120)))
                pos = data.find(marker, pos + 1)
        offs |= set(range(max(0, len(data) - 200), len(data)))
        sweep(acc, dict(case, file=os.path.relpath(path, d)), 'sfcf-multi:%s' % layout, path, [0, len(data)], call, judge, offsets=sorted(offs))
    acc.sample({'kind': 'sfcf-multi', 'layout': layout, 'correlators': nl, 'files_truncated': [os.path.relpath(p_, d) for p_ in targets]})


def run_archive(pe, acc, case, d):
    arch = case['arch']
    o1 = alpha.make_obs(pe, {'A|r1': 'c12', 'A|r2': 'irr'}, ('c18', 1), 'ar1', 1.0, 0.1)[0]
    o2 = alpha.make_obs(pe, {'A|r1': 'c12', 'A|r2': 'irr'}, ('c18', 2), 'white', 2.0, 0.1)[0]
    if arch == 'json':
        fn = os.path.join(d, 'a')
        pe.input.json.dump_to_json([o1, [o1, o2], pe.Corr([o1, None, o2])], fn, description='d')
        path = fn + '.json.gz'
        call = lambda: pe.input.json.load_json(fn, verbose=False)
    elif arch == 'dobs':
        fn = os.path.join(d, 'b')
        pe.input.dobs.write_dobs([o1, o2], fn, 'n')
        path = fn + '.xml.gz'
        call = lambda: pe.input.dobs.read_dobs(fn)
    elif arch == 'pobs':
        fn = os.path.join(d, 'c')
        pe.input.dobs.write_pobs([o1, o2], fn, 'n')
        path = fn + '.xml.gz'
        call = lambda: pe.input.dobs.read_pobs(fn, separator_insertion=1)
    else:
        import pandas as pd
        fn = os.path.join(d, 'e')
        df = pd.DataFrame({'i': [1, 2, 3], 'o': [o1, o2, o1 + o2]})
        pe.input.pandas.dump_df(df, fn)
        path = fn + '.csv.gz'
        call = lambda: pe.input.pandas.load_df(fn)
    data = open(path, 'rb').read()
    call()   # the complete archive loads
    for b in range(len(data)):
        with open(path, 'wb') as f:
            f.write(data[:b])
        try:
            res = call()
        except Exception:
            acc.ok((arch, b), True, 'rejected')
            continue
        acc.fail('archive:%s:partially-loaded' % arch, dict(case, offset=b), '%s archive cut at byte %d of %d was loaded: %r' % (arch, b, len(data), str(res)[:200]))
    acc.sample({'kind': 'archive', 'format': arch, 'compressed_bytes': len(data)})
