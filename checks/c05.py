"""C05 Reweighting, correlating and merging pair samples by configuration number.

E-PROD: every weight layout x every replica subset x every per-replica subset kind x both
normalisation modes x call form; all ordered pairs for correlate; all partitions (and block
orders) for merge_obs; misaligned requests must raise; flag set and inherited.
Oracle: dictionary look-ups by configuration number (mc.ref)."""
import os
import itertools
import numpy as np
from mc import engine, alpha, ref, compare
from mc.engine import Acc

LEVEL = 'exploration'
RULE = ('full product: 6 weight layouts (1..3 replicas; contiguous, strided, irregular) x every non-empty replica subset x '
        'per-replica subset kind {full, prefix, suffix, every-other, every-other / every-third up to the last configuration, irregular pick} x all_configs {False, True} x call '
        'form {Obs.reweight, pe.reweight list, Corr.reweight} x carrier of the configuration numbers {tight range, list, ndarray}; every subset with >= 5 configurations of four 8/9-configuration weight chains (thorough: every pair of subsets of a two-replica weight); every misalignment kind must raise; all ordered pairs of '
        'the layout alphabet for correlate (aligned -> product observable, otherwise exception; equally long but different lists on each single replica of 2- and 3-replica pairs) incl. Corr.correlate with '
        'Obs and Corr partners and undefined slices; every set partition of 2- and 3-replica observables in every block '
        'order for merge_obs; qtop_projection on every layout; the reweighted flag through one further arithmetic step and '
        'through merge_obs; operands compared before / after every call, every call repeated with the same objects.  Samples are functions of the configuration number.  Non-trivial = the observable lives on a '
        'proper subset of the weight, or several replicas, or a refusal is expected')
ASSUMPTIONS = ['weights and observables are smooth functions of the configuration number plus seeded noise, so positional '
               'pairing gives visibly different numbers', 'propagation of the ratio is the C01 reference rule']
EXHAUSTIVE = True
REPEAT = 2      # every case is evaluated twice in the same process: the second verdict must equal the first (call-history oracle)
CHUNK = 2

W_LAYOUTS = [
    {'A|r1': list(range(1, 13))},
    {'A|r1': list(range(2, 26, 2))},
    {'A|r1': [1, 2, 4, 5, 7, 8, 11, 12, 13, 14, 16, 19]},
    {'A|r1': list(range(1, 13)), 'A|r2': list(range(3, 36, 3))},
    {'A|r1': list(range(1, 13)), 'A|r10': [1, 2, 4, 5, 7, 8, 11, 12, 13, 14, 16, 19], 'A|r2': list(range(2, 22, 2))},
    {'A': list(range(5, 17))},
]
KINDS = ['full', 'prefix', 'suffix', 'every-other', 'every-other-to-end', 'every-third-to-end', 'pick']


def subset(cfgs, kind):
    if kind == 'full':
        return list(cfgs)
    if kind == 'prefix':
        return list(cfgs[:7])
    if kind == 'suffix':
        return list(cfgs[-6:])
    if kind == 'every-other':
        return list(cfgs[::2])
    if kind == 'every-other-to-end':       # strided subset that contains the weight's LAST configuration
        return list(cfgs[1::2])
    if kind == 'every-third-to-end':
        return list(cfgs[2::3]) if len(cfgs[2::3]) >= 5 else list(cfgs[-1::-2][::-1][-5:])
    if kind == 'pick':
        return [cfgs[i] for i in (0, 1, 3, 6, 7, 9)]
    raise ValueError(kind)


def wfun(name, c, r):
    return 1.0 + c / 50.0 + 0.3 * (hash_name(name) % 3) + 0.05 * r


def ofun(name, c, r):
    return np.sin(0.7 * c) + 0.02 * c + 0.4 * (hash_name(name) % 2) + 0.1 * r


def hash_name(n):
    return sum(ord(ch) for ch in n)


def samples_for(layout, fun, key):
    out = {}
    for n, cfgs in layout.items():
        r = alpha.rng('c05', key, n).normal(size=len(cfgs))
        out[n] = np.array([fun(n, c, x) for c, x in zip(cfgs, r)])
    return out


def mk(pe, layout, samples, carrier='auto'):
    names = sorted(layout)
    return pe.Obs([samples[n] for n in names], names, idl=[alpha.idl_carrier(layout[n], carrier) for n in names])


def build(tier, seed):
    cases = []
    for wi, wl in enumerate(W_LAYOUTS):
        reps = sorted(wl)
        for k in range(1, len(reps) + 1):
            for sub in itertools.combinations(reps, k):
                cases.append({'kind': 'rw', 'w': wi, 'reps': list(sub)})
        cases.append({'kind': 'rw-bad', 'w': wi})
    # every subset: the observable on EVERY subset (>= 5 configurations) of a short weight chain
    for wname in SHORT_W:
        cases.append({'kind': 'rw-allsubsets', 'w': wname})
    for wscale in (3e-13, 1e-9, 1e9):
        cases.append({'kind': 'rw-allsubsets', 'w': 'irregular8', 'wscale': wscale})
    if tier == 'thorough':
        # two replicas: every pair of subsets (one per replica) of two 7-configuration chains, and every single-replica subset
        for first in range(0, 29, 4):
            cases.append({'kind': 'rw-allsubsets2', 'block': first})
    cases.append({'kind': 'correlate'})
    cases.append({'kind': 'corr-correlate'})
    cases.append({'kind': 'merge'})
    cases.append({'kind': 'qtop'})
    return cases


def expected_reweight(wl, wsamp, ol, osamp, all_configs):
    wdict = {n: dict(zip(wl[n], wsamp[n])) for n in wl}
    num = {n: np.array([wdict[n][c] * x for c, x in zip(ol[n], osamp[n])]) for n in ol}
    den = {n: np.array([wdict[n][c] for c in ol[n]]) for n in ol}
    rn = ref.r_from_samples(num, ol)
    rd = ref.r_from_samples(wsamp, wl) if all_configs else ref.r_from_samples(den, ol)
    exp = ref.r_propagate(rn['value'] / rd['value'], [1 / rd['value'], -rn['value'] / rd['value'] ** 2], [rn, rd])
    exp['rw'] = True
    return exp


def snap(o):
    """comparable fingerprint of an operand (value, chains, configuration lists, fluctuations, replica means, flag)"""
    return (float(o.value).hex(), tuple(o.names), tuple((n, tuple(o.idl[n]), o.deltas[n].tobytes(), float(o.r_values[n]).hex()) for n in sorted(o.deltas)),
            bool(o.reweighted), o.N)


def check_flag_inherited(pe, res, what):
    """flag set on the result and inherited by everything derived from it."""
    if res.reweighted is not True and res.reweighted != True:  # noqa: E712
        return '%s: reweighted flag not set' % what
    other = pe.Obs([np.arange(6) * 0.1 + 1.0], ['Z|r1'])
    for nm, d in (('*2', res * 2), ('+other', res + other), ('sin', np.sin(res)), ('other/res', other / res)):
        if not bool(d.reweighted):
            return '%s: flag lost by derived observable %s' % (what, nm)
    # matrix routes (single-chain results only: the jackknife-based functions need one chain)
    if len(res.names) == 1:
        plain = pe.Obs([res.deltas[res.names[0]] * 0.5 + 2.0], list(res.names), idl=[res.idl[res.names[0]]])
        m = np.array([[res, plain], [plain, plain]], dtype=object)
        p2 = np.array([[plain, plain], [plain, 2.0 * plain]], dtype=object)
        cm = np.array([[pe.CObs(plain, res), pe.CObs(plain, plain)], [pe.CObs(plain, plain), pe.CObs(plain, plain)]], dtype=object)
        routes = (('linalg.matmul', lambda: pe.linalg.matmul(m, p2)[0, 0]), ('linalg.jack_matmul', lambda: pe.linalg.jack_matmul(m, p2)[0, 0]),
                  ('linalg.jack_matmul (second factor)', lambda: pe.linalg.jack_matmul(p2, m)[0, 0]), ('linalg.einsum', lambda: pe.linalg.einsum('ij,jk->ik', m, p2)[0, 1]),
                  ('linalg.einsum (scalar)', lambda: pe.linalg.einsum('ij,ji', p2, m)), ('linalg.inv', lambda: pe.linalg.inv(m + 3 * np.eye(2))[1, 1]),
                  ('linalg.jack_matmul (complex)', lambda: pe.linalg.jack_matmul(cm, p2)[0, 0].real))
        for nm, f in routes:
            try:
                d = f()
            except Exception as e:
                return '%s: %s raised %s: %s' % (what, nm, type(e).__name__, e)
            if not bool(d.reweighted):
                return '%s: flag lost by %s' % (what, nm)
        clean = pe.linalg.jack_matmul(p2, p2)[0, 0]
        if bool(clean.reweighted):
            return '%s: jack_matmul of observables that were never reweighted carries the flag' % what
    return None


SHORT_W = {
    'contiguous8': {'A|r1': list(range(1, 9))},
    'strided8': {'A|r1': list(range(3, 27, 3))},
    'irregular8': {'A|r1': [2, 3, 5, 8, 9, 12, 14, 15]},
    'shifted-strided9': {'A|r1': list(range(10, 28, 2))},
}


def all_subsets(cfgs, kmin=5):
    for k in range(kmin, len(cfgs) + 1):
        for sub in itertools.combinations(cfgs, k):
            yield list(sub)


def run_rw_allsubsets(pe, acc, case):
    wl = SHORT_W[case['w']]
    wsamp = samples_for(wl, wfun, ('ws', case['w']))
    # the reweighting factor of another magnitude (exp(-dS) weights are tiny or huge): <w o> / <w> does not depend on it
    wscale = case.get('wscale', 1.0)
    wsamp = {n: wscale * v for n, v in wsamp.items()}
    w = mk(pe, wl, wsamp)
    n0 = sorted(wl)[0]
    n = 0
    for sub in all_subsets(wl[n0]):
        ol = {n0: sub}
        osamp = samples_for(ol, ofun, ('os', case['w'], tuple(sub)))
        for allc, carrier in itertools.product((False, True), ('auto', 'list')):
            o = mk(pe, ol, osamp, carrier)
            s = dict(case, subset=sub, all=allc, carrier=carrier)
            if 'subset' in case and (case['subset'], case['all'], case.get('carrier', 'auto')) != (sub, allc, carrier):
                continue
            try:
                before = (snap(w), snap(o))
                res = pe.reweight(w, [o], all_configs=allc)[0]
                bad = ref.close(expected_reweight(wl, wsamp, ol, osamp, allc), compare.to_ref(res), 1e-10)
                if not bad and (snap(w), snap(o)) != before:
                    bad = 'reweight modified %s' % ('the weight' if snap(w) != before[0] else 'the observable')
                if not bad:
                    res2 = pe.reweight(w, [o], all_configs=allc)[0]
                    if snap(res2) != snap(res):
                        bad = 'a second call with the same objects gives another result'
            except Exception as e:
                bad = 'raised %s: %s' % (type(e).__name__, e)
            if bad:
                acc.fail('reweight:subset:%s' % ('all' if allc else 'own'), s, 'weight on %s, observable on the subset %s, all_configs=%s: %s' % (wl[n0], sub, allc, bad))
            else:
                acc.ok(('rws', case['w'], case.get('wscale', 1.0), tuple(sub), allc, carrier), len(sub) < len(wl[n0]), 'reweight-subset')
        n += 1
    acc.sample({'kind': 'rw-allsubsets', 'weight': wl, 'subsets': n})


def run_rw_allsubsets2(pe, acc, case):
    wl = {'A|r1': list(range(1, 8)), 'A|r2': [2, 4, 5, 8, 10, 11, 14]}
    wsamp = samples_for(wl, wfun, ('ws2',))
    w = mk(pe, wl, wsamp)
    s1 = list(all_subsets(wl['A|r1']))      # 29 subsets each
    s2 = list(all_subsets(wl['A|r2']))
    for a in s1[case['block']:case['block'] + 4]:
        for b in s2 + [None]:
            ol = {'A|r1': a} if b is None else {'A|r1': a, 'A|r2': b}
            osamp = samples_for(ol, ofun, ('os2', tuple(a), tuple(b or ())))
            o = mk(pe, ol, osamp)
            for allc in (False, True):
                s = dict(case, a=a, b=b, all=allc)
                try:
                    res = pe.reweight(w, [o], all_configs=allc)[0]
                    bad = ref.close(expected_reweight(wl, wsamp, ol, osamp, allc), compare.to_ref(res), 1e-10)
                except Exception as e:
                    bad = 'raised %s: %s' % (type(e).__name__, e)
                if bad:
                    acc.fail('reweight:subset2:%s' % ('all' if allc else 'own'), s, 'two-replica weight, observable on %s / %s, all_configs=%s: %s' % (a, b, allc, bad))
                else:
                    acc.ok(('rws2', tuple(a), tuple(b or ()), allc), True, 'reweight-subset2')
    acc.sample({'kind': 'rw-allsubsets2', 'block': case['block'], 'pairs': 4 * 30})


def run_case(case):
    pe = engine.import_pyerrors()
    acc = Acc()
    k = case['kind']
    if k == 'rw-allsubsets':
        run_rw_allsubsets(pe, acc, case)
    elif k == 'rw-allsubsets2':
        run_rw_allsubsets2(pe, acc, case)
    elif k == 'rw':
        run_rw(pe, acc, case)
    elif k == 'rw-bad':
        run_rw_bad(pe, acc, case)
    elif k == 'correlate':
        run_correlate(pe, acc, case)
    elif k == 'corr-correlate':
        run_corr_correlate(pe, acc, case)
    elif k == 'merge':
        run_merge(pe, acc, case)
    elif k == 'qtop':
        run_qtop(pe, acc, case)
    return acc


def run_rw(pe, acc, case):
    wl = W_LAYOUTS[case['w']]
    wsamp = samples_for(wl, wfun, ('w', case['w']))
    w = mk(pe, wl, wsamp)
    reps = case['reps']
    combos = [tuple(case['kinds'])] if 'kinds' in case else list(itertools.product(KINDS, repeat=len(reps)))
    for kinds in combos:
        ol = {n: subset(wl[n], kd) for n, kd in zip(reps, kinds)}
        osamp = samples_for(ol, ofun, ('o', case['w'], tuple(reps), kinds))
        o2l = {n: subset(wl[n], 'prefix') for n in reps}
        o2samp = samples_for(o2l, ofun, ('o2', case['w'], tuple(reps)))
        o2 = mk(pe, o2l, o2samp)
        for allc in ([case['all']] if 'all' in case else (False, True)):
            exp = expected_reweight(wl, wsamp, ol, osamp, allc)
            exp2 = expected_reweight(wl, wsamp, o2l, o2samp, allc)
            for form, carrier in ([(case['form'], case.get('carrier', 'auto'))] if 'form' in case else itertools.product(('method', 'list', 'corr'), ('auto', 'list', 'ndarray'))):
                # the observable's configuration numbers handed over as tight range / explicit list / ndarray
                o = mk(pe, ol, osamp, carrier)
                sub = dict(case, kinds=list(kinds), all=allc, form=form, carrier=carrier)
                sig = 'reweight:%s:%s' % ('all' if allc else 'own', form)
                try:
                    if form == 'method':
                        res = [o.reweight(w, all_configs=True)] if allc else [o.reweight(w)]      # the method documents all_configs as well
                        exps = [exp]
                    elif form == 'list':
                        res = pe.reweight(w, [o, o2], all_configs=allc)
                        exps = [exp, exp2]
                    else:
                        c = pe.Corr([o, None, 2 * o - 1])   # a correlator needs one configuration list for all slices
                        before = [None if x is None else snap(x[0]) for x in c.content] + [snap(w)]
                        rc = c.reweight(w, all_configs=allc)
                        if rc.T != 3 or rc.content[1] is not None:
                            acc.fail(sig + ':corr-shape', sub, 'Corr.reweight changed T or the undefined slice')
                            continue
                        res = [rc.content[0][0], rc.content[2][0]]
                        # the correlator that was reweighted is untouched and can be reweighted again with the same result
                        if [None if x is None else snap(x[0]) for x in c.content] + [snap(w)] != before:
                            acc.fail(sig + ':mutates-argument', sub, 'Corr.reweight modified the correlator it was called on (or the weight)')
                            continue
                        rc2 = c.reweight(w, all_configs=allc)
                        if [snap(rc2.content[t][0]) for t in (0, 2)] != [snap(x) for x in res]:
                            acc.fail(sig + ':second-call-differs', sub, 'a second Corr.reweight on the same correlator gives another result')
                            continue
                        arr = np.array([o, 2 * o - 1], dtype=object)
                        ra = pe.reweight(w, arr, all_configs=allc)
                        if not all(isinstance(x, pe.Obs) and not x.reweighted for x in arr) or [snap(x) for x in ra] != [snap(x) for x in res]:
                            acc.fail(sig + ':ndarray-argument', sub, 'reweight of an ndarray of observables changed the array or differs from the Corr result')
                            continue
                        exps = [exp, expected_reweight(wl, wsamp, ol, {n: 2 * osamp[n] - 1 for n in osamp}, allc)]
                except Exception as e:
                    acc.fail(sig + ':raised', sub, 'aligned reweighting raised %s: %s' % (type(e).__name__, e))
                    continue
                bad = None
                for r, e in zip(res, exps):
                    bad = ref.close(e, compare.to_ref(r), 1e-10) or check_flag_inherited(pe, r, 'reweight')
                    if bad:
                        break
                if bad:
                    acc.fail(sig, sub, 'weight %s, observable on %s (%s), all_configs=%s via %s: %s' % (
                        sorted(wl), reps, kinds, allc, form, bad))
                else:
                    acc.ok((case['w'], tuple(reps), kinds, allc, form, carrier), set(kinds) != {'full'} or len(reps) < len(wl) or len(wl) > 1, 'reweight')
    # list form with ALL subset-kind combinations in one call, forward and reversed: entries with equally many
    # but different configurations (suffix / every-other / pick) must not influence each other
    if 'kinds' not in case:
        entries = []
        for kinds in combos:
            ol = {n: subset(wl[n], kd) for n, kd in zip(reps, kinds)}
            osamp = samples_for(ol, ofun, ('o', case['w'], tuple(reps), kinds))
            entries.append((kinds, ol, osamp, mk(pe, ol, osamp)))
        for allc in (False, True):
            for order in ('fwd', 'rev'):
                ent = entries if order == 'fwd' else entries[::-1]
                sub = dict(case, all=allc, form='biglist', order=order)
                try:
                    res = pe.reweight(w, [e[3] for e in ent], all_configs=allc)
                except Exception as e:
                    acc.fail('reweight:biglist:raised', sub, 'list of %d aligned observables raised %r' % (len(ent), e))
                    continue
                bad = None
                for (kinds, ol, osamp, o), r in zip(ent, res):
                    bad = ref.close(expected_reweight(wl, wsamp, ol, osamp, allc), compare.to_ref(r), 1e-10)
                    if bad:
                        bad = 'entry with subset kinds %s: %s' % (kinds, bad)
                        break
                if bad:
                    acc.fail('reweight:biglist', sub, 'weight %s, %d observables in one call (%s order), all_configs=%s: %s' % (sorted(wl), len(ent), order, allc, bad))
                else:
                    acc.ok((case['w'], tuple(reps), 'biglist', allc, order), True, 'reweight-list-of-all-kinds')
    acc.sample({'kind': 'reweight', 'weight_chains': sorted(wl), 'observable_replicas': reps, 'subset_kinds': KINDS, 'all_configs': [False, True]})


def run_rw_bad(pe, acc, case):
    wl = W_LAYOUTS[case['w']]
    wsamp = samples_for(wl, wfun, ('w', case['w']))
    w = mk(pe, wl, wsamp)
    n0 = sorted(wl)[0]
    bads = {}
    # a configuration the weight lacks (before, inside a hole / beyond the end)
    extra = [c for c in range(wl[n0][0] - 1, wl[n0][-1] + 3) if c not in wl[n0] and c > 0]
    for ex in extra[:3] + extra[-1:]:
        ol = {n0: sorted(set(subset(wl[n0], 'prefix')) | {ex})}
        bads['extra-config-%d' % ex] = mk(pe, ol, samples_for(ol, ofun, 'b'))
    # a replica / ensemble the weight lacks
    ens = n0.split('|')[0]
    ol = {n0: subset(wl[n0], 'full'), ens + '|zz': list(range(1, 8))}
    if '|' in n0:
        bads['extra-replica'] = mk(pe, ol, samples_for(ol, ofun, 'b2'))
    ol = {'Q|r1': subset(wl[n0], 'full')}
    bads['other-ensemble'] = mk(pe, ol, samples_for(ol, ofun, 'b3'))
    good = mk(pe, {n0: wl[n0]}, samples_for({n0: wl[n0]}, ofun, 'b4'))
    bads['covariance-input'] = good * pe.cov_Obs(1.0, 0.01, 'cv1')
    bads['several-ensembles'] = good + bads['other-ensemble']
    # a weight that itself carries a covariance input (with an otherwise perfectly aligned observable)
    wcov = w * pe.cov_Obs(1.0, 0.01, 'cvw')
    for allc in (False, True):
        for form in ('function', 'method', 'corr'):
            sub = dict(case, bad='weight-with-covariance-input', all=allc, form=form)
            try:
                if form == 'function':
                    r = pe.reweight(wcov, [good], all_configs=allc)
                elif form == 'method':
                    r = good.reweight(wcov, all_configs=allc)
                else:
                    r = pe.Corr([good, good]).reweight(wcov, all_configs=allc)
                acc.fail('reweight:misaligned-accepted:weight-with-covariance-input', sub, 'a weight containing a covariance input was accepted (%s, all_configs=%s): %r' % (form, allc, r))
            except Exception:
                acc.ok(('bad', case['w'], 'wcov', allc, form), True, 'refused')
    for nm, o in bads.items():
        for allc in (False, True):
            sub = dict(case, bad=nm, all=allc)
            try:
                r = pe.reweight(w, [o], all_configs=allc)
                acc.fail('reweight:misaligned-accepted:' + nm.split('-')[0] + '-' + nm.split('-')[1] if nm.startswith('extra') else 'reweight:misaligned-accepted:' + nm, sub,
                         'misaligned request (%s) returned %r' % (nm, r[0]))
            except Exception:
                acc.ok(('bad', case['w'], nm, allc), True, 'refused')
    acc.sample({'kind': 'reweight-misaligned', 'weight_chains': sorted(wl), 'requests': sorted(bads)})


def run_correlate(pe, acc, case):
    tier = os.environ.get('VERIF_TIER', 'quick')
    lays = [{n: alpha.CFG[c] for n, c in l.items()} for l in alpha.layouts(tier)]
    for i, j in itertools.product(range(len(lays)), repeat=2):
        if 'i' in case and (case['i'], case['j']) != (i, j):
            continue
        la, lb = lays[i], lays[j]
        sa, sb = samples_for(la, wfun, ('ca', i)), samples_for(lb, ofun, ('cb', j))
        a, b = mk(pe, la, sa), mk(pe, lb, sb)
        sub = dict(case, i=i, j=j)
        aligned = {n: list(c) for n, c in la.items()} == {n: list(c) for n, c in lb.items()}
        try:
            r = pe.correlate(a, b)
            raised = None
        except Exception as e:
            raised = e
        if not aligned:
            if raised is None:
                acc.fail('correlate:misaligned-accepted', sub, 'correlate of %s with %s returned %r' % (alpha.lname(alpha.layouts(tier)[i]), alpha.lname(alpha.layouts(tier)[j]), r))
            else:
                acc.ok(('corr-bad', i, j), True, 'refused')
            continue
        if raised is not None:
            acc.fail('correlate:raised', sub, 'aligned correlate raised %r' % raised)
            continue
        prod = {n: sa[n] * sb[n] for n in la}
        exp = ref.r_from_samples(prod, la)
        bad = ref.close(exp, compare.to_ref(r), 1e-12)
        if not bad:
            before = (snap(a), snap(b))
            r2 = pe.correlate(a, b)
            r3 = pe.correlate(b, a)
            if (snap(a), snap(b)) != before:
                bad = 'correlate modified an operand'
            elif snap(r2) != snap(r):
                bad = 'a second call with the same objects gives another result'
            else:
                bad = ref.close(exp, compare.to_ref(r3), 1e-12)
                bad = bad and 'operands exchanged: ' + bad
        if not bad and r.reweighted is not False:
            bad = 'flag %r on correlate of plain observables' % (r.reweighted,)
        if bad:
            acc.fail('correlate:value', sub, 'correlate on %s: %s' % (sorted(la), bad))
        else:
            acc.ok(('corr', i), len(la) > 1 or i > 0, 'correlate')
    # flag propagation and refusals
    wl = W_LAYOUTS[3]
    w = mk(pe, wl, samples_for(wl, wfun, 'cw'))
    o = mk(pe, wl, samples_for(wl, ofun, 'co'))
    p = mk(pe, wl, samples_for(wl, ofun, 'cp'))
    rw = o.reweight(w)
    import warnings
    with warnings.catch_warnings():
        warnings.simplefilter('ignore')
        for nm, r in (('first', pe.correlate(rw, p)), ('second', pe.correlate(p, rw))):
            bad = check_flag_inherited(pe, r, 'correlate(%s reweighted)' % nm)
            if bad:
                acc.fail('correlate:flag', dict(case, which=nm), bad)
            else:
                acc.ok(('corr-flag', nm), True, 'flag')
    # equally long but different configuration lists on ONE replica (each in turn) of a several-replica pair: refused
    for li in (3, 4):
        base = W_LAYOUTS[li]
        xa = mk(pe, base, samples_for(base, wfun, ('cma', li)))
        for rname in sorted(base):
            for how in ('shift', 'stretch', 'one-entry'):
                lb = {n: list(c) for n, c in base.items()}
                c = lb[rname]
                lb[rname] = [v + (c[1] - c[0]) for v in c] if how == 'shift' else ([2 * v for v in c] if how == 'stretch' else c[:-1] + [c[-1] + 1])
                xb = mk(pe, lb, samples_for(lb, ofun, ('cmb', li, rname, how)))
                for nm, x, y in (('ab', xa, xb), ('ba', xb, xa)):
                    sub = dict(case, layout=li, replica=rname, how=how, order=nm)
                    try:
                        r = pe.correlate(x, y)
                        acc.fail('correlate:misaligned-accepted:one-replica', sub, 'replica %s of the second operand lives on %s instead of %s (same length; other replicas aligned): correlate returned %r' % (rname, lb[rname], base[rname], r))
                    except Exception:
                        acc.ok(('corr-bad3', li, rname, how, nm), True, 'refused')
    # ... and the same at large configuration numbers (one entry / the whole list moved by one step is a tiny RELATIVE change there)
    for off in (250000, 4000000, 2 ** 31 + 11):
        for bname, base_l in (('contiguous', list(range(1, 13))), ('strided', list(range(2, 26, 2))), ('irregular', [1, 2, 4, 5, 7, 8, 11, 12, 13, 14, 16, 19])):
            ca = [off + c for c in base_l]
            step = ca[1] - ca[0]
            xa = mk(pe, {'A|r1': ca}, samples_for({'A|r1': ca}, wfun, ('cla', off, bname)))
            ya = mk(pe, {'A|r1': ca}, samples_for({'A|r1': ca}, ofun, ('clb0', off, bname)))
            try:
                r = pe.correlate(xa, ya)
                exp = ref.r_from_samples({'A|r1': samples_for({'A|r1': ca}, wfun, ('cla', off, bname))['A|r1'] * samples_for({'A|r1': ca}, ofun, ('clb0', off, bname))['A|r1']}, {'A|r1': ca})
                bad = ref.close(exp, compare.to_ref(r), 1e-12)
            except Exception as e:
                bad = 'raised %s: %s' % (type(e).__name__, e)
            if bad:
                acc.fail('correlate:large-configuration-numbers', dict(case, offset=off, base=bname), 'aligned observables on configurations from %d on (%s): %s' % (off, bname, bad))
            else:
                acc.ok(('corr-large', off, bname), True, 'correlate')
            for how in ('shift', 'one-entry', 'first-entry'):
                cb = [c + step for c in ca] if how == 'shift' else (ca[:-1] + [ca[-1] + 1] if how == 'one-entry' else [ca[0] - 1] + ca[1:])
                yb = mk(pe, {'A|r1': cb}, samples_for({'A|r1': cb}, ofun, ('clb', off, bname, how)))
                for nm, x, y in (('ab', xa, yb), ('ba', yb, xa)):
                    try:
                        r = pe.correlate(x, y)
                        acc.fail('correlate:misaligned-accepted:large-configuration-numbers', dict(case, offset=off, base=bname, how=how, order=nm), 'configurations %s... vs %s... (%s): correlate returned %r' % (ca[:3], cb[:3], how, r))
                    except Exception:
                        acc.ok(('corr-large-bad', off, bname, how, nm), True, 'refused')
    cv = o * pe.cov_Obs(1.0, 0.01, 'cv1')
    other = mk(pe, {'B|r1': list(range(1, 13))}, samples_for({'B|r1': list(range(1, 13))}, ofun, 'cq'))
    for nm, x, y in (('cov-first', cv, o), ('cov-second', o, cv), ('multi-ens', o + other, o + other)):
        try:
            pe.correlate(x, y)
            acc.fail('correlate:misaligned-accepted:' + nm, dict(case, which=nm), 'correlate accepted %s' % nm)
        except Exception:
            acc.ok(('corr-bad2', nm), True, 'refused')
    acc.sample({'kind': 'correlate', 'pairs': 'all ordered pairs of %d layouts' % len(lays)})


def run_corr_correlate(pe, acc, case):
    wl = W_LAYOUTS[3]
    T = 3
    sa = [samples_for(wl, wfun, ('cca', t)) for t in range(T)]
    sb = [samples_for(wl, ofun, ('ccb', t)) for t in range(T)]
    sp = samples_for(wl, ofun, 'ccp')
    partner = mk(pe, wl, sp)
    for pa in itertools.product([0, 1], repeat=T):
        for pb in itertools.product([0, 1], repeat=T):
            if not any(pa) or not any(pb):
                continue
            A = pe.Corr([mk(pe, wl, sa[t]) if pa[t] else None for t in range(T)])
            B = pe.Corr([mk(pe, wl, sb[t]) if pb[t] else None for t in range(T)])
            sub = dict(case, pa=list(pa), pb=list(pb))
            defined = [t for t in range(T) if pa[t] and pb[t]]
            try:
                R = A.correlate(B)
            except Exception as e:
                if defined:
                    acc.fail('corr-correlate:raised', sub, 'Corr.correlate raised %r' % e)
                else:
                    acc.ok(('cc-empty', pa, pb), False, 'all-undefined-refused')
                continue
            bad = None
            for t in range(T):
                if t in defined:
                    if R.content[t] is None:
                        bad = 'slice %d undefined' % t
                        break
                    exp = ref.r_from_samples({n: sa[t][n] * sb[t][n] for n in wl}, wl)
                    bad = ref.close(exp, compare.to_ref(R.content[t][0]), 1e-12)
                    if bad:
                        bad = 'slice %d: %s' % (t, bad)
                        break
                elif R.content[t] is not None:
                    bad = 'slice %d defined although an operand is undefined there' % t
                    break
            if bad:
                acc.fail('corr-correlate:value', sub, bad)
            else:
                acc.ok(('cc', pa, pb), True, 'corr-correlate')
        # Obs partner
        if any(pa):
            A = pe.Corr([mk(pe, wl, sa[t]) if pa[t] else None for t in range(T)])
            try:
                R = A.correlate(partner)
                bad = None
                for t in range(T):
                    if pa[t]:
                        exp = ref.r_from_samples({n: sa[t][n] * sp[n] for n in wl}, wl)
                        bad = bad or (R.content[t] is None and 'slice %d undefined' % t) or ref.close(exp, compare.to_ref(R.content[t][0]), 1e-12)
                    elif R.content[t] is not None:
                        bad = bad or 'slice %d defined' % t
                if bad:
                    acc.fail('corr-correlate:obs-partner', dict(case, pa=list(pa)), bad)
                else:
                    acc.ok(('cco', pa), True, 'corr-correlate-obs')
            except Exception as e:
                acc.fail('corr-correlate:obs-partner:raised', dict(case, pa=list(pa)), repr(e))
    # the flag of a correlator (single-valued and matrix-valued, with undefined timeslices) is that of its entries
    w = mk(pe, wl, samples_for(wl, wfun, 'ccw'))
    ent = [mk(pe, wl, samples_for(wl, ofun, ('cce', k))) for k in range(4)]
    mat = np.array([[ent[0], ent[1]], [ent[1], ent[3]]], dtype=object)
    for form, content in (('single-valued', [ent[0], None, ent[2]]), ('matrix', [mat, None, 2 * mat]), ('matrix-all-defined', [mat, mat + 1])):
        sub = dict(case, form=form)
        try:
            C = pe.Corr(content)
            flags = [C.reweighted]
            if form == 'single-valued':
                R = C.reweight(w)
            else:       # Corr.reweight is documented for single-valued correlators: the entries are reweighted one by one
                R = pe.Corr([None if c is None else np.array([[x.reweight(w) for x in row] for row in c], dtype=object) for c in C.content])
            flags.append(R.reweighted)
            parts = [x for c in R.content if c is not None for x in np.ravel(c)]
            bad = None
            if flags != [False, True]:
                bad = 'Corr.reweighted before / after Corr.reweight: %s' % flags
            elif not all(bool(x.reweighted) for x in parts) or any(bool(x.reweighted) for c in C.content if c is not None for x in np.ravel(c)):
                bad = 'entries after reweighting carry the flags %s' % [bool(x.reweighted) for x in parts]
            elif not bool((R * 2).reweighted) or not bool((R + R).reweighted):
                bad = 'flag lost by arithmetic on the reweighted correlator'
        except Exception as e:
            bad = 'raised %s: %s' % (type(e).__name__, e)
        if bad:
            acc.fail('corr-flag:%s' % form.split('-')[0], sub, '%s correlator: %s' % (form, bad))
        else:
            acc.ok(('cflag', form), True, 'flag')
    acc.sample({'kind': 'Corr.correlate', 'T': T, 'patterns': 'all pairs of non-empty defined-slice patterns'})


def partitions(items):
    if len(items) == 1:
        yield [items]
        return
    first = items[0]
    for smaller in partitions(items[1:]):
        for n, sub in enumerate(smaller):
            yield smaller[:n] + [[first] + sub] + smaller[n + 1:]
        yield [[first]] + smaller


def run_merge(pe, acc, case):
    full_layouts = [W_LAYOUTS[3], W_LAYOUTS[4], {'A|r1': list(range(1, 9)), 'A|r2': [1, 3, 4, 6, 9, 10]},
                    {'A|r1': list(range(5, 25, 4)), 'A|r10': list(range(1, 7)), 'A|r2': list(range(1, 7)), 'A|r3': [2, 3, 5, 7, 11, 13]}]
    for li, fl in enumerate(full_layouts):
        samp = samples_for(fl, ofun, ('m', li))
        exp = ref.r_from_samples(samp, fl)
        reps = sorted(fl)
        for part in partitions(reps):
            if len(part) == 1:
                continue
            for order in itertools.permutations(range(len(part))):
                blocks = [part[i] for i in order]
                sub = dict(case, layout=li, blocks=blocks)
                if 'blocks' in case and (case['layout'], case['blocks']) != (li, blocks):
                    continue
                obs = [mk(pe, {n: fl[n] for n in b}, samp) for b in blocks]
                try:
                    m = pe.merge_obs(obs)
                except Exception as e:
                    acc.fail('merge:raised', sub, 'merge of %s raised %r' % (blocks, e))
                    continue
                bad = ref.close(exp, compare.to_ref(m), 1e-12)
                if not bad and bool(m.reweighted):
                    bad = 'flag set on merge of plain observables'
                if not bad:
                    before = [snap(x) for x in obs]
                    m2 = pe.merge_obs(obs)
                    if [snap(x) for x in obs] != before:
                        bad = 'merge_obs modified an operand'
                    elif snap(m2) != snap(m):
                        bad = 'a second call with the same objects gives another result'
                if not bad:
                    for n in fl:
                        if abs(m.r_values[n] - np.mean(samp[n])) > 1e-12:
                            bad = 'replica mean of %s' % n
                if bad:
                    acc.fail('merge:value', sub, 'merge of blocks %s: %s' % (blocks, bad))
                else:
                    acc.ok(('merge', li, tuple(map(tuple, blocks))), True, 'merge')
        # flag inheritance through merge: one reweighted block
        w = mk(pe, fl, samples_for(fl, wfun, ('mw', li)))
        blocks = [[reps[0]], reps[1:]]
        o1 = mk(pe, {n: fl[n] for n in blocks[0]}, samp).reweight(w)
        o2 = mk(pe, {n: fl[n] for n in blocks[1]}, samp)
        for nm, lst in (('first', [o1, o2]), ('second', [o2, o1])):
            try:
                m = pe.merge_obs(lst)
                bad = check_flag_inherited(pe, m, 'merge_obs(%s block reweighted)' % nm)
            except Exception as e:
                bad = 'raised %r' % e
            if bad:
                acc.fail('merge:flag', dict(case, layout=li, which=nm), bad)
            else:
                acc.ok(('merge-flag', li, nm), True, 'flag')
        # refusals
        a = mk(pe, {reps[0]: fl[reps[0]]}, samp)
        for nm, lst in (('duplicate-replica', [a, mk(pe, {n: fl[n] for n in reps[:2]}, samp)]),
                        ('covariance-input', [a * pe.cov_Obs(1.0, 0.01, 'cv1'), mk(pe, {reps[1]: fl[reps[1]]}, samp)])):
            try:
                pe.merge_obs(lst)
                acc.fail('merge:misaligned-accepted:' + nm, dict(case, layout=li, which=nm), 'merge_obs accepted %s' % nm)
            except Exception:
                acc.ok(('merge-bad', li, nm), True, 'refused')
    acc.sample({'kind': 'merge_obs', 'replicas': sorted(full_layouts[1]), 'partitions': 'all set partitions x block orders'})


def run_qtop(pe, acc, case):
    tier = os.environ.get('VERIF_TIER', 'quick')
    for i, l in enumerate(alpha.layouts(tier)):
        lay = {n: alpha.CFG[c] for n, c in l.items()}
        samp = {n: np.round(2.2 * np.sin(np.array(cf) * 1.3) + 0.3 * alpha.rng('q', i, n).normal(size=len(cf))) + 0.04 * alpha.rng('q2', i, n).normal(size=len(cf))
                for n, cf in lay.items()}
        q = mk(pe, lay, samp)
        for target in (0, 1, -2):
            sub = dict(case, lay=i, target=target)
            try:
                p = pe.input.openQCD.qtop_projection(q, target)
            except Exception as e:
                acc.fail('qtop:raised', sub, repr(e))
                continue
            ind = {n: np.array([1.0 if round(x) == target else 0.0 for x in samp[n]]) for n in lay}
            exp = ref.r_from_samples(ind, lay)
            bad = ref.close(exp, compare.to_ref(p), 1e-12)
            if bad:
                acc.fail('qtop:value', sub, 'qtop_projection on %s target %d: %s' % (alpha.lname(l), target, bad))
            else:
                acc.ok(('qtop', i, target), True, 'qtop')
    wl = W_LAYOUTS[0]
    w = mk(pe, wl, samples_for(wl, wfun, 'qw'))
    q = mk(pe, wl, samples_for(wl, ofun, 'qq')).reweight(w)
    try:
        pe.input.openQCD.qtop_projection(q, 0)
        acc.fail('qtop:reweighted-accepted', case, 'qtop_projection accepted a reweighted observable')
    except Exception:
        acc.ok('qtop-rw', True, 'refused')
    acc.sample({'kind': 'qtop_projection', 'targets': [0, 1, -2]})
