"""C07 Linear least-squares fits reproduce the closed-form GLS estimator.

E-PROD over (basis, data layout, prior form/subset, correlation mode) for Levenberg-Marquardt,
deviation bound 1 away from LM/autograd for the other minimisers and num_grad; combined
(dictionary) fits with shared parameters; all permutations of <=4 points and of the dictionary keys.
Oracle: p = (A^T W A)^-1 A^T W y with prior rows (closed form), dp/dy through mc.ref.r_propagate."""
import os
import re
import math
import warnings
import itertools
import numpy as np
from mc import engine, alpha, ref, compare
from mc.engine import Acc

LEVEL = 'exploration'
RULE = ('full product for Levenberg-Marquardt + autograd: basis {const, (1,x), (1,x,x^2), (1,x,x^2,x^3), (x1,x2) two-dimensional} x '
        'data layout {independent ensembles, one shared ensemble (correlated points), mixed with covariance input} x priors {none, '
        'list of strings, list of Obs, dict on every non-empty parameter subset (<=3 parameters) with string / Obs entries} x '
        'correlation {off, estimated, user-supplied inverse Cholesky factor}; deviation bound 1 for method {migrad, Nelder-Mead, '
        'Powell} and num_grad; combined fits with 2..3 data sets sharing parameters (incl. a constant-shape function) x key '
        'insertion orders x correlation modes; all permutations of 4 points; Corr.fit over ranges with undefined timeslices; '
        'fit_lin; expected_chisquare; call history: every minimiser after earlier fits with loose tolerances / other options, and the same data objects fitted again after their error analysis was repeated with other parameters (estimated, absent and supplied correlation).  Thorough tier: every number of points from npar+1 to 10, the full product minimiser/num_grad x basis x layout x prior form x correlation mode, all 120 orders of 5 points (linear and quadratic basis).  Compared: parameter values, every fluctuation, every covariance-input gradient, chisquare, '
        'dof, p_value, t2_p_value, chisquare_by_expected_chisquare.  Non-trivial = every fit except (two-parameter, independent, no prior, uncorrelated)')
ASSUMPTIONS = ['central values to 1e-4 sigma (LM) / 5e-3 sigma (other minimisers); fluctuations to 1e-7 (they depend only on the constant Hessian)',
               'the estimated correlation matrix of correlated fits is taken from pe.covariance (decided by C06)',
               'a non-default minimiser that raises "did not converge" is skipped and counted; never for LM']
EXHAUSTIVE = True
REPEAT = 2      # every case is evaluated twice in the same process: the second verdict must equal the first (call-history oracle)
CHUNK = 1


def anp():
    import autograd.numpy as a
    return a


BASES = {
    'const': (1, lambda p, x: p[0] + 0 * x, lambda x: [1.0]),
    'lin': (2, lambda p, x: p[0] + p[1] * x, lambda x: [1.0, x]),
    'quad': (3, lambda p, x: p[0] + p[1] * x + p[2] * x ** 2, lambda x: [1.0, x, x * x]),
    'cubic': (4, lambda p, x: p[0] + p[1] * x + p[2] * x ** 2 + p[3] * x ** 3, lambda x: [1.0, x, x * x, x ** 3]),
    '2d': (2, lambda p, x: p[0] * x[0] + p[1] * x[1], lambda x: [x[0], x[1]]),
}
PTRUE = [0.8, -0.35, 0.12, -0.02]


def xs_for(basis, n):
    if basis == '2d':
        t = np.arange(n)
        return np.array([0.5 + 0.4 * t, 1.0 + np.cos(1.3 * t)])
    return 0.3 + 0.45 * np.arange(n)


def make_y(pe, basis, n, layout, key):
    """n data points scattered around the model."""
    npar, f, row = BASES[basis]
    x = xs_for(basis, n)
    r = alpha.rng('c07', key, basis, n, layout)
    ys = []
    ncfg = 40
    if layout in ('shared', 'mixed', 'irrshared'):
        common = r.normal(size=ncfg)
    for i in range(n):
        xi = x[:, i] if basis == '2d' else x[i]
        mean = float(np.dot(PTRUE[:npar], row(xi))) + 0.03 * r.normal()
        sig = 0.04 * (1 + 0.3 * (i % 3))
        if layout == 'indep':
            cfgs = list(range(1, ncfg + 1))
            d = alpha.data('ar1', cfgs, alpha.rng('c07d', key, i), mean, sig)
            ys.append(pe.Obs([d], ['E%d|r1' % i]))
        elif layout == 'shared':
            d = mean + sig * (0.6 * common + 0.8 * r.normal(size=ncfg))
            ys.append(pe.Obs([d], ['S|r1']))
        elif layout == 'irrshared':
            # one ensemble, but the points live on two DIFFERENT irregular configuration lists whose union has as many entries as the
            # equally spaced list between its end points (without being it)
            grid = list(range(2, 2 + 2 * ncfg, 2))
            l1 = sorted(set(grid) - {8, 32} | {7, 31})
            l2 = sorted(set(grid) - {8, 32})
            cf = l1 if i % 2 == 0 else l2
            comm = {c: v for c, v in zip(grid + [7, 31], np.concatenate([common, r.normal(size=2)]))} if i == 0 else comm
            d = np.array([mean + sig * (0.6 * comm[c] + 0.8 * z) for c, z in zip(cf, r.normal(size=len(cf)))])
            ys.append(pe.Obs([d], ['S|r1'], idl=[cf]))
        else:   # mixed: even points shared ensemble, odd points own ensemble, last one times a covariance input
            if i % 2 == 0:
                d = mean + sig * (0.6 * common + 0.8 * r.normal(size=ncfg))
                o = pe.Obs([d], ['S|r1'])
            else:
                d = mean + sig * r.normal(size=ncfg + i)
                o = pe.Obs([d], ['E%d|r1' % i])
            if i == n - 1:
                o = o * pe.cov_Obs(1.0, 0.02 ** 2, 'cvnorm')
            ys.append(o)
    [y.gamma_method() for y in ys]
    return x, ys


def gls(A, W, ytilde):
    """p = (A^T W A)^-1 A^T W y, dp/dy = (A^T W A)^-1 A^T W."""
    # columns scaled to unit norm first (abscissae of order 1e9 next to a constant column would make A^T W A singular to working precision)
    d = np.sqrt(np.einsum('ij,ij->j', A, A))
    d[d == 0] = 1.0
    As = A / d
    H = As.T @ W @ As
    K = np.linalg.solve(H, As.T @ W) / d[:, None]
    return K @ ytilde, K


def rename_priors(r):
    """'#prior3_0123456789' -> '#prior3' (the numeric suffix is random by construction)."""
    cov = {}
    for n, v in r['cov'].items():
        m = re.match(r'^(#prior\d+)_\d+$', n)
        cov[m.group(1) if m else n] = v
    return dict(r, cov=cov)


def prior_inputs(pe, spec, npar):
    """spec: list of (index, form, value, error).  Returns (argument for least_squares, [(index, ref, value, error)])."""
    refs = []
    objs = {}
    for idx, form, val, err in spec:
        if form in ('str', 'str-same'):
            o = pe.cov_Obs(val, err ** 2, 'tmp')
            s = str(o)          # '0.80(10)'
            # the documented forms: 0.548(23), 500(40), 0.5(0.4); values with trailing zeros on purpose
            s = {0: '0.90(20)', 1: '-0.30(25)', 2: '0.2(0.3)', 3: '-0.020(10)'}.get(idx, s) if abs(val) < 5 else s
            if form == 'str-same':
                s = '0.5(4)'        # literally the same string on several parameters
            from checks.c19 import parse
            _, V, E, _unit = parse(s)        # the documented reading of 'value(error)', independent of the library's parser
            pv, pd = float(V), float(E)
            objs[idx] = s
            refs.append((idx, ref.r_cov(pv, pd ** 2, '#prior%d' % idx, 0), pv, pd))
        else:
            o = alpha.make_obs(pe, {'P%d|r1' % idx: 'c12'}, ('c07prior', idx), 'white', val, err * math.sqrt(12))[0]
            o.gamma_method()
            objs[idx] = o
            refs.append((idx, compare.to_ref(o), o.value, o.dvalue))
    return objs, refs


def expected_fit(pe, rows, ys, W_y, prior_refs, npar):
    """rows: design-matrix rows for the data points.  Returns (p, list of reference observables, chisq, K)."""
    n = len(ys)
    A = np.array(rows, dtype=float)
    yv = np.array([y.value for y in ys])
    if prior_refs:
        P = np.zeros((len(prior_refs), npar))
        for k, (idx, _, _, _) in enumerate(prior_refs):
            P[k, idx] = 1.0
        A = np.vstack([A, P])
        Wfull = np.zeros((n + len(prior_refs), n + len(prior_refs)))
        Wfull[:n, :n] = W_y
        for k, (_, _, pv, pd) in enumerate(prior_refs):
            Wfull[n + k, n + k] = 1 / pd ** 2
        yt = np.concatenate([yv, [pv for (_, _, pv, _) in prior_refs]])
    else:
        Wfull, yt = W_y, yv
    p, K = gls(A, Wfull, yt)
    ins = [compare.to_ref(y) for y in ys] + [r for (_, r, _, _) in prior_refs]
    pobs = [ref.r_propagate(p[k], list(K[k]), ins) for k in range(npar)]
    res = yt - A @ p
    return p, pobs, float(res @ Wfull @ res), K


def compare_fit(pe, res, p, pobs, chisq, n, npar, nprior, method_tol, ys, correlated):
    import scipy.stats
    for k in range(npar):
        got = rename_priors(compare.to_ref(res.fit_parameters[k]))
        sig = res.fit_parameters[k]
        s = pe.Obs.__new__(pe.Obs) if False else None
        # central value within method_tol standard errors, fluctuations exact
        e = pobs[k]
        o = res.fit_parameters[k]
        oo = __import__('copy').deepcopy(o)
        oo.gamma_method()
        if not abs(got['value'] - e['value']) <= method_tol * max(oo.dvalue, 1e-12):
            return 'parameter %d: value %.12g, closed form %.12g (%.2g sigma)' % (k, got['value'], e['value'], abs(got['value'] - e['value']) / max(oo.dvalue, 1e-300))
        bad = ref.close(dict(e, value=got['value']), got, 1e-7 if method_tol <= 1e-4 else 1e-4)
        if bad:
            return 'parameter %d: %s' % (k, bad)
    dof = n - npar + nprior
    if res.dof != dof:
        return 'dof %r, expected points - parameters + priors = %d' % (res.dof, dof)
    tol = 1e-6 if method_tol <= 1e-4 else 1e-3
    if not abs(res.chisquare - chisq) <= tol * max(chisq, 1e-10) + 1e-9:
        return 'chisquare %.12g, weighted residual norm at the solution %.12g' % (res.chisquare, chisq)
    pv = 1 - scipy.stats.chi2.cdf(res.chisquare, dof)
    if not (abs(res.p_value - pv) <= 1e-12 or (np.isnan(pv) and np.isnan(res.p_value))):
        return 'p_value %r, expected %r' % (res.p_value, pv)
    if dof > 0 and not abs(res.chisquare_by_dof - res.chisquare / dof) <= 1e-12 * max(1.0, res.chisquare / dof):
        return 'chisquare_by_dof'
    if correlated:
        ncov = min(y.N for y in ys)
        t2 = 1 - scipy.stats.f.cdf((ncov - dof) / (dof * (ncov - 1)) * res.chisquare, dof, ncov - dof) if dof > 0 else float('nan')
        if not (abs(res.t2_p_value - t2) <= 1e-12 or (np.isnan(t2) and np.isnan(res.t2_p_value))):
            return 't2_p_value %r, Hotelling formula %r' % (res.t2_p_value, t2)
    elif hasattr(res, 't2_p_value'):
        return 't2_p_value reported for an uncorrelated fit'
    return None


def weight_matrix(pe, ys, mode):
    dy = np.array([y.dvalue for y in ys])
    if mode == 'off':
        return np.diag(1 / dy ** 2), {}
    with warnings.catch_warnings():
        warnings.simplefilter('ignore')
        corr = pe.covariance(ys, correlation=True)
    if mode == 'estimated':
        C = np.diag(dy) @ corr @ np.diag(dy)
        # the flag as Python bool or as numpy bool (an element of a boolean array), alternating with the number of points
        return np.linalg.inv(C), {'correlated_fit': True if len(ys) % 2 else np.bool_(True)}
    # user supplied: a different (shrunk) correlation matrix
    corr2 = 0.5 * corr + 0.5 * np.eye(len(ys))
    L = pe.obs.invert_corr_cov_cholesky(corr2, np.diag(1 / dy))
    return L.T @ L, {'correlated_fit': True, 'inv_chol_cov_matrix': [L, ['']]}


def prior_specs(npar):
    specs = [('none', [])]
    vals = [(PTRUE[i] * 1.1 + 0.05, 0.2 + 0.05 * i) for i in range(npar)]
    specs.append(('list-str', [(i, 'str') + vals[i] for i in range(npar)]))
    specs.append(('list-obs', [(i, 'obs') + vals[i] for i in range(npar)]))
    if npar >= 2:
        # the SAME string on every parameter: still independent priors
        specs.append(('list-str-identical', [(i, 'str-same', 0.5, 0.4) for i in range(npar)]))
        specs.append(('dict-str-identical(0, 1)', [(i, 'str-same', 0.5, 0.4) for i in (0, 1)]))
    if npar <= 3:
        for k in range(1, npar + 1):
            for sub in itertools.combinations(range(npar), k):
                specs.append(('dict-str%s' % (sub,), [(i, 'str') + vals[i] for i in sub]))
                specs.append(('dict-mixed%s' % (sub,), [(i, 'obs' if j % 2 else 'str') + vals[i] for j, i in enumerate(sub)]))
    else:
        specs.append(('dict-str(1, 3)', [(i, 'str') + vals[i] for i in (1, 3)]))
        specs.append(('dict-mixed(0, 2, 3)', [(i, 'obs' if j % 2 else 'str') + vals[i] for j, i in enumerate((0, 2, 3))]))
    specs.append(('dict-empty', []))      # the empty subset of parameters, given as an empty dictionary
    return specs


def build(tier, seed):
    cases = []
    for basis in BASES:
        for layout in ('indep', 'shared', 'mixed', 'irrshared'):
            cases.append({'kind': 'single', 'basis': basis, 'layout': layout, 'n': 7 if BASES[basis][0] > 2 else 6})
            if tier == 'thorough':
                # every number of data points from the smallest over-determined one to 10
                for n in range(BASES[basis][0] + 1, 11):
                    if n != (7 if BASES[basis][0] > 2 else 6):
                        cases.append({'kind': 'single', 'basis': basis, 'layout': layout, 'n': n})
    if tier == 'thorough':
        # full product instead of the deviation bound: every minimiser / num_grad x basis x layout x prior form x correlation mode
        for basis in BASES:
            for layout in ('indep', 'shared', 'mixed'):
                cases.append({'kind': 'methods-full', 'basis': basis, 'layout': layout})
        for basis in ('lin', 'quad'):
            cases.append({'kind': 'permutations', 'points': 5, 'basis': basis})
    cases.append({'kind': 'methods'})
    cases.append({'kind': 'permutations'})
    for layout in ('indep', 'shared'):
        cases.append({'kind': 'combined', 'layout': layout})
    cases.append({'kind': 'corrfit'})
    cases.append({'kind': 'misc'})
    cases.append({'kind': 'scales'})
    for basis in ('lin', 'quad'):
        cases.append({'kind': 'history', 'basis': basis})
    return cases


def run_case(case):
    pe = engine.import_pyerrors()
    acc = Acc()
    with warnings.catch_warnings():
        warnings.simplefilter('ignore')
        k = case['kind']
        if k == 'single':
            run_single(pe, acc, case)
        elif k == 'methods':
            run_methods(pe, acc, case)
        elif k == 'methods-full':
            run_methods_full(pe, acc, case)
        elif k == 'permutations':
            run_permutations(pe, acc, case)
        elif k == 'combined':
            run_combined(pe, acc, case)
        elif k == 'corrfit':
            run_corrfit(pe, acc, case)
        elif k == 'misc':
            run_misc(pe, acc, case)
        elif k == 'history':
            run_history(pe, acc, case)
        elif k == 'scales':
            run_scales(pe, acc, case)
    return acc


def one_fit(pe, acc, sub, sig, basis, x, ys, pspec, mode, extra_kwargs=None, method_tol=1e-4, skip_nonconv=False, nontrivial=True, key=None):
    npar, f, row = BASES[basis]
    n = len(ys)
    W, kw = weight_matrix(pe, ys, mode)
    if extra_kwargs:
        kw = dict(kw, **extra_kwargs)
    objs, prefs = prior_inputs(pe, pspec[1], npar)
    if pspec[0].startswith('list'):
        priors = [objs[i] for i in range(npar)]
    elif pspec[0] == 'none':
        priors = None
    elif pspec[0] == 'dict-empty':
        priors = {}
    else:
        # dictionary priors: insertion order is not the index order (reversed for even-sized subsets, rotated otherwise)
        order = sorted(objs)
        order = order[::-1] if len(order) % 2 == 0 else order[1:] + order[:1]
        priors = {i: objs[i] for i in order}
    rows = [row(x[:, i] if basis == '2d' else x[i]) for i in range(n)]
    p, pobs, chisq, K = expected_fit(pe, rows, ys, W, prefs, npar)
    try:
        res = pe.least_squares(x, ys, f, priors=priors, silent=True, **kw)
    except Exception as e:
        if skip_nonconv and 'converge' in str(e):
            acc.skip('did-not-converge:' + str(kw.get('method')))
            return
        acc.fail(sig + ':raised', sub, 'least_squares raised %s: %s' % (type(e).__name__, e))
        return
    bad = compare_fit(pe, res, p, pobs, chisq, n, npar, len(prefs), method_tol, ys, mode != 'off')
    if bad:
        acc.fail(sig, sub, '%s basis, %d points, priors %s, correlation %s, %s: %s' % (basis, n, pspec[0], mode, extra_kwargs or 'LM/autograd', bad))
    else:
        acc.ok(key or repr(sub), nontrivial, sig.split(':')[0] + (':' + mode if mode != 'off' else ''))


def run_single(pe, acc, case):
    basis, layout, n = case['basis'], case['layout'], case['n']
    npar = BASES[basis][0]
    x, ys = make_y(pe, basis, n, layout, 's')
    for pspec in prior_specs(npar):
        for mode in ('off', 'estimated', 'user'):
            if layout == 'indep' and mode == 'user' and pspec[0] != 'none':
                continue
            sub = dict(case, priors=pspec[0], mode=mode)
            if 'priors' in case and (case['priors'], case['mode']) != (pspec[0], mode):
                continue
            one_fit(pe, acc, sub, 'fit:%s' % ('prior' if pspec[1] else 'noprior'), basis, x, ys, pspec, mode,
                    nontrivial=not (basis == 'lin' and layout == 'indep' and not pspec[1] and mode == 'off'), key=('s', basis, layout, pspec[0], mode))
    acc.sample({'kind': 'single', 'basis': basis, 'layout': layout, 'points': n, 'priors': [s[0] for s in prior_specs(npar)][:6], 'correlation': ['off', 'estimated', 'user']})


def run_methods(pe, acc, case):
    for basis in ('lin', 'quad', '2d'):
        for layout in ('indep', 'shared'):
            x, ys = make_y(pe, basis, 6, layout, 'm')
            npar = BASES[basis][0]
            for method in ('migrad', 'Nelder-Mead', 'Powell'):
                for pspec in (prior_specs(npar)[0], prior_specs(npar)[1]):
                    for mode in ('off', 'estimated'):
                        sub = dict(case, basis=basis, layout=layout, method=method, priors=pspec[0], mode=mode)
                        one_fit(pe, acc, sub, 'fit-method:%s' % method, basis, x, ys, pspec, mode, {'method': method}, method_tol=5e-3, skip_nonconv=True,
                                key=('m', basis, layout, method, pspec[0], mode))
            for pspec in (prior_specs(npar)[0], prior_specs(npar)[1], prior_specs(npar)[3]):
                for mode in ('off', 'estimated'):
                    sub = dict(case, basis=basis, layout=layout, num_grad=True, priors=pspec[0], mode=mode)
                    one_fit(pe, acc, sub, 'fit-numgrad', basis, x, ys, pspec, mode, {'num_grad': True}, method_tol=1e-4, key=('ng', basis, layout, pspec[0], mode))
    acc.sample({'kind': 'methods', 'methods': ['migrad', 'Nelder-Mead', 'Powell'], 'num_grad': True})


def run_methods_full(pe, acc, case):
    basis, layout = case['basis'], case['layout']
    npar = BASES[basis][0]
    x, ys = make_y(pe, basis, 7 if npar > 2 else 6, layout, 'mf')
    for pspec in prior_specs(npar):
        for mode in ('off', 'estimated', 'user'):
            if layout == 'indep' and mode == 'user' and pspec[0] != 'none':
                continue
            for method in ('migrad', 'Nelder-Mead', 'Powell'):
                if method != 'migrad' and npar > 3:
                    continue        # simplex / direction-set searches in four dimensions do not reach 5e-3 sigma reliably
                sub = dict(case, method=method, priors=pspec[0], mode=mode)
                one_fit(pe, acc, sub, 'fit-method:%s' % method, basis, x, ys, pspec, mode, {'method': method}, method_tol=5e-3, skip_nonconv=True,
                        key=('mf', basis, layout, method, pspec[0], mode))
            sub = dict(case, num_grad=True, priors=pspec[0], mode=mode)
            one_fit(pe, acc, sub, 'fit-numgrad', basis, x, ys, pspec, mode, {'num_grad': True}, method_tol=1e-4, key=('ngf', basis, layout, pspec[0], mode))
    acc.sample(dict(case, methods=['migrad', 'Nelder-Mead', 'Powell', 'num_grad'], priors='every form', correlation=['off', 'estimated', 'user']))


def run_scales(pe, acc, case):
    """Straight-line fits whose abscissae, ordinates or covariance inputs have another magnitude: the closed form does not care."""
    f = lambda a, x: a[0] + a[1] * x      # noqa: E731
    n = 8
    r = alpha.rng('c07scale')
    base = [2.0 + 3.0 * (i + 1) + 0.3 * r.normal(size=40) for i in range(n)]
    # (a) abscissae of order 1e-9 .. 1e9, ordinates of order one (independent and shared ensembles)
    for xscale in (1e-9, 1e-4, 1e5, 1e9):
        for layout in ('indep', 'shared'):
            x = np.arange(1.0, n + 1) * xscale
            ys = [pe.Obs([b], ['E%d|r1' % i if layout == 'indep' else 'S|r1']) for i, b in enumerate(base)]
            [y.gamma_method() for y in ys]
            W = np.diag([1 / y.dvalue ** 2 for y in ys])
            p, pobs, chisq, K = expected_fit(pe, [[1.0, xv] for xv in x], ys, W, [], 2)
            sub = dict(case, xscale=xscale, layout=layout)
            try:
                # a starting point of the right magnitude (the minimiser's own scaling is not the subject)
                res = pe.least_squares(x, ys, f, silent=True, initial_guess=[1.0, 1.0 / xscale])
                bad = compare_fit(pe, res, p, pobs, chisq, n, 2, 0, 1e-4, ys, False)
            except Exception as e:
                bad = 'raised %s: %s' % (type(e).__name__, e)
            if bad:
                acc.fail('fit-scale:abscissae', sub, 'p0 + p1 x with x of order %g (%s): %s' % (xscale, layout, bad))
            else:
                acc.ok(('fs-x', xscale, layout), True, 'fit-scale')
    # (b) data points that are covariance inputs of small / large magnitude with a strongly correlated matrix, correlated fit
    C1 = np.array([[0.04 * (0.9 ** abs(i - j)) * (1 + 0.1 * i) * (1 + 0.1 * j) for j in range(6)] for i in range(6)])
    C1 = 0.5 * (C1 + C1.T)
    y1 = np.array([1.0 + 0.5 * (i + 1) + 0.05 * ((-1) ** i) for i in range(6)])
    xs = np.arange(1.0, 7.0)
    for scale in (1.0, 1e-9, 1e6):
        yobs = pe.cov_Obs(list(y1 * scale), C1 * scale ** 2, 'cvsyst')
        [y.gamma_method() for y in yobs]
        for mode in ('off', 'estimated'):
            if mode == 'off':
                W = np.diag([1 / y.dvalue ** 2 for y in yobs])
                kw = {}
            else:
                W = np.linalg.inv(C1 * scale ** 2)
                kw = {'correlated_fit': True}
            p, pobs, chisq, K = expected_fit(pe, [[1.0, xv] for xv in xs], yobs, W, [], 2)
            sub = dict(case, yscale=scale, mode=mode)
            try:
                res = pe.least_squares(xs, yobs, f, silent=True, initial_guess=[1.0 * scale, 0.5 * scale], **kw)
                bad = compare_fit(pe, res, p, pobs, chisq, 6, 2, 0, 1e-4, yobs, mode != 'off')
            except Exception as e:
                bad = 'raised %s: %s' % (type(e).__name__, e)
            if bad:
                acc.fail('fit-scale:covariance-data', sub, 'covariance-input data of order %g, correlation %s: %s' % (scale, mode, bad))
            else:
                acc.ok(('fs-c', scale, mode), True, 'fit-scale')
    # (c) strongly correlated data on one ensemble (one large common fluctuation, independent ones about 1e5 times smaller): the
    #     correlation matrix has a condition number of 1e10 .. 1e12, below the library's own warning threshold.  The reference whitens with
    #     the singular value decomposition of the normalised fluctuations, which resolves the small eigenvalues to full relative precision.
    for ratio in (1e-4, 1.2e-5, 4e-6):
        r = alpha.rng('c07strong', ratio)
        N = 400
        g = r.normal(size=N)
        xs6 = np.arange(1.0, 7.0)
        yobs = []
        for i, t in enumerate(xs6):
            m = 1.0 + 0.5 * t
            yobs.append(pe.Obs([m * (1 + 0.02 * g + 0.02 * ratio * (1 + 0.5 * i) * r.normal(size=N))], ['S|r1']))
        [y.gamma_method() for y in yobs]
        dy = np.array([y.dvalue for y in yobs])
        d = np.array([y.deltas['S|r1'] for y in yobs])
        dn = d / np.linalg.norm(d, axis=1)[:, None]
        U, Sv, _ = np.linalg.svd(dn, full_matrices=False)
        cond = (Sv[0] / Sv[-1]) ** 2
        Wh = np.diag(1 / Sv) @ U.T @ np.diag(1 / dy)
        A = np.stack([np.ones(6), xs6], axis=1)
        Aw = Wh @ A
        K = np.linalg.pinv(Aw) @ Wh
        yv = np.array([y.value for y in yobs])
        pref = K @ yv
        sub = dict(case, ratio=ratio, condition_number=float('%.3g' % cond))
        if not 1e7 < cond < 5e12:
            raise engine.MachineryError('strongly correlated data set has condition number %g' % cond)
        bad = None
        try:
            res = pe.least_squares(xs6, yobs, f, silent=True, correlated_fit=True, initial_guess=[1.0, 0.5])
            for k in range(2):
                o = res.fit_parameters[k]
                o.gamma_method()
                exp = K[k] @ d
                got = o.deltas['S|r1']
                dev = np.max(np.abs(got - exp)) / np.max(np.abs(exp))
                if not dev <= 1e-3:
                    bad = 'fluctuations of parameter %d differ from -H^-1 d(grad chi2)/dy . delta y of the documented chi-square by %.2g (relative)' % (k, dev)
                    break
                if not abs(o.value - pref[k]) <= 1e-2 * o.dvalue:
                    bad = 'parameter %d: value %.15g, closed form %.15g (%.2g sigma)' % (k, o.value, pref[k], abs(o.value - pref[k]) / o.dvalue)
                    break
        except Exception as e:
            bad = 'raised %s: %s' % (type(e).__name__, e)
        if bad:
            acc.fail('fit-scale:strong-correlation', sub, 'correlated straight-line fit, cond(corr) = %.2g: %s' % (cond, bad))
        else:
            acc.ok(('fs-s', ratio), True, 'fit-scale')
    acc.sample(dict(case, xscales=[1e-9, 1e-4, 1e5, 1e9], covariance_data_scales=[1.0, 1e-9, 1e6], independent_to_common_fluctuation=[1e-4, 1.2e-5, 4e-6]))


def run_history(pe, acc, case):
    """A fit must not depend on the fits made before it, nor on an earlier analysis state of the same data objects."""
    basis = case['basis']
    npar, f, row = BASES[basis]
    x, ys = make_y(pe, basis, 6, 'shared', 'h')
    xo, yo = make_y(pe, 'lin', 6, 'indep', 'hother')
    none = prior_specs(npar)[0]
    # (a) earlier fits with unusual options (loose tolerances, other minimisers, priors, correlated) must leave nothing behind
    polluters = [('tol', {'method': 'Nelder-Mead', 'tol': 0.5}), ('tol', {'method': 'Powell', 'tol': 0.3}), ('tol', {'method': 'migrad', 'tol': 5.0}),
                 ('kw', {'correlated_fit': True}), ('kw', {'num_grad': True}), ('priors', {'priors': ['0.5(4)', '0.5(4)']})]
    for pname, pkw in polluters:
        try:
            pe.least_squares(xo, yo, BASES['lin'][1], silent=True, **pkw)
        except Exception:
            pass
        for method in (None, 'migrad', 'Nelder-Mead', 'Powell'):
            for mode in ('off', 'estimated'):
                sub = dict(case, after=[pname, {k: (v if not isinstance(v, list) else list(v)) for k, v in pkw.items()}], method=method, mode=mode)
                one_fit(pe, acc, sub, 'fit-history:after-%s' % pname, basis, x, ys, none, mode, ({'method': method} if method else None),
                        method_tol=(5e-3 if method else 1e-4), skip_nonconv=bool(method), key=('hist', basis, pname, repr(sorted(pkw.items(), key=str)), method, mode))
    # (b) the same data objects fitted again after their error analysis was repeated with other parameters
    for mode in ('estimated', 'off', 'user'):
        for pars in ({'S': 0}, {'tau_exp': 4, 'N_sigma': 1}, {'S': 3.0}, {}):
            [y.gamma_method(**pars) for y in ys]
            sub = dict(case, reanalysed_with=pars, mode=mode)
            one_fit(pe, acc, sub, 'fit-history:reanalysed', basis, x, ys, none, mode, key=('hist-re', basis, mode, repr(pars)))
            one_fit(pe, acc, sub, 'fit-history:reanalysed', basis, x, ys, prior_specs(npar)[1], mode, key=('hist-re-pr', basis, mode, repr(pars)))
    # (c) the arguments come back as they were handed in: abscissae as numpy array in NON-ascending point order, every option that
    # produces output next to the fit (residual plot, qq plot, expected chi-square) switched on, then the same objects fitted again
    if basis != '2d':
        import matplotlib
        matplotlib.use('Agg')
        import matplotlib.pyplot as plt
        perm = [3, 0, 5, 1, 4, 2]
        xp = np.array([x[i] for i in perm], dtype=float)
        yp = [ys[i] for i in perm]
        [y.gamma_method() for y in ys]
        for opts in ({'resplot': True}, {'qqplot': True}, {'resplot': True, 'qqplot': True}, {'expected_chisquare': True}):
            sub = dict(case, options=sorted(opts), order=perm)
            xb, yb = xp.copy(), list(yp)
            try:
                r1 = pe.least_squares(xp, yp, f, silent=True, **opts)
                plt.close('all')
                bad = None
                if not np.array_equal(xp, xb) or any(a is not b for a, b in zip(yp, yb)):
                    bad = 'least_squares(%s) changed the abscissae / ordinates it was given: x %s -> %s' % (opts, xb.tolist(), xp.tolist())
            except Exception as e:
                plt.close('all')
                bad = 'raised %s: %s' % (type(e).__name__, e)
            if bad:
                acc.fail('fit-history:argument-changed', sub, bad)
                xp = xb.copy()
                continue
            one_fit(pe, acc, sub, 'fit-history:after-options', basis, xp, yp, none, 'off', key=('hist-opt', basis, repr(sorted(opts))))
    acc.sample(dict(case, polluters=[p[0] for p in polluters], reanalysis=['S=0', 'tau_exp=4', 'S=3', 'default']))


def run_permutations(pe, acc, case):
    """The result does not depend on the order of the data points."""
    npts, pbasis = case.get('points', 4), case.get('basis', 'lin')
    for layout in ('indep', 'shared', 'mixed'):
        x, ys = make_y(pe, pbasis, npts, layout, 'p')
        base = None
        for mode in ('off', 'estimated'):
            ref_res = None
            for perm in itertools.permutations(range(npts)):
                xp = x[list(perm)]
                yp = [ys[i] for i in perm]
                kw = {'correlated_fit': True} if mode == 'estimated' else {}
                sub = dict(case, layout=layout, perm=list(perm), mode=mode)
                try:
                    res = pe.least_squares(xp, yp, BASES[pbasis][1], silent=True, **kw)
                except Exception as e:
                    acc.fail('fit-permutation:raised', sub, repr(e))
                    continue
                cur = [compare.to_ref(o) for o in res.fit_parameters]
                if ref_res is None:
                    ref_res = (cur, res.chisquare)
                    continue
                bad = None
                for k in range(BASES[pbasis][0]):
                    oo = __import__('copy').deepcopy(res.fit_parameters[k])
                    oo.gamma_method()
                    if not abs(cur[k]['value'] - ref_res[0][k]['value']) <= 1e-4 * oo.dvalue:
                        bad = 'parameter %d value %r vs %r' % (k, cur[k]['value'], ref_res[0][k]['value'])
                    bad = bad or ref.close(dict(ref_res[0][k], value=cur[k]['value']), cur[k], 1e-7)
                if not bad and not abs(res.chisquare - ref_res[1]) <= 1e-6 * max(ref_res[1], 1e-10) + 1e-9:
                    bad = 'chisquare %r vs %r' % (res.chisquare, ref_res[1])
                if bad:
                    acc.fail('fit-permutation', sub, 'points permuted by %s (%s, %s): %s' % (perm, layout, mode, bad))
                else:
                    acc.ok(('perm', pbasis, layout, mode, perm), True, 'permutation')
    acc.sample({'kind': 'permutations', 'points': npts, 'basis': pbasis, 'orders': 'all %d' % math.factorial(npts)})


def run_combined(pe, acc, case):
    """Dictionary interface: 2..3 data sets sharing parameters; key insertion orders; constant-shape function."""
    layout = case['layout']
    a = anp()
    funcs = {'a': lambda p, x: p[0] + p[1] * x, 'b': lambda p, x: p[0] + p[2] * x, 'c': lambda p, x: p[1] + 0 * x}
    rows = {'a': lambda x: [1.0, x, 0.0], 'b': lambda x: [1.0, 0.0, x], 'c': lambda x: [0.0, 1.0, 0.0]}
    truth = [0.8, -0.35, 0.5]
    sizes = {'a': 4, 'b': 3, 'c': 2}
    r = alpha.rng('c07comb', layout)
    common = r.normal(size=40)
    data = {}
    xs = {}
    for key in ('a', 'b', 'c'):
        xs[key] = 0.4 + 0.5 * np.arange(sizes[key]) + (0.1 if key == 'b' else 0)
        ys = []
        for i, xv in enumerate(xs[key]):
            mean = float(np.dot(truth, rows[key](xv))) + 0.02 * r.normal()
            d = mean + 0.05 * ((0.6 * common + 0.8 * r.normal(size=40)) if layout == 'shared' else r.normal(size=40))
            ys.append(pe.Obs([d], ['S|r1' if layout == 'shared' else 'E%s%d|r1' % (key, i)]))
        [y.gamma_method() for y in ys]
        data[key] = ys
    for keys in (('a', 'b'), ('a', 'b', 'c'), ('a', 'c')):
        npar = 3 if 'b' in keys else 2
        skeys = sorted(keys)
        y_all = [y for k in skeys for y in data[k]]
        rows_all = [rows[k](xv)[:npar] for k in skeys for xv in xs[k]]
        for mode in ('off', 'estimated', 'user'):
            for pform in ('none', 'dict'):
                dy = np.array([y.dvalue for y in y_all])
                kw = {}
                if mode == 'off':
                    W = np.diag(1 / dy ** 2)
                else:
                    corr = pe.covariance(y_all, correlation=True)
                    if mode == 'user':
                        corr = 0.5 * corr + 0.5 * np.eye(len(y_all))
                    L = pe.obs.invert_corr_cov_cholesky(corr, np.diag(1 / dy))
                    W = L.T @ L
                    kw = {'correlated_fit': True}
                    if mode == 'user':
                        kw['inv_chol_cov_matrix'] = [L, skeys]
                pspec = [] if pform == 'none' else [(1, 'str', -0.3, 0.2)]
                objs, prefs = prior_inputs(pe, pspec, npar)
                p, pobs, chisq, K = expected_fit(pe, rows_all, y_all, W, prefs, npar)
                for order in itertools.permutations(keys):
                    xd = {k: xs[k] for k in order}
                    yd = {k: data[k] for k in order[::-1]}
                    fd = {k: funcs[k] for k in order}
                    sub = dict(case, keys=list(keys), order=list(order), mode=mode, priors=pform)
                    try:
                        res = pe.least_squares(xd, yd, fd, priors=(dict(objs) if pspec else None), silent=True, **kw)
                    except Exception as e:
                        acc.fail('fit-combined:raised', sub, 'combined fit %s order %s (%s) raised %s: %s' % (keys, order, mode, type(e).__name__, e))
                        continue
                    bad = compare_fit(pe, res, p, pobs, chisq, len(y_all), npar, len(prefs), 1e-4, y_all, mode != 'off')
                    if bad:
                        acc.fail('fit-combined', sub, 'combined fit, keys inserted as %s, correlation %s, priors %s: %s' % (order, mode, pform, bad))
                    else:
                        acc.ok(('comb', layout, keys, order, mode, pform), True, 'combined')
        # a user-supplied inverse Cholesky factor that was built, and is labelled, in another key order than the alphabetical one:
        # refused, or used as the matrix of the data in that order (never applied unpermuted to the alphabetically stacked data)
        for lab in itertools.permutations(keys):
            if list(lab) == skeys:
                continue
            y_lab = [y for k in lab for y in data[k]]
            dyl = np.array([y.dvalue for y in y_lab])
            corr = 0.5 * pe.covariance(y_lab, correlation=True) + 0.5 * np.eye(len(y_lab))
            Ll = pe.obs.invert_corr_cov_cholesky(corr, np.diag(1 / dyl))
            pos = {id(y): i for i, y in enumerate(y_lab)}
            perm = [pos[id(y)] for y in y_all]
            W = (Ll.T @ Ll)[np.ix_(perm, perm)]
            p, pobs, chisq, K = expected_fit(pe, rows_all, y_all, W, [], npar)
            for order in itertools.permutations(keys):
                sub = dict(case, keys=list(keys), order=list(order), mode='user-labelled-in-other-order', labels=list(lab))
                try:
                    res = pe.least_squares({k: xs[k] for k in order}, {k: data[k] for k in order[::-1]}, {k: funcs[k] for k in order}, silent=True,
                                           correlated_fit=True, inv_chol_cov_matrix=[Ll, list(lab)])
                except Exception:
                    acc.ok(('comb-lab', layout, keys, order, lab), True, 'other-label-order-refused')
                    continue
                bad = compare_fit(pe, res, p, pobs, chisq, len(y_all), npar, 0, 1e-4, y_all, True)
                if bad:
                    acc.fail('fit-combined:matrix-labelled-in-other-order', sub, 'inverse Cholesky factor built and labelled in the key order %s was accepted, but the fit is not the GLS solution with that matrix: %s' % (list(lab), bad))
                else:
                    acc.ok(('comb-lab', layout, keys, order, lab), True, 'combined')
    acc.sample({'kind': 'combined', 'layout': layout, 'data_sets': ['a(4 pts: p0+p1 x)', 'b(3 pts: p0+p2 x)', 'c(2 pts: constant p1)'], 'orders': 'all key insertion orders'})


def run_corrfit(pe, acc, case):
    """Corr.fit: range inclusive, undefined timeslices skipped."""
    T = 7
    r = alpha.rng('c07corr')
    content = [pe.Obs([0.8 - 0.1 * t + 0.05 * r.normal(size=30)], ['A|r1']) for t in range(T)]
    for pattern in itertools.product([1, 0], repeat=T):
        if sum(pattern) < 4:
            continue
        C = pe.Corr([content[t] if pattern[t] else None for t in range(T)])
        C.gamma_method()
        for a, b in ((0, T - 1), (1, 5), (2, 6), (0, 3)):
            pts = [t for t in range(a, b + 1) if pattern[t]]
            sub = dict(case, pattern=list(pattern), fitrange=[a, b])
            if len(pts) < 3:
                continue
            ys = [content[t] for t in pts]
            [y.gamma_method() for y in ys]
            W = np.diag([1 / y.dvalue ** 2 for y in ys])
            p, pobs, chisq, K = expected_fit(pe, [[1.0, float(t)] for t in pts], ys, W, [], 2)
            try:
                res = C.fit(BASES['lin'][1], [a, b], silent=True)
            except Exception as e:
                acc.fail('corr-fit:raised', sub, repr(e))
                continue
            bad = compare_fit(pe, res, p, pobs, chisq, len(pts), 2, 0, 1e-4, ys, False)
            if bad:
                acc.fail('corr-fit', sub, 'Corr.fit over [%d,%d] with defined slices %s: %s' % (a, b, pts, bad))
            else:
                acc.ok(('cf', pattern, a, b), True, 'corr-fit')
    acc.sample({'kind': 'corrfit', 'T': T, 'ranges': [[0, 6], [1, 5], [2, 6], [0, 3]]})


def run_misc(pe, acc, case):
    """fit_lin dispatch and expected_chisquare."""
    for layout in ('indep', 'shared'):
        x, ys = make_y(pe, 'lin', 6, layout, 'misc')
        W = np.diag([1 / y.dvalue ** 2 for y in ys])
        p, pobs, chisq, K = expected_fit(pe, [[1.0, xi] for xi in x], ys, W, [], 2)
        for xin, nm in ((x, 'ndarray'), (list(map(float, x)), 'list')):
            res = pe.fits.fit_lin(xin, ys, silent=True)
            bad = None
            for k in range(2):
                got = compare.to_ref(res[k])
                bad = bad or ref.close(dict(pobs[k], value=got['value']), got, 1e-7) or (None if abs(got['value'] - p[k]) < 1e-6 else 'value')
            if bad:
                acc.fail('fit_lin', dict(case, layout=layout, x=nm), 'fit_lin with %s abscissa: %s' % (nm, bad))
            else:
                acc.ok(('fl', layout, nm), True, 'fit_lin')
        res = pe.least_squares(x, ys, BASES['lin'][1], silent=True, expected_chisquare=True)
        dy = np.array([y.dvalue for y in ys])
        Wd = np.diag(1 / dy)
        C = pe.covariance(ys)
        A = Wd @ np.array([[1.0, xi] for xi in x])
        P = A @ np.linalg.pinv(A.T @ A) @ A.T
        e = np.trace((np.eye(len(ys)) - P) @ Wd @ C @ Wd)
        if not abs(res.chisquare_by_expected_chisquare - res.chisquare / e) <= 1e-8 * abs(res.chisquare / e):
            acc.fail('expected-chisquare', dict(case, layout=layout), 'chisquare_by_expected_chisquare %r, formula %r' % (res.chisquare_by_expected_chisquare, res.chisquare / e))
        else:
            acc.ok(('ec', layout), True, 'expected-chisquare')
    acc.sample({'kind': 'misc', 'checks': ['fit_lin', 'expected_chisquare']})
