"""C19 Printed value(error) strings and scalar views agree with value and error.

E-PROD over (error decade x mantissa x value/error ratio x significance x flag); oracle in exact
rational arithmetic (fractions.Fraction of the binary floats)."""
import os
import math
import itertools
from fractions import Fraction
import numpy as np
from mc import engine
from mc.engine import Acc

LEVEL = 'exploration'
RULE = ('full product: error = mantissa x 10^e (e=-15..15; 11 mantissas (thorough: every two-digit mantissa with its .05 rounding edges, 281 values) + the floats adjacent to each power of ten) x '
        'value = error x ratio (17 ratios incl. 0, +-1e-3 .. +-1e6, 1e10, -3.3e13, 7.7e16, -1e20) x significance 1..6 x flag {"", "+", " "}; Obs '
        '(covariance-defined and Monte-Carlo) and CObs; each string parsed back and compared in exact rational '
        'arithmetic; prior parser on every string, least_squares acceptance on the default-significance slice; scalar '
        'views on every observable.  A case is one (value,error,significance,flag) tuple; all are non-trivial except '
        'ratio 0')
ASSUMPTIONS = ["one floating multiplication inside the formatter is granted 1e-15 relative slack",
               'printing more digits than requested is accepted (statement is silent); fewer is a violation']
EXHAUSTIVE = True
REPEAT = 2      # every case is evaluated twice in the same process: the second verdict must equal the first (call-history oracle)

MANT = [1.0, 1.04, 1.05, 1.5, 2.5, 9.4, 9.49, 9.5, 9.95, 9.96, 9.9995]
RATIOS = [0.0, 1e-3, -1e-3, 0.5, -0.5, 1.0, -1.0, 9.96, -9.96, 1e3, -1e3, 1e6, -1e6, 1e10, -3.3e13, 7.7e16, -1e20]


def build(tier, seed):
    cases = []
    es = range(-15, 16)
    for e in es:
        cases.append({'kind': 'grid', 'e': e})
    cases.append({'kind': 'noerror'})
    cases.append({'kind': 'views'})
    cases.append({'kind': 'mc'})
    cases.append({'kind': 'priorfit', 'tier': tier})
    return cases


def parse(s):
    """'value(error)' -> (Fraction value, Fraction error, Fraction unit) by the documented reading."""
    if not s.endswith(')') or s.count('(') != 1:
        return None
    v, e = s[:-1].split('(')
    try:
        V = Fraction(v.strip())
        if '.' in v:
            dec = len(v.strip().partition('.')[2])
        else:
            dec = 0
        if '.' in e:
            E = Fraction(e.strip())
            edec = len(e.strip().partition('.')[2])
            if edec != dec:
                return ('decimals', V, E, Fraction(1, 10 ** dec))
        else:
            E = Fraction(int(e)) / (10 ** dec)
    except (ValueError, ZeroDivisionError):
        return None
    return (None, V, E, Fraction(1, 10 ** dec))


def floor_log10(fr):
    """Exact floor(log10(fr)) for a positive Fraction."""
    e = int(math.floor(math.log10(float(fr))))
    while Fraction(10) ** e > fr:
        e -= 1
    while Fraction(10) ** (e + 1) <= fr:
        e += 1
    return e


def check_string(s, v, dv, sig):
    """None or a description of what is wrong with s as a rendering of v(dv) at 'sig' digits."""
    p = parse(s)
    if p is None:
        return 'not-parsable|string %r is not of the form value(error)' % s
    flag, V, E, unit = p
    if flag == 'decimals':
        return 'decimals|value and error of %r do not share the decimal place' % s
    fv, fd = Fraction(float(v)), Fraction(float(dv))
    if abs(V - fv) > unit / 2:
        return 'value-rounding|value %r printed as %s: off by more than half a unit (%s) of the last digit' % (v, s, float(unit))
    if abs(E - fd) > unit / 2 + fd * Fraction(1, 10 ** 15):
        return 'error-rounding|error %r printed as %s: off by more than half a unit (%s) of the last digit' % (dv, s, float(unit))
    if E <= 0:
        return 'error-zero|positive error %r printed as zero in %s' % (dv, s)
    need = Fraction(10) ** (floor_log10(E) - sig + 1)
    if unit > need:
        return 'too-few-digits|error in %s shows fewer than %d significant digits' % (s, sig)
    return None


def errs_for(e):
    base = 10.0 ** e
    mant = MANT
    if os.environ.get('VERIF_TIER') == 'thorough':     # every two-digit mantissa and the rounding edges around it
        mant = sorted(set(MANT + [round(1.0 + 0.1 * i, 1) for i in range(90)] + [round(1.0 + 0.1 * i, 1) + 0.05 for i in range(90)] + [round(1.0 + 0.1 * i, 1) + 0.0499999 for i in range(90)]))
    out = [m * base for m in mant]
    out += [float(np.nextafter(base, 0)), base, float(np.nextafter(base, np.inf))]
    return out


def run_case(case):
    pe = engine.import_pyerrors()
    acc = Acc()
    k = case['kind']
    if k == 'grid':
        for dv_target in errs_for(case['e']):
            for ratio in RATIOS:
                v = dv_target * ratio
                o = pe.cov_Obs(v, dv_target ** 2, 'cv')
                dv = float(o.dvalue)
                val = float(o.value)
                co = pe.CObs(o, pe.cov_Obs(-0.5 * v + dv_target, (2 * dv_target) ** 2, 'cw'))
                for sig in range(1, 7):
                    sub = {'kind': 'one', 'v': v, 'dv_target': dv_target, 'sig': sig}
                    base = format(o, str(sig))
                    bad = check_string(base, val, dv, sig)
                    if bad:
                        acc.fail('format:' + bad.split('|')[0], sub, bad)
                        continue
                    for fl in ('+', ' '):
                        s = format(o, fl + str(sig))
                        exp = base if base.startswith('-') else fl + base
                        if s != exp:
                            acc.fail('format:flag', dict(sub, flag=fl), 'format %r gives %r, expected %r' % (fl + str(sig), s, exp))
                        else:
                            acc.ok(('g', v, dv_target, sig, fl), ratio != 0.0, 'flag-ok')
                    # prior parser returns exactly the printed pair
                    pv, pd = pe.fits._extract_val_and_dval(base)
                    _, V, E, unit = parse(base)
                    if abs(Fraction(pv) - V) > abs(V) * Fraction(1, 10 ** 15) or abs(Fraction(pd) - E) > E * Fraction(2, 10 ** 15):
                        acc.fail('prior:parser', sub, 'prior string %r parsed as (%r, %r), printed pair is (%s, %s)' % (base, pv, pd, float(V), float(E)))
                    else:
                        acc.ok(('p', v, dv_target, sig), ratio != 0.0, 'string-ok')
                    # complex observable: both parts printed this way
                    cs = format(co, str(sig))
                    badc = check_cobs_string(cs, co, sig)
                    if badc:
                        acc.fail('format:cobs', sub, badc)
                    else:
                        acc.ok(('c', v, dv_target, sig), ratio != 0.0, 'cobs-ok')
                if str(o) != format(o, '2') or format(o, '') != format(o, '2') or repr(o) != 'Obs[' + str(o) + ']':
                    acc.fail('format:default', {'kind': 'one', 'v': v, 'dv_target': dv_target, 'sig': 2},
                             'str/format("")/repr disagree with two significant digits: %r %r %r' % (str(o), format(o, ''), repr(o)))
                badc = check_cobs_string(str(co), co, 2, plain=True)
                if badc:
                    acc.fail('format:cobs-str', {'kind': 'one', 'v': v, 'dv_target': dv_target, 'sig': 2}, badc)
                # a bare flag is the flag with the default two digits; imaginary (and real) parts that are +0.0 / -0.0
                badf = None
                for fl in ('+', ' '):
                    for obj, nm in ((o, 'Obs'), (co, 'CObs')):
                        try:
                            if format(obj, fl) != format(obj, fl + '2'):
                                badf = badf or 'format(%s, %r) = %r, format(%s, %r) = %r' % (nm, fl, format(obj, fl), nm, fl + '2', format(obj, fl + '2'))
                        except Exception as e:
                            badf = badf or 'format(%s, %r) raised %s: %s' % (nm, fl, type(e).__name__, e)
                if badf:
                    acc.fail('format:bare-flag', {'kind': 'one', 'v': v, 'dv_target': dv_target, 'sig': 2}, badf)
                else:
                    acc.ok(('bf', v, dv_target), True, 'flag-ok')
                if ratio in (0.0, 1.0):
                    for zr, zi in ((v, 0.0), (v, -0.0), (0.0, v), (-0.0, -0.0)):
                        cz = pe.CObs(pe.cov_Obs(zr, dv_target ** 2, 'cv'), pe.cov_Obs(zi, (2 * dv_target) ** 2, 'cw'))
                        badz = check_cobs_string(str(cz), cz, 2, plain=True) or check_cobs_string(format(cz, '3'), cz, 3) or check_cobs_string(repr(cz)[5:-1], cz, 2, plain=True)
                        if badz:
                            acc.fail('format:cobs-zero-part', {'kind': 'one', 'v': v, 'dv_target': dv_target, 'sig': 2, 'parts': [repr(zr), repr(zi)]}, 'CObs with parts %r, %r: %s' % (zr, zi, badz))
                        else:
                            acc.ok(('cz', v, dv_target, repr(zr), repr(zi)), True, 'cobs-ok')
                # scalar views
                bad = check_views(pe, o, val, dv)
                if bad:
                    acc.fail('views:' + bad[0], {'kind': 'one', 'v': v, 'dv_target': dv_target, 'sig': 2}, bad[1])
                else:
                    acc.ok(('v', v, dv_target), True, 'views-ok')
        acc.sample({'kind': 'grid', 'e': case['e'], 'error': errs_for(case['e'])[4], 'ratio': RATIOS[3], 'sig': 2, 'flag': '+'})
    elif k == 'one':
        o = pe.cov_Obs(case['v'], case['dv_target'] ** 2, 'cv')
        bad = check_string(format(o, str(case['sig'])), float(o.value), float(o.dvalue), case['sig'])
        if bad:
            acc.fail('format:replay', case, bad)
        else:
            acc.ok('one', True)
    elif k == 'noerror':
        from mc import alpha
        for i, v in enumerate([0.0, 1.5, -2.25, 1e-7, 123456.789, -1e20]):
            o = pe.Obs([v + 0.1 * alpha.rng('c19n', i).normal(size=8)], ['A|r1'])
            if str(o) != str(o.value) or format(o, '3') != str(o.value):
                acc.fail('format:noerror-fresh', case, 'unanalysed observable prints %r, value is %r' % (str(o), o.value))
            else:
                acc.ok(('ne', i), True, 'plain-value')
            c = pe.Obs([np.full(8, v)], ['A|r1'])
            c.gamma_method()
            if str(c) != str(c.value):
                acc.fail('format:noerror-const', case, 'zero-error observable prints %r, value is %r' % (str(c), c.value))
            else:
                acc.ok(('nc', i), True, 'plain-value')
        acc.sample({'kind': 'noerror', 'value': 1.5})
    elif k == 'mc':
        from mc import alpha
        for i, (m, s) in enumerate(itertools.product([0.0, 1.0, -37.2, 4.2e5, 3e-9], [1e-12, 3.3e-4, 0.1, 2.7, 950.0, 1.234e7])):
            r = alpha.rng('c19mc', i)
            o = pe.Obs([m + s * r.normal(size=40), m + s * r.normal(size=25)], ['A|r1', 'A|r2'])
            o.gamma_method()
            if o.dvalue == 0.0:  # fluctuations below the floating-point resolution of the mean
                if str(o) != str(o.value):
                    acc.fail('format:noerror-mc', dict(case, i=i), 'zero-error observable prints %r' % str(o))
                continue
            for sig in range(1, 7):
                bad = check_string(format(o, str(sig)), float(o.value), float(o.dvalue), sig)
                if bad:
                    acc.fail('format:mc', dict(case, i=i, sig=sig), bad)
                else:
                    acc.ok(('mc', i, sig), True, 'string-ok')
            bad = check_views(pe, o, float(o.value), float(o.dvalue))
            if bad:
                acc.fail('views:' + bad[0], dict(case, i=i), bad[1])
            else:
                acc.ok(('mcv', i), True, 'views-ok')
        acc.sample({'kind': 'mc', 'mean': -37.2, 'sigma': 0.1, 'replicas': 2})
    elif k == 'views':
        from mc import alpha
        # plottable view of a correlator: exactly the stored values and errors of the defined slices
        r = alpha.rng('c19corr')
        for pattern in itertools.product([0, 1], repeat=4):
            if not any(pattern):
                continue
            content = []
            vals, errs, xs = [], [], []
            for t, p in enumerate(pattern):
                if p:
                    o = pe.Obs([t + 1.0 + 0.1 * r.normal(size=10)], ['A|r1'])
                    o.gamma_method()
                    content.append(o)
                    xs.append(t)
                    vals.append(o.value)
                    errs.append(o.dvalue)
                else:
                    content.append(None)
            c = pe.Corr(content)
            x, y, e = c.plottable()
            bad = None
            if list(x) != xs or list(y) != vals or list(e) != errs:
                bad = 'plottable() = %r, expected %r' % ((x, y, e), (xs, vals, errs))
            else:
                # call history: the caller edits the lists it got; the observables are analysed again with other parameters through
                # another handle; a second view must show the current values and errors
                try:
                    x.append(99)
                    y[:] = [0.0] * len(y)
                    e.clear()
                except AttributeError:
                    pass
                for o in content:
                    if o is not None:
                        o.gamma_method(S=0)
                errs2 = [o.dvalue for o in content if o is not None]
                x2, y2, e2 = c.plottable()
                if list(x2) != xs or list(y2) != vals or list(e2) != errs2:
                    bad = 'second plottable() after the observables were analysed again with S=0 and the first result was edited: %r, expected %r' % ((x2, y2, e2), (xs, vals, errs2))
            if bad:
                acc.fail('views:plottable', dict(case, pattern=list(pattern)), bad)
            else:
                acc.ok(('pl', pattern), True, 'plottable-ok')
        acc.sample({'kind': 'views', 'pattern': [1, 0, 1, 1]})
    elif k == 'priorfit':
        # least_squares accepts the printed strings as priors with exactly that value and error
        from mc import alpha
        r = alpha.rng('c19fit')
        xs = np.arange(1, 6)
        ys = [pe.Obs([1.0 + 0.5 * x + 0.1 * r.normal(size=12)], ['E%d|r1' % x]) for x in xs]
        [y.gamma_method() for y in ys]
        es = range(-6, 7, 1 if case['tier'] == 'thorough' else 3)
        nfit, previous = 0, None
        for e in es:
            for m in (1.0, 2.5, 9.96):
                for ratio in (0.5, -9.96, 1e3):
                    dv = m * 10.0 ** e
                    o = pe.cov_Obs(dv * ratio, dv ** 2, 'cv')
                    s = str(o)
                    _, V, E, unit = parse(s)
                    sub = dict(case, e=e, m=m, ratio=ratio)
                    pos = nfit % 2          # the position alternates from fit to fit
                    nfit += 1
                    try:
                        res = pe.least_squares(xs, ys, lambda a, x: a[0] + a[1] * x, priors={pos: s}, silent=True)
                    except Exception as ex:
                        acc.fail('prior:fit-raised', sub, 'least_squares rejected prior %r: %r' % (s, ex))
                        continue
                    bad = None
                    if sorted(res.priors) != [pos]:
                        bad = 'the fit was given a prior at position %d and reports priors at positions %s' % (pos, sorted(res.priors))
                    else:
                        pr = res.priors[pos]
                        if abs(Fraction(float(pr.value)) - V) > abs(V) * Fraction(1, 10 ** 15) or \
                                abs(Fraction(float(pr.dvalue)) - E) > E * Fraction(4, 10 ** 15):
                            bad = 'prior %r became %r +- %r' % (s, pr.value, pr.dvalue)
                    if not bad and previous is not None:
                        pres, ppos, pV, pE = previous
                        if sorted(pres.priors) != [ppos] or abs(Fraction(float(pres.priors[ppos].value)) - pV) > abs(pV) * Fraction(1, 10 ** 15) or \
                                abs(Fraction(float(pres.priors[ppos].dvalue)) - pE) > pE * Fraction(4, 10 ** 15):
                            bad = 'the priors reported by the PREVIOUS fit result changed after this fit: positions %s' % sorted(pres.priors)
                    previous = (res, pos, V, E)
                    # ... and acts with exactly that value and error, on that parameter: closed-form solution of the straight-line fit
                    # with one Gaussian prior row, for the uncorrelated and the correlated chi-square (independent points)
                    if not bad:
                        A = np.array([[1.0, float(x)] for x in xs])
                        W = np.diag([1.0 / y.dvalue ** 2 for y in ys])
                        yv = np.array([y.value for y in ys])
                        ep = np.zeros(2)
                        ep[pos] = 1.0
                        wv, ww = float(V), 1.0 / float(E) ** 2
                        pexp = np.linalg.solve(A.T @ W @ A + ww * np.outer(ep, ep), A.T @ W @ yv + ww * wv * ep)
                        for mode, kw in (('uncorrelated', {}), ('correlated', {'correlated_fit': True})):
                            try:
                                rf = res if not kw else pe.least_squares(xs, ys, lambda a, x: a[0] + a[1] * x, priors={pos: s}, silent=True, **kw)
                                got = np.array([q.value for q in rf.fit_parameters])
                                scale = np.array([max(abs(pexp[i]), float(np.sqrt(np.linalg.inv(A.T @ W @ A + ww * np.outer(ep, ep))[i, i]))) for i in range(2)])
                                if not np.all(np.abs(got - pexp) <= 2e-5 * scale):
                                    bad = '%s fit with the prior %r on parameter %d gives %s, the solution with exactly that value and error on that parameter is %s' % (mode, s, pos, got, pexp)
                            except Exception as ex:
                                bad = '%s fit with prior %r raised %r' % (mode, s, ex)
                            if bad:
                                break
                    if bad:
                        acc.fail('prior:fit-value', sub, bad)
                    else:
                        acc.ok(('pf', e, m, ratio), True, 'prior-accepted')
        acc.sample({'kind': 'priorfit', 'prior': '0.50(1.0)'})
    return acc


def check_cobs_string(cs, co, sig, plain=False):
    """'(re(err)+im(err)j)'."""
    if not (cs.startswith('(') and cs.endswith('j)')):
        return 'complex observable prints as %r' % cs
    body = cs[1:-2]
    # split at the sign that follows the first ')'
    i = body.find(')')
    if i < 0 or i + 1 >= len(body) or body[i + 1] not in '+-':
        return 'complex observable prints as %r' % cs
    re_s, im_s = body[:i + 1], body[i + 1:]
    b1 = check_string(re_s, float(co.real.value), float(co.real.dvalue), sig)
    if b1:
        return 'real part: ' + b1
    if im_s[0] == '+':
        im_s = im_s[1:]
        if im_s[:1] in ('+', '-'):
            return 'complex observable prints as %r: two signs in front of the imaginary part' % cs
    b2 = check_string(im_s, float(co.imag.value), float(co.imag.dvalue), sig)
    if b2:
        return 'imaginary part: ' + b2
    return None


def check_views(pe, o, val, dv):
    if float(o) != val:
        return ('float', 'float(obs)=%r, value=%r' % (float(o), val))
    for x in (val, np.nextafter(val, np.inf), np.nextafter(val, -np.inf), 0.0):
        x = float(x)
        got = (o < x, o <= x, o > x, o >= x)
        exp = (val < x, val <= x, val > x, val >= x)
        if tuple(bool(g) for g in got) != exp:
            return ('ordering', 'comparisons of %r with %r give %r, expected %r' % (val, x, got, exp))
    # ... and with other observables (distinct objects with the same / a neighbouring central value, another error, another chain)
    # and numpy scalars, on either side
    for x in (val, float(np.nextafter(val, np.inf)), float(np.nextafter(val, -np.inf))):
        partners = [pe.cov_Obs(x, (3 * dv + 1e-300) ** 2, 'cview'), pe.cov_Obs(x, (0.1 * dv + 1e-300) ** 2, 'cv'), np.float64(x)]
        for pt in partners:
            pv = float(pt.value) if isinstance(pt, pe.Obs) else float(pt)
            if pv != x:
                continue
            got = (o < pt, o <= pt, o > pt, o >= pt, pt < o, pt <= o, pt > o, pt >= o)
            exp = (val < x, val <= x, val > x, val >= x, x < val, x <= val, x > val, x >= val)
            if tuple(bool(g) for g in got) != exp:
                return ('ordering', 'comparisons (<, <=, >, >=, and reflected) of %r with the %s of central value %r give %r, expected %r' % (
                    val, 'observable' if isinstance(pt, pe.Obs) else 'numpy scalar', x, tuple(bool(g) for g in got), exp))
    if dv > 0 and val != 0:
        q = abs(val) / dv
        for sg in (q * (1 - 1e-9), q * (1 + 1e-9), q / 2, q * 2, 1, 3):
            exp = abs(val) <= sg * dv
            if bool(o.is_zero_within_error(sg)) != exp:
                # values and fluctuations below 1e-10 in absolute size: reported under their own signature
                tiny = ':tiny-value' if (abs(val) < 1.0000001e-10 and exp is False) else ''
                return ('zero-within-error' + tiny, 'is_zero_within_error(%r) = %r for %r +- %r' % (sg, o.is_zero_within_error(sg), val, dv))
    return None
