"""C02 Gamma-method error estimate equals Wolff's estimator on every chain layout.

E-PROD over (layout x data shape x S x tau_exp x N_sigma x fft x parameter source), every chain
length 5..40(120); oracle: mc.ref.r_gamma (explicit pair enumeration, no FFT, no zero padding)."""
import os
import math
import itertools
import numpy as np
from mc import engine, alpha, ref, compare
from mc.engine import Acc

LEVEL = 'exploration'
RULE = ('full product: (a) every contiguous chain length 5..40 (quick) / 5..120 and every fifth length up to 400 (thorough) x 5 data shapes (white, AR(1), constant, alternating, random walk) x 10 '
        'analysis-parameter combinations x fft on/off; (b) every layout of the shared alphabet, enlarged x1 and x4, plus '
        'commensurate/non-commensurate replica spacings, multi-ensemble and covariance-input observables x data shape x '
        '(S in {0,1,2,3.5}; tau_exp in {0,2,10} x N_sigma in {0,1,2}) x fft x parameter source {keyword, per-ensemble '
        'dict, global default}.  Compared per ensemble: error, error of the error, tau_int and its error, window, rho '
        '(whole array), drho at every index the method fills, cumulative tau_int arrays, totals incl. J Sigma J^T.  '
        'Non-trivial = the window is > 0 or the layout is not a single contiguous chain or a non-default parameter')
ASSUMPTIONS = ['the largest admissible lag (w_max) is mirrored from the implementation (statement: "largest admissible lag")',
               'cases whose windowing criterion is within 1e-9 of zero at a decision lag are skipped and counted',
               'fluctuations are taken from the observable (their correctness is C01)']
EXHAUSTIVE = True
REPEAT = 2      # every case is evaluated twice in the same process: the second verdict must equal the first (call-history oracle)
CHUNK = 2

PARAMS = [{'S': 2.0}, {'S': 0}, {'S': 1}, {'S': 3.5}, {'tau_exp': 2, 'N_sigma': 1}, {'tau_exp': 2, 'N_sigma': 0},
          {'tau_exp': 2, 'N_sigma': 2}, {'tau_exp': 10, 'N_sigma': 1}, {'tau_exp': 10, 'N_sigma': 0}, {'tau_exp': 10, 'N_sigma': 2}]
DATA = ['white', 'ar1', 'const', 'alt', 'walk']


def enlarge(cfgs, reps):
    gap = min(b - a for a, b in zip(cfgs, cfgs[1:]))
    period = cfgs[-1] - cfgs[0] + gap
    return [c + k * period for k in range(reps) for c in cfgs]


EXTRA_LAYOUTS = [
    {'A|r1': list(range(2, 60, 2)), 'A|r2': list(range(1000, 1080, 4))},            # commensurate spacings 2 | 4
    {'A|r1': list(range(3, 63, 3)), 'A|r2': [6, 12, 18, 30, 36, 48, 54, 60]},         # list with spacing 6 vs range 3
    {'A|r1': list(range(1, 31)), 'A|r10': list(range(5, 25)), 'A|r2': list(range(100, 110))},
    {'A|r1': list(range(1, 17, 3)), 'A|r2': list(range(2, 13, 2))},                   # NON-commensurate (3 vs 2)
    {'A|r1': [1, 3, 4, 6, 9, 10, 12, 15, 16, 18, 21], 'A|r2': list(range(1, 40, 2))},
    # many short replicas: N is large while the admissible lag is small -> the window reaches the cap
    {'A|r%d' % i: list(range(1, 9)) for i in range(1, 5)},
    {'A|r%d' % i: list(range(1, 7)) for i in range(1, 7)},
    {'A|r%d' % i: list(range(i, i + 10)) for i in range(1, 4)},
    # irregular chains far from configuration 1 (the admissible lag must not depend on absolute numbers)
    {'A|r1': [1000 + c for c in enlarge(alpha.CFG['irr'], 4)]},
    {'A|r1': [501 + 2 * c for c in enlarge(alpha.CFG['irr2'], 3)], 'A|r2': [7 + 2 * c for c in enlarge(alpha.CFG['irr'], 2)]},
]


def all_layouts(tier):
    out = []
    for lay in alpha.layouts(tier):
        for reps in (1, 4):
            out.append({n: enlarge(alpha.CFG[c], reps) for n, c in lay.items()})
    return out + EXTRA_LAYOUTS


def build(tier, seed):
    cases = []
    nmax = 40 if tier == 'quick' else 120
    for n in range(5, nmax + 1):
        cases.append({'kind': 'len', 'n': n})
    if tier == 'thorough':      # beyond 120: every fifth length up to 400 (the pair-enumeration reference is O(n * w_max))
        for n in range(125, 401, 5):
            cases.append({'kind': 'len', 'n': n})
    nl = len(all_layouts(tier))
    for i in range(nl):
        for d in DATA:
            cases.append({'kind': 'lay', 'lay': i, 'data': d})
    cases.append({'kind': 'multi'})
    # data of other scales: everything the estimator reports is relative to the scale of the fluctuations
    for d in ('white', 'ar1', 'alt'):
        cases.append({'kind': 'scale', 'data': d})
    # call history: observables on configuration lists that are easily confused (same first / last / number of configurations / gap,
    # different holes) analysed one after the other in one process, in both orders, alone and as one replica among two
    for d in DATA:
        cases.append({'kind': 'sequence', 'data': d})
    return cases


def _set_source(pe, source, pars, ens_names):
    """Deliver the parameters through keyword / per-ensemble dictionary / global default."""
    kw = {}
    if source == 'kw':
        kw = dict(pars)
    elif source == 'dict':
        for k, v in pars.items():
            for e in ens_names:
                getattr(pe.Obs, k + '_dict')[e] = v
    elif source == 'global':
        for k, v in pars.items():
            setattr(pe.Obs, k + '_global', v)
    return kw


def _reset(pe):
    pe.Obs.S_global = 2.0
    pe.Obs.tau_exp_global = 0.0
    pe.Obs.N_sigma_global = 1.0
    pe.Obs.S_dict.clear()
    pe.Obs.tau_exp_dict.clear()
    pe.Obs.N_sigma_dict.clear()


def analyse_and_compare(pe, o, pars, fft, source, samples=None, before=None):
    """Runs gamma_method on a fresh copy and compares with the reference.
    Returns (status, text, info): status in ok / skip / fail."""
    import copy
    o = copy.deepcopy(o)
    r = compare.to_ref(o)
    S = pars.get('S', 2.0)
    te = pars.get('tau_exp', 0.0)
    ns = pars.get('N_sigma', 1.0)
    exp = ref.r_gamma(r, S, te, ns)
    refusal = [v for v in exp.values() if isinstance(v, str)]
    if before is not None:
        before()            # call history: analyses made before the parameters are set (no reset in between)
    kw = _set_source(pe, source, pars, list(exp))
    if not fft:
        kw['fft'] = False
    try:
        try:
            o.gamma_method(**kw)
            raised = None
        except Exception as e:
            raised = e
    finally:
        _reset(pe)
    if refusal:
        if raised is None:
            return 'fail', 'expected a refusal (%s) but the analysis returned dvalue=%r' % (refusal[0], o.dvalue), 'refusal-missing'
        return 'ok', None, 'refused:' + refusal[0]
    if raised is not None:
        return 'fail', 'gamma_method raised %s: %s' % (type(raised).__name__, raised), 'raised'
    # rounding-critical window decisions
    for e, x in exp.items():
        if not x.get('const') and any(abs(m) < 1e-9 for m in x.get('margins', [])):
            return 'skip', None, 'margin'
    rt = 1e-9
    W = 0
    for e, x in exp.items():
        def cmp(name, got, want, tol=rt, sc=None):
            sc = max(abs(want), 1e-300) if sc is None else sc
            if not (abs(got - want) <= tol * sc):
                return '%s[%s]: expected %.15g got %.15g' % (name, e, want, got)
        if o.e_windowsize[e] != x['W']:
            return 'fail', 'window[%s]: expected %d got %d' % (e, x['W'], o.e_windowsize[e]), 'window'
        W = max(W, x['W'])
        dvs = max(x['dvalue'], 1e-300)
        for name, got, want in (('e_dvalue', o.e_dvalue[e], x['dvalue']), ('e_ddvalue', o.e_ddvalue[e], x['ddvalue']),
                                ('e_tauint', o.e_tauint[e], x['tauint']), ('e_dtauint', o.e_dtauint[e], x['dtauint'])):
            bad = cmp(name, got, want, sc=max(abs(want), 1e-300) if want != 0 else 1e-12)
            if bad:
                return 'fail', bad, name
        if x.get('const'):
            continue
        if len(o.e_rho[e]) != x['wmax']:
            return 'fail', 'rho[%s] has %d entries, expected %d' % (e, len(o.e_rho[e]), x['wmax']), 'e_rho'
        for name, got, want in (('e_rho', o.e_rho[e], x['rho']), ('e_n_tauint', o.e_n_tauint[e], x['n_tauint']),
                                ('e_n_dtauint', o.e_n_dtauint[e], x['n_dtauint'])):
            d = np.max(np.abs(np.asarray(got) - want))
            if not d <= 1e-9 * max(1.0, np.max(np.abs(want))):
                i = int(np.argmax(np.abs(np.asarray(got) - want)))
                return 'fail', '%s[%s][%d]: expected %.15g got %.15g' % (name, e, i, want[i], got[i]), name
        for i, want in x['drho'].items():
            if not abs(o.e_drho[e][i] - want) <= 1e-9 * max(1.0, want):
                return 'fail', 'e_drho[%s][%d]: expected %.15g got %.15g' % (e, i, want, o.e_drho[e][i]), 'e_drho'
        if S == 0 and te == 0 and samples is not None and len(r['chains']) == 1:
            xs = np.asarray(list(samples.values())[0], dtype=float)
            naive = np.std(xs, ddof=1) / math.sqrt(len(xs))
            if not abs(o.e_dvalue[e] - naive) <= 1e-12 * naive:
                return 'fail', 'S=0 error %r is not the naive standard error %r' % (o.e_dvalue[e], naive), 'naive'
    per = {e: x for e, x in exp.items()}
    dv, ddv, cov_err = ref.r_total_error(r, per)
    for n, v in cov_err.items():
        if not abs(o.e_dvalue[n] - math.sqrt(v)) <= 1e-12 * max(math.sqrt(v), 1e-300):
            return 'fail', 'covariance input %s: error %r expected %r' % (n, o.e_dvalue[n], math.sqrt(v)), 'cov-term'
    if not abs(o.dvalue - dv) <= rt * max(dv, 1e-300) or not abs(o.ddvalue - ddv) <= rt * max(ddv, 1e-12):
        return 'fail', 'total error: expected %.15g +- %.15g got %.15g +- %.15g' % (dv, ddv, o.dvalue, o.ddvalue), 'total'
    if set(o.e_dvalue) != set(exp) | set(cov_err):
        return 'fail', 'entries of e_dvalue %s' % sorted(o.e_dvalue), 'keys'
    if any((not x.get('const')) and x['W'] == x['wmax'] - 1 and te == 0 and S > 0 for x in exp.values()):
        return 'ok', None, 'W=cap'
    return 'ok', None, 'W>0' if W > 0 else 'W=0'


def _sig(info, pars, fft, source):
    p = 'tauexp' if pars.get('tau_exp', 0) > 0 else ('S0' if pars.get('S', 2.0) == 0 else 'std')
    return 'gamma:%s:%s:%s:%s' % (info, p, 'fft' if fft else 'nofft', source)


def run_case(case):
    pe = engine.import_pyerrors()
    acc = Acc()
    kind = case['kind']
    tier = os.environ.get('VERIF_TIER', 'quick')
    if kind == 'len':
        n = case['n']
        lay = {'A|r1': list(range(1, n + 1))}
        for d in ([case['data']] if 'data' in case else DATA):
            o, samples, cfgs = alpha.make_obs(pe, lay, ('c02len', n, d), d)
            for pi, pars in enumerate(PARAMS):
                for fft in (True, False):
                    sub = dict(case, data=d, pars=pars, fft=fft, source='kw')
                    if 'pars' in case and (case['pars'] != pars or case['fft'] != fft):
                        continue
                    st, txt, info = analyse_and_compare(pe, o, pars, fft, 'kw', samples)
                    if st == 'fail':
                        acc.fail(_sig(info, pars, fft, 'kw'), sub, 'n=%d data=%s pars=%s fft=%s: %s' % (n, d, pars, fft, txt))
                    elif st == 'skip':
                        acc.skip(info)
                    else:
                        acc.ok(('len', n, d, pi, fft), info != 'W=0' or pi > 0 or not fft, info)
        acc.sample({'kind': 'len', 'n': n, 'data': DATA, 'params': PARAMS[4], 'fft': [True, False]})
    elif kind == 'lay':
        lay = all_layouts(tier)[case['lay']]
        d = case['data']
        o, samples, cfgs = alpha.make_obs(pe, lay, ('c02lay', case['lay'], d), d)
        for pi, pars in enumerate(PARAMS):
            for fft in (True, False):
                for source in ('kw', 'dict', 'global'):
                    if 'pars' in case and (case['pars'] != pars or case['fft'] != fft or case['source'] != source):
                        continue
                    sub = dict(case, pars=pars, fft=fft, source=source)
                    st, txt, info = analyse_and_compare(pe, o, pars, fft, source, samples)
                    if st == 'fail':
                        acc.fail(_sig(info, pars, fft, source), sub, 'layout %s data=%s pars=%s fft=%s source=%s: %s' % (
                            {k: (v[:3] + ['..'] + v[-1:]) for k, v in lay.items()}, d, pars, fft, source, txt))
                    elif st == 'skip':
                        acc.skip(info)
                    else:
                        acc.ok(('lay', case['lay'], d, pi, fft, source), True, info)
        acc.sample({'kind': 'lay', 'layout': {k: v[:4] + ['...'] + v[-1:] for k, v in lay.items()}, 'data': d})
    elif kind == 'sequence':
        d = case['data']
        groups = [['eqA', 'eqB'], ['eqC', 'eqD'], ['trA', 'trB'], ['irr', 'irr2', 'g2']]
        extra = {'h1': [1, 2, 3, 5, 6, 8, 9, 10, 12, 13, 14, 16], 'h2': [1, 2, 4, 5, 6, 7, 9, 11, 12, 14, 15, 16], 'h3': [1, 3, 4, 5, 7, 8, 9, 10, 11, 13, 15, 16]}
        groups.append(sorted(extra))
        cfg = dict(alpha.CFG, **extra)
        for gi, grp in enumerate(groups):
            for order in itertools.permutations(grp):
                for second_replica in (False, True):
                    for pars in (PARAMS[0], PARAMS[4]):
                        for ci, cid in enumerate(order):
                            lay = {'A|r1': enlarge(cfg[cid], 3)}
                            if second_replica:
                                lay['A|r2'] = enlarge(cfg['c8'], 3)
                            o, samples, cfgs = alpha.make_obs(pe, lay, ('c02seq', gi, cid, d, second_replica), d)
                            sub = dict(case, group=gi, order=list(order), position=ci, second_replica=second_replica, pars=pars)
                            st, txt, info = analyse_and_compare(pe, o, pars, True, 'kw', samples)
                            if st == 'fail':
                                acc.fail('gamma-sequence:' + info, sub, 'analysed as number %d of the sequence %s%s (%s data, %s): %s' % (
                                    ci + 1, list(order), ' + replica r2' if second_replica else '', d, pars, txt))
                            elif st == 'skip':
                                acc.skip(info)
                            else:
                                acc.ok(('seq', gi, order, ci, second_replica, d, repr(pars)), True, 'sequence:' + info)
        # parameters delivered through the global default / the per-ensemble dictionary AFTER default analyses of the same
        # ensemble (same object, another object, a derived object) have been made in this process
        import copy
        lay = {'A|r1': enlarge(cfg['eqA'], 3), 'A|r2': enlarge(cfg['c8'], 3)}
        o, samples, cfgs = alpha.make_obs(pe, lay, ('c02glob', d), d)
        other, _, _ = alpha.make_obs(pe, {'A|r1': enlarge(cfg['c12'], 3)}, ('c02glob-other', d), d)

        def prelude():
            for x in (copy.deepcopy(o), other, other * 2.0):
                try:
                    x.gamma_method()
                except Exception:
                    pass
        for pars in (PARAMS[3], PARAMS[1], PARAMS[4], PARAMS[7]):
            for source in ('global', 'dict', 'kw'):
                sub = dict(case, part='after-default-analyses', pars=pars, source=source)
                st, txt, info = analyse_and_compare(pe, o, pars, True, source, samples, before=prelude)
                if st == 'fail':
                    acc.fail('gamma-sequence:after-default:' + info, sub, 'parameters %s given as %s after default analyses on the same ensemble (%s data): %s' % (pars, source, d, txt))
                elif st == 'skip':
                    acc.skip(info)
                else:
                    acc.ok(('seq-glob', d, repr(pars), source), True, 'sequence:after-default')
        # an observable with a covariance input given as ndarray: analysed, the caller re-uses its array, analysed again
        S0 = np.array(alpha.cov_matrix(2, True, 'c02alias'), dtype=float)
        S = S0.copy()
        cl = pe.cov_Obs([0.7, 1.1], S, 'cvalias')
        mixed = o * cl[0] + cl[1]
        mixed.gamma_method()
        first = (mixed.dvalue, dict(mixed.e_dvalue))
        S *= 25.0
        S[0, 1] = S[1, 0] = 0.0
        again = o * cl[0] + cl[1]
        for x in (mixed, again):
            x.gamma_method()
            if x.dvalue != first[0] or dict(x.e_dvalue) != first[1]:
                acc.fail('gamma-sequence:covariance-input-aliasing', dict(case, part='cov-alias'), 'error %r -> %r after the caller modified the array it had passed to cov_Obs' % (first[0], x.dvalue))
                break
        else:
            acc.ok(('seq-cov-alias', d), True, 'sequence:cov-alias')
        acc.sample({'kind': 'sequence', 'groups': groups, 'data': d, 'orders': 'every permutation of each group'})
    elif kind == 'scale':
        d = case['data']
        lays = [{'A|r1': enlarge(alpha.CFG['c12'], 4)}, {'A|r1': enlarge(alpha.CFG['irr'], 3), 'A|r2': enlarge(alpha.CFG['c8'], 3)}]
        for li, lay in enumerate(lays):
            base, samples, cfgs = alpha.make_obs(pe, lay, ('c02scale', li, d), d)
            for sname, (mult, offset) in {'1e-9': (1e-9, 0.0), '1e-13': (1e-13, 0.0), '1e9': (1e9, 0.0), 'mean 1e6, fluctuations 1e-3': (1e-2, 1e6), 'mean 250, fluctuations 1e-6': (1e-5, 250.0),
                                          'mean -1e9, fluctuations 1': (10.0, -1e9)}.items():
                names = sorted(lay)
                o = pe.Obs([mult * samples[n] + offset for n in names], names, idl=[alpha.idl_carrier(cfgs[n]) for n in names])
                for pars in (PARAMS[0], PARAMS[1], PARAMS[4], PARAMS[7]):
                    for fft in (True, False):
                        sub = dict(case, lay=li, scale=sname, pars=pars, fft=fft)
                        st, txt, info = analyse_and_compare(pe, o, pars, fft, 'kw')
                        if st == 'fail':
                            acc.fail('gamma-scale:' + info, sub, 'data scaled to %s (%s, layout %d, %s, fft=%s): %s' % (sname, d, li, pars, fft, txt))
                        elif st == 'skip':
                            acc.skip(info)
                        else:
                            acc.ok(('scale', li, d, sname, repr(pars), fft), True, 'scale:' + info)
        # covariance inputs with a tiny variance, alone and next to Monte-Carlo data
        m = alpha.make_obs(pe, lays[0], ('c02scale-m', d), d)[0]
        for val, err in ((3e-9, 4e-10), (1.0, 1e-9), (2.5e-12, 1e-13)):
            t = pe.cov_Obs(val, err ** 2, 'cvtiny')
            for nm, x in (('input', t * 1.0), ('product', m * t), ('sum', 1e-9 * m + t)):
                for pars in (PARAMS[0], PARAMS[4]):
                    sub = dict(case, what=nm, value=val, error=err, pars=pars)
                    st, txt, info = analyse_and_compare(pe, x, pars, True, 'kw')
                    if st == 'fail':
                        acc.fail('gamma-scale:covariance-input:' + info, sub, 'covariance input %g +- %g (%s, %s): %s' % (val, err, nm, pars, txt))
                    elif st == 'skip':
                        acc.skip(info)
                    else:
                        acc.ok(('scale-cov', d, nm, val, repr(pars)), True, 'scale:covariance-input')
        acc.sample(dict(case, scales=['1e-9', '1e-13', '1e9', 'mean 1e6 / 1e-3', 'mean 250 / 1e-6', 'mean -1e9 / 1']))
    elif kind == 'multi':
        # several ensembles, covariance inputs, per-ensemble parameters
        lays = alpha.layouts(tier)
        combos = [([0, 11], None), ([8, 11], 0), ([10, 11, 13], 1), ([5], 2), ([12, 11], None)]
        for ci, (ls, cv) in enumerate(combos):
            for d in DATA:
                o = None
                for j, li in enumerate(ls):
                    lay = {n: enlarge(alpha.CFG[c], 3) for n, c in lays[li].items()}
                    p, _, _ = alpha.make_obs(pe, lay, ('c02multi', ci, j, d), d, mean=1.0 + j)
                    o = p if o is None else o * p
                if cv is not None:
                    name, dim, full = alpha.COVS[cv]
                    cl = pe.cov_Obs([0.7 + 0.1 * i for i in range(dim)] if dim > 1 else 0.7, alpha.cov_matrix(dim, full, name), name)
                    o = o * (cl[dim - 1] if dim > 1 else cl) + (cl[0] if dim > 1 else cl)
                ens = sorted(set(n.split('|')[0] for n in o.names if n not in o.cov_names))
                variants = [({'S': 2.0}, 'kw'), ({'S': {e: 1.0 + i for i, e in enumerate(ens)}}, 'perens'),
                            ({'tau_exp': {e: (3 if i % 2 == 0 else 0) for i, e in enumerate(ens)}, 'N_sigma': 1}, 'perens'),
                            ({'S': 0}, 'global'),
                            # an entry only for the FIRST ensemble: the others must fall back to the global default
                            ({'S': {ens[0]: 1.0}}, 'perens'), ({'tau_exp': {ens[0]: 3}}, 'perens'),
                            ({'tau_exp': 3, 'N_sigma': {ens[0]: 2}}, 'perens'), ({'S': {ens[-1]: 3.0}}, 'perens')]
                for vi, (pars, source) in enumerate(variants):
                    for fft in (True, False):
                        if 'vi' in case and (case['vi'] != vi or case['fft'] != fft or case['ci'] != ci or case['d'] != d):
                            continue
                        sub = dict(case, ci=ci, d=d, vi=vi, fft=fft)
                        st, txt, info = analyse_multi(pe, o, pars, fft, source)
                        if st == 'fail':
                            acc.fail('gamma-multi:%s:%s' % (info, source), sub, 'combo %s cov=%s data=%s pars=%s fft=%s: %s' % (ls, cv, d, pars, fft, txt))
                        elif st == 'skip':
                            acc.skip(info)
                        else:
                            acc.ok(('multi', ci, d, vi, fft), True, 'multi-' + info)
        acc.sample({'kind': 'multi', 'ensembles': ['A', 'B'], 'covariance_input': 'cv1', 'S': {'A': 1.0, 'B': 2.0}})
    return acc


def analyse_multi(pe, o, pars, fft, source):
    """Per-ensemble parameters can only be given through the dictionaries."""
    if source != 'perens':
        return analyse_and_compare(pe, o, pars, fft, source)
    import copy
    o = copy.deepcopy(o)
    r = compare.to_ref(o)
    full = {'S': 2.0, 'tau_exp': 0.0, 'N_sigma': 1.0}
    full.update(pars)
    all_ens = sorted(set(n.split('|')[0] for n in r['chains']))
    for k, v in list(full.items()):
        if isinstance(v, dict):   # ensembles without an entry use the global default
            full[k] = {e: v.get(e, {'S': 2.0, 'tau_exp': 0.0, 'N_sigma': 1.0}[k]) for e in all_ens}
    exp = ref.r_gamma(r, full['S'], full['tau_exp'], full['N_sigma'])
    if any(isinstance(v, str) for v in exp.values()):
        return 'skip', None, 'refusal-in-multi'
    try:
        for k, v in pars.items():
            if isinstance(v, dict):
                getattr(pe.Obs, k + '_dict').update(v)
            else:
                setattr(pe.Obs, k + '_global', v)
        o.gamma_method(**({} if fft else {'fft': False}))
    except Exception as e:
        return 'fail', 'raised %r' % e, 'raised'
    finally:
        _reset(pe)
    for e, x in exp.items():
        if not x.get('const') and any(abs(m) < 1e-9 for m in x.get('margins', [])):
            return 'skip', None, 'margin'
        if o.e_windowsize[e] != x['W']:
            return 'fail', 'window[%s]: expected %d got %d' % (e, x['W'], o.e_windowsize[e]), 'window'
        for name, got, want in (('e_dvalue', o.e_dvalue[e], x['dvalue']), ('e_tauint', o.e_tauint[e], x['tauint']),
                                ('e_dtauint', o.e_dtauint[e], x['dtauint']), ('e_ddvalue', o.e_ddvalue[e], x['ddvalue'])):
            if not abs(got - want) <= 1e-9 * max(abs(want), 1e-300 if want else 1e-12):
                return 'fail', '%s[%s]: expected %.15g got %.15g' % (name, e, want, got), name
    dv, ddv, cov_err = ref.r_total_error(r, exp)
    if not abs(o.dvalue - dv) <= 1e-9 * max(dv, 1e-300) or not abs(o.ddvalue - ddv) <= 1e-9 * max(ddv, 1e-12):
        return 'fail', 'total error: expected %.15g +- %.15g got %.15g +- %.15g' % (dv, ddv, o.dvalue, o.ddvalue), 'total'
    return 'ok', None, 'perens'
