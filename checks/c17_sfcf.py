"""C17 (part 2): sfcf text formats in separate / compact / appended layout and Hadrons meson hdf5."""
import os
import itertools
import numpy as np
from mc import engine, envpatch
from mc.synth import sfcf as sf

CFGS = {1: list(range(1, 11)), 2: list(range(2, 24, 2)), 10: [3, 4, 7, 8, 9, 12, 13, 15, 16, 20]}
VERSION = {'o': '2.0', 'c': '2.0c', 'a': '2.0a'}
PREFIX = 'dataE'      # default; cases may carry another one (set at the start of run_sfcf)


def build(tier):
    cases = []
    for layout in ('o', 'c', 'a'):
        for reps in ([1], [1, 2], [1, 2, 10]):
            cases.append({'kind': 'sfcf', 'layout': layout, 'reps': reps})
        # file prefixes that contain the replica separator letter themselves (also followed by a digit)
        cases.append({'kind': 'sfcf', 'layout': layout, 'reps': [1, 2, 10], 'prefix': 'run_'})
        cases.append({'kind': 'sfcf', 'layout': layout, 'reps': [1, 2], 'prefix': 'corr3x'})
    # correlator values printed with three-digit exponents / of large magnitude
    for layout in ('o', 'c', 'a'):
        for scale in (1e-120, 1e150, 1e-7):
            cases.append({'kind': 'sfcf', 'layout': layout, 'reps': [1, 2], 'scale': scale})
    cases.append({'kind': 'hadrons'})
    return cases


def run(pe, acc, case, d):
    if case['kind'] == 'sfcf':
        run_sfcf(pe, acc, case, d)
    else:
        run_hadrons(pe, acc, case, d)


def write_set(layout, d, reps):
    names = sorted(sf.CORRS)
    for r in reps:
        {'o': sf.write_separate, 'c': sf.write_compact, 'a': sf.write_appended}[layout](d, PREFIX, r, CFGS[r], names)
    # something that has to be ignored
    if layout == 'a':
        open(os.path.join(d, 'README'), 'w').write('x')
    else:
        os.makedirs(os.path.join(d, 'other_dir'), exist_ok=True)


def expected(reps, name, qi, off, w, w2, t, im, cfgsel=None, rep_names=None):
    from checks.c17 import check_obs
    exp_idl, exp_s = {}, {}
    for r in reps:
        n = rep_names[r] if rep_names else '%s|r%d' % (PREFIX, r)
        cl = cfgsel[r] if cfgsel else CFGS[r]
        exp_idl[n] = cl
        exp_s[n] = [sf.value(r, c, name, qi, off, w, w2, t, im) for c in cl]
    return exp_idl, exp_s


def run_sfcf(pe, acc, case, d):
    from checks.c17 import check_obs
    global PREFIX
    PREFIX = case.get('prefix', 'dataE')
    layout, reps = case['layout'], case['reps']
    write_set(layout, d, reps)
    rd = pe.input.sfcf
    nent = len(reps) + 1
    specs = []
    for name, (typ, T) in sorted(sf.CORRS.items()):
        for qi, off, w in itertools.product(range(len(sf.QUARKS)), sf.OFFSETS, sf.WFS):
            for w2 in (sf.WFS if typ != 'bi' else [0]):
                specs.append((name, typ, T, qi, off, w, w2))
    # deviation bound over (name, quarks, offset, wf, wf2): all with at most two coordinates away from the default
    def dev(s):
        return (s[3] != 0) + (s[4] != 0) + (s[5] != 0) + (s[6] != 0)
    # ... plus, for every name, the block in which every coordinate takes its last value (the last block of that name in a file;
    # for the last name of a compact file the last block of the file)
    last = lambda s: s[3] == len(sf.QUARKS) - 1 and s[4] == sf.OFFSETS[-1] and s[5] == sf.WFS[-1] and s[6] == (sf.WFS[-1] if s[1] != 'bi' else 0)   # noqa: E731
    specs = [s for s in specs if dev(s) <= 2 or last(s)]
    for si, (name, typ, T, qi, off, w, w2) in enumerate(specs):
        orders = envpatch.orders(nent) if dev((name, typ, T, qi, off, w, w2)) == 0 else [list(range(nent)), list(range(nent))[::-1]]
        for im in (False, True):
            for order in orders:
                sub = dict(case, name=name, qi=qi, off=off, w=w, w2=w2, im=im, order=order)
                if 'name' in case and (case['name'], case['qi'], case['off'], case['w'], case['w2'], case['im'], case['order']) != (name, qi, off, w, w2, im, order):
                    continue
                try:
                    with envpatch.listing_order(order):
                        res = rd.read_sfcf(d, PREFIX, name, quarks=sf.QUARKS[qi], corr_type=typ, noffset=off, wf=w, wf2=w2, version=VERSION[layout], im=im, silent=True)
                except Exception as e:
                    acc.fail('sfcf:%s:raised' % layout, sub, 'read_sfcf(%s layout, %s, quarks %d, offset %d, wf %d, wf2 %d, im=%s, listing %s) raised %s: %s' % (
                        layout, name, qi, off, w, w2, im, order, type(e).__name__, e))
                    continue
                bad = None if len(res) == T else '%d timeslices, expected %d' % (len(res), T)
                for t in range(T):
                    if bad:
                        break
                    exp_idl, exp_s = expected(reps, name, qi, off, w, w2, t, im)
                    bad = check_obs(res[t], list(exp_idl), exp_idl, exp_s, 1e-15)
                    if bad:
                        bad = 'timeslice %d: %s' % (t, bad)
                if bad:
                    acc.fail('sfcf:%s:values' % layout, sub, 'read_sfcf(%s layout, replicas %s, %s, quarks %r, offset %d, wf %d, wf2 %d, im=%s, listing %s): %s' % (
                        layout, reps, name, sf.QUARKS[qi], off, w, w2, im, order, bad))
                else:
                    acc.ok(('sfcf', layout, tuple(reps), name, qi, off, w, w2, im, tuple(order)), True, 'sfcf-' + layout)
    # selections: names, ens_name, files, replica
    name, typ, T = 'f_A', 'bi', sf.CORRS['f_A'][1]
    # names
    alt = {r: 'myens|rep%d' % r for r in reps}
    try:
        res = rd.read_sfcf(d, PREFIX, name, quarks=sf.QUARKS[0], version=VERSION[layout], names=[alt[r] for r in reps], silent=True)
        bad = None
        for t in range(T):
            exp_idl, exp_s = expected(reps, name, 0, 0, 0, 0, t, False, rep_names=alt)
            bad = bad or check_obs(res[t], list(exp_idl), exp_idl, exp_s, 1e-15)
        if bad:
            acc.fail('sfcf:%s:names' % layout, dict(case, sel='names'), 'names=%s: %s' % (list(alt.values()), bad))
        else:
            acc.ok(('sfcf-names', layout, tuple(reps)), True, 'sfcf-selection')
    except Exception as e:
        acc.fail('sfcf:%s:names:raised' % layout, dict(case, sel='names'), repr(e))
    # ens_name
    try:
        res = rd.read_sfcf(d, PREFIX, name, quarks=sf.QUARKS[0], version=VERSION[layout], ens_name='X', silent=True)
        en = {r: 'X|r%d' % r for r in reps}
        bad = None
        for t in range(T):
            exp_idl, exp_s = expected(reps, name, 0, 0, 0, 0, t, False, rep_names=en)
            bad = bad or check_obs(res[t], list(exp_idl), exp_idl, exp_s, 1e-15)
        if bad:
            acc.fail('sfcf:%s:ens_name' % layout, dict(case, sel='ens_name'), 'ens_name: %s' % bad)
        else:
            acc.ok(('sfcf-ens', layout, tuple(reps)), True, 'sfcf-selection')
    except Exception as e:
        acc.fail('sfcf:%s:ens_name:raised' % layout, dict(case, sel='ens_name'), repr(e))
    # files: a subset of the configurations per replica (separate: folders, compact: files); appended: list of files
    if layout in ('o', 'c'):
        sel = {r: CFGS[r][1::2] for r in reps}
        srt = sorted(reps)
        files = [[('cfg%d' % c) if layout == 'o' else '%sr%d_n%d' % (PREFIX, r, c) for c in reversed(sel[r])] for r in srt]
        try:
            res = rd.read_sfcf(d, PREFIX, name, quarks=sf.QUARKS[0], version=VERSION[layout], files=files, silent=True)
            bad = None
            for t in range(T):
                exp_idl, exp_s = expected(reps, name, 0, 0, 0, 0, t, False, cfgsel=sel)
                bad = bad or check_obs(res[t], list(exp_idl), exp_idl, exp_s, 1e-15)
            if bad:
                acc.fail('sfcf:%s:files' % layout, dict(case, sel='files'), 'files=%s: %s' % (files, bad))
            else:
                acc.ok(('sfcf-files', layout, tuple(reps)), True, 'sfcf-selection')
        except Exception as e:
            acc.fail('sfcf:%s:files:raised' % layout, dict(case, sel='files'), repr(e))
        if len(reps) > 1:
            sub_reps = reps[1:]
            try:
                res = rd.read_sfcf(d, PREFIX, name, quarks=sf.QUARKS[0], version=VERSION[layout], replica=['%sr%d' % (PREFIX, r) for r in reversed(sub_reps)], silent=True)
                bad = None
                for t in range(T):
                    exp_idl, exp_s = expected(sub_reps, name, 0, 0, 0, 0, t, False)
                    bad = bad or check_obs(res[t], list(exp_idl), exp_idl, exp_s, 1e-15)
                if bad:
                    acc.fail('sfcf:%s:replica' % layout, dict(case, sel='replica'), 'replica=%s: %s' % (sub_reps, bad))
                else:
                    acc.ok(('sfcf-replica', layout, tuple(reps)), True, 'sfcf-selection')
            except Exception as e:
                acc.fail('sfcf:%s:replica:raised' % layout, dict(case, sel='replica'), repr(e))
    # replica= in EVERY order, with names / files given in the same order; the caller's lists must come back unchanged
    if layout in ('o', 'c') and len(reps) > 1:
        sel = {r: CFGS[r][1::2] for r in reps}
        for perm in itertools.permutations(reps):
            rl = ['%sr%d' % (PREFIX, r) for r in perm]
            for nk in ('auto', 'names', 'names+files'):
                kw = {'replica': list(rl)}
                rep_names = None
                if nk != 'auto':
                    rep_names = {r: 'ensX|%s' % 'zyx'[i] for i, r in enumerate(perm)}     # labels that sort against the order given
                    kw['names'] = [rep_names[r] for r in perm]
                if nk == 'names+files':
                    kw['files'] = [[('cfg%d' % c) if layout == 'o' else '%sr%d_n%d' % (PREFIX, r, c) for c in sel[r]] for r in perm]
                before = {k: ([list(x) if isinstance(x, list) else x for x in v]) for k, v in kw.items()}
                sub = dict(case, sel='replica-order', order=list(perm), names=nk)
                try:
                    res = rd.read_sfcf(d, PREFIX, name, quarks=sf.QUARKS[0], version=VERSION[layout], silent=True, **kw)
                    bad = None
                    for t in range(T):
                        exp_idl, exp_s = expected(list(perm), name, 0, 0, 0, 0, t, False, cfgsel=(sel if nk == 'names+files' else None), rep_names=rep_names)
                        bad = bad or check_obs(res[t], list(exp_idl), exp_idl, exp_s, 1e-15)
                    after = {k: ([list(x) if isinstance(x, list) else x for x in v]) for k, v in kw.items()}
                    if not bad and after != before:
                        bad = 'the reader modified the list(s) passed by the caller: %s -> %s' % (before, after)
                except Exception as e:
                    bad = 'raised %s: %s' % (type(e).__name__, e)
                if bad:
                    acc.fail('sfcf:%s:replica-order' % layout, sub, 'replica=%s (%s): %s' % (rl, nk, bad))
                else:
                    acc.ok(('sfcf-replica-order', layout, perm, nk), True, 'sfcf-selection')
    # call history: the same paths hold ANOTHER file set afterwards (compact layout: the correlator blocks in another order, so every
    # block starts at another line) - the reader has to look at the files again
    if layout == 'c':
        try:
            for r in reps:
                sf.write_compact(d, PREFIX, r, CFGS[r], sorted(sf.CORRS)[::-1])
            bad = None
            for nm2 in ('f_A', 'F_V0', 'f_1'):
                typ2, T2 = sf.CORRS[nm2]
                # the default block (read from the first file set above) and one that was not requested before
                for qi2, off2, w_, w2_ in ((0, 0, 0, 0), (1, 1, 1, 1 if typ2 != 'bi' else 0)):
                    res = rd.read_sfcf(d, PREFIX, nm2, quarks=sf.QUARKS[qi2], corr_type=typ2, noffset=off2, wf=w_, wf2=w2_, version=VERSION[layout], silent=True)
                    for t in range(T2):
                        exp_idl, exp_s = expected(reps, nm2, qi2, off2, w_, w2_, t, False)
                        bad = bad or check_obs(res[t], list(exp_idl), exp_idl, exp_s, 1e-15)
            if bad:
                acc.fail('sfcf:%s:rewritten-files' % layout, dict(case, sel='rewritten'), 'after the files were rewritten with the correlator blocks in another order: %s' % bad)
            else:
                acc.ok(('sfcf-rewritten', layout, tuple(reps)), True, 'sfcf-selection')
        except Exception as e:
            acc.fail('sfcf:%s:rewritten-files:raised' % layout, dict(case, sel='rewritten'), '%s: %s' % (type(e).__name__, e))
        for r in reps:
            sf.write_compact(d, PREFIX, r, CFGS[r], sorted(sf.CORRS))
    # read_sfcf_multi: several correlators / quarks / wave functions in one call, nested and keyed output
    try:
        nl = ['f_A', 'f_1', 'F_V0']
        tl = [sf.CORRS[n][0] for n in nl]
        multi = rd.read_sfcf_multi(d, PREFIX, nl, quarks_list=sf.QUARKS, corr_type_list=tl, noffset_list=[0, 1], wf_list=[0, 2], wf2_list=[0, 1],
                                   version=VERSION[layout], silent=True)
        keyed = rd.read_sfcf_multi(d, PREFIX, nl, quarks_list=sf.QUARKS, corr_type_list=tl, noffset_list=[0, 1], wf_list=[0, 2], wf2_list=[0, 1],
                                   version=VERSION[layout], silent=True, keyed_out=True)
        bad = None
        for n, typ in zip(nl, tl):
            T = sf.CORRS[n][1]
            for qi, q in enumerate(sf.QUARKS):
                for off in (0, 1):
                    for w in (0, 2):
                        for w2 in ((0, 1) if typ != 'bi' else (0,)):
                            got = multi[n][q][str(off)][str(w)][str(w2)]
                            gk = keyed['/'.join([n, q, str(off), str(w), str(w2)])]
                            for t in range(T):
                                exp_idl, exp_s = expected(reps, n, qi, off, w, w2, t, False)
                                bad = bad or check_obs(got[t], list(exp_idl), exp_idl, exp_s, 1e-15) or check_obs(gk[t], list(exp_idl), exp_idl, exp_s, 1e-15)
        if bad:
            acc.fail('sfcf:%s:multi' % layout, dict(case, sel='multi'), 'read_sfcf_multi: %s' % bad)
        else:
            acc.ok(('sfcf-multi', layout, tuple(reps)), True, 'sfcf-multi')
    except Exception as e:
        acc.fail('sfcf:%s:multi:raised' % layout, dict(case, sel='multi'), '%s: %s' % (type(e).__name__, e))
    acc.sample({'kind': 'sfcf', 'layout': layout, 'replicas': reps, 'correlators': sorted(sf.CORRS), 'specs': len(specs)})


def run_hadrons(pe, acc, case, d):
    from checks.c17 import check_obs
    T = 4
    # 'trap': irregular numbers whose count and end points fit an equally spaced list (2, 4, ..., 16 has 8 members as well)
    sets = {'even': list(range(10, 40, 3)), 'irregular': [2, 3, 5, 8, 9, 12, 13, 17, 18, 20], 'trap': [2, 4, 5, 7, 9, 12, 13, 16]}
    for sn, cfgs in sets.items():
        path = os.path.join(d, sn)
        sf.write_hadrons(path, 'meson_run', cfgs, T)
        open(os.path.join(path, 'notes.txt'), 'w').write('x')
        for order in envpatch.orders(len(cfgs) + 1)[:30]:
            for m in range(len(sf.GAMMAS) ** 2):
                a, b = sf.GAMMAS[m // len(sf.GAMMAS)], sf.GAMMAS[m % len(sf.GAMMAS)]
                for how in ('meson-index', 'gammas'):
                    idls = [None, cfgs[1:-1]] if sn == 'even' else [cfgs, cfgs[::2]] if sn == 'irregular' else [cfgs, cfgs[:6]]
                    for idl in idls:
                        sub = dict(case, set=sn, m=m, how=how, idl=idl, order=order)
                        if order != list(range(len(cfgs) + 1)) and not (m in (0, 5) and how == 'gammas'):
                            continue
                        kw = {'meson': 'meson_%d' % m} if how == 'meson-index' else {'gammas': (a, b)}
                        try:
                            with envpatch.listing_order(order):
                                C = pe.input.hadrons.read_meson_hd5(path, 'meson_run', 'ensH', idl=idl, **kw)
                        except Exception as e:
                            acc.fail('hadrons:raised', sub, 'read_meson_hd5(%s, %s, idl=%s, listing %s) raised %s: %s' % (sn, kw, idl, order, type(e).__name__, e))
                            continue
                        cl = cfgs if idl is None else list(idl)
                        bad = None if (isinstance(C, pe.Corr) and C.T == T) else 'result %r' % (C,)
                        for t in range(T):
                            bad = bad or check_obs(C.content[t][0], ['ensH'], {'ensH': cl}, {'ensH': [sf.h5_value(c, m, t, 0) for c in cl]}, 1e-15)
                        if bad:
                            acc.fail('hadrons:values', sub, 'read_meson_hd5(%s set, %s, idl=%s, listing %s): %s' % (sn, kw, idl, order, bad))
                        else:
                            acc.ok(('h5', sn, m, how, str(idl), tuple(order)), True, 'hadrons')
        # imaginary part / complex via read_hd5
        for part in ('imag', 'complex'):
            try:
                C = pe.input.hadrons.read_hd5(os.path.join(path, 'meson_run'), 'ensH', 'meson', attrs={'gamma_snk': 'GammaT', 'gamma_src': 'Gamma5'}, idl=cfgs, part=part)
                m = 3
                bad = None
                for t in range(T):
                    e = C.content[t][0]
                    if part == 'imag':
                        bad = bad or check_obs(e, ['ensH'], {'ensH': cfgs}, {'ensH': [sf.h5_value(c, m, t, 1) for c in cfgs]}, 1e-15)
                    else:
                        bad = bad or check_obs(e.real, ['ensH'], {'ensH': cfgs}, {'ensH': [sf.h5_value(c, m, t, 0) for c in cfgs]}, 1e-15) \
                            or check_obs(e.imag, ['ensH'], {'ensH': cfgs}, {'ensH': [sf.h5_value(c, m, t, 1) for c in cfgs]}, 1e-15)
                if bad:
                    acc.fail('hadrons:part', dict(case, set=sn, part=part), 'read_hd5(part=%s): %s' % (part, bad))
                else:
                    acc.ok(('h5part', sn, part), True, 'hadrons')
            except Exception as e:
                acc.fail('hadrons:part:raised', dict(case, set=sn, part=part), repr(e))
    # call history: a second file set in which the gamma combinations sit in other groups, read by gammas / attrs right after
    # the first set (and the first one again afterwards)
    n2 = len(sf.GAMMAS) ** 2
    rot = [(m + 4) % n2 for m in range(n2)]
    cfgs = sets['even']
    sf.write_hadrons(os.path.join(d, 'rotated'), 'meson_run', cfgs, T, order=rot)
    for seq in (('even', 'rotated', 'even'), ('rotated', 'even', 'rotated')):
        for m in range(n2):
            a, b = sf.GAMMAS[m // len(sf.GAMMAS)], sf.GAMMAS[m % len(sf.GAMMAS)]
            for step, sn in enumerate(seq):
                sub = dict(case, sequence=list(seq), step=step, m=m)
                try:
                    C = pe.input.hadrons.read_meson_hd5(os.path.join(d, sn), 'meson_run', 'ensH', gammas=(a, b))
                    C2 = pe.input.hadrons.read_hd5(os.path.join(d, sn, 'meson_run'), 'ensH', 'meson', attrs={'gamma_snk': a, 'gamma_src': b}, idl=cfgs)
                    bad = None
                    for t in range(T):
                        for CC in (C, C2):
                            bad = bad or check_obs(CC.content[t][0], ['ensH'], {'ensH': cfgs}, {'ensH': [sf.h5_value(c, m, t, 0) for c in cfgs]}, 1e-15)
                except Exception as e:
                    bad = 'raised %s: %s' % (type(e).__name__, e)
                if bad:
                    acc.fail('hadrons:sequence', sub, 'gammas (%s, %s) read from set %r as step %d of %s: %s' % (a, b, sn, step + 1, list(seq), bad))
                    break
            else:
                acc.ok(('h5seq', seq, m), True, 'hadrons-sequence')
    # irregular configurations without idl must be refused; missing configuration in idl must be refused
    for nm, kw in (('irregular-without-idl', {'idl': None, 'set': 'irregular'}), ('missing-config', {'idl': [10, 13, 16, 19, 22, 26], 'set': 'even'})):
        try:
            pe.input.hadrons.read_meson_hd5(os.path.join(d, kw['set']), 'meson_run', 'ensH', idl=kw['idl'])
            acc.fail('hadrons:accepted:' + nm, dict(case, what=nm), '%s accepted' % nm)
        except Exception:
            acc.ok(('h5ref', nm), True, 'hadrons-refused')
    acc.sample({'kind': 'hadrons', 'sets': {k: v for k, v in sets.items()}, 'mesons': 9})
