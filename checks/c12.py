"""C12 dobs / pobs XML export and import are mutually inverse.

E-PROD: observable lists (1..4 entries; configuration subsets, replica subsets and ensembles that
differ between the entries of one file; covariance inputs of dimension 1..3; count-like data with
exact zeros) x separator_insertion mode x gz x transport (string / file).  Oracle: attribute-wise
equality after re-import modulo the documented separator treatment; identical error analysis."""
import os
import io
import copy
import shutil
import itertools
import contextlib
import numpy as np
from mc import engine, alpha
from mc.engine import Acc

LEVEL = 'exploration'
RULE = ('full product: 14 list kinds (single / same layout / nested, interleaved and disjoint configuration subsets / replica '
        'subsets / two ensembles / covariance inputs dim 1..3 shared or not / count data with zeros / a sample equal to the '
        'mean / strided and large configuration numbers / 4-entry mixtures) x separator_insertion {True, None, False, int, str} '
        'x {string, file gz, file plain} for dobs; every 2- and 3-subset (thorough: 4-subset) of a 17-observable pool (incl. trap pairs: same length and end points, different interior) in one file; 6 list kinds x {None, int, str} x {gz, plain} for pobs; all ordered pairs of 14 layouts of one ensemble in one pobs file (refused or faithful); pobs requests carrying covariance inputs (refused or faithful).  Non-trivial = '
        'every case except the single-observable single-chain list')
ASSUMPTIONS = ['names are compared exactly when the separator mode restores the "|", else after removing "|" (documented treatment)',
               'covariance matrices / gradients to 1e-12 relative (the format prints 15 digits), fluctuations to 1e-13 of the chain scale']
EXHAUSTIVE = True
REPEAT = 2      # every case is evaluated twice in the same process: the second verdict must equal the first (call-history oracle)
CHUNK = 1


def tmpdir():
    d = '/dev/shm/verif_c12_%d' % os.getpid()
    os.makedirs(d, exist_ok=True)
    return d


def prim(pe, lay, key, kind='ar1', mean=1.0, sigma=0.3):
    if kind != 'count':
        return alpha.make_obs(pe, lay, ('c12', key), kind, mean, sigma)[0]
    # count-like integers with exact zeros; the first sample of every chain is shifted by 1/4 so that the central
    # value can never coincide with a sample (that coincidence is the separate, format-inherent known finding)
    names = sorted(lay)
    cfgs = {n: list(alpha.CFG[lay[n]]) for n in names}
    samples = {}
    for n in names:
        x = alpha.data('count', cfgs[n], alpha.rng('c12', key, n), 0.0, 1.0)
        x[0] += 0.25
        if not np.any(x == 0):
            x[-1] = 0.0
        samples[n] = x
    return pe.Obs([samples[n] for n in names], names, idl=[alpha.idl_carrier(cfgs[n]) for n in names])


def lists(pe):
    cv1 = pe.cov_Obs(0.7, 0.02, 'cv1')
    cv2 = pe.cov_Obs([0.9, 1.1], alpha.cov_matrix(2, True, 'cv2'), 'cv2')
    cv3 = pe.cov_Obs([0.9, 1.1, -0.4], alpha.cov_matrix(3, True, 'cv3'), 'cv3')
    A12 = {'A|r1': 'c12'}
    out = {}
    out['single'] = [prim(pe, A12, 's0')]
    out['same-layout'] = [prim(pe, {'A|r1': 'irr', 'A|r2': 'ev'}, 'sl%d' % i, mean=1.0 + i) for i in range(3)]
    out['nested'] = [prim(pe, A12, 'n0'), prim(pe, {'A|r1': 'c8'}, 'n1'), prim(pe, {'A|r1': 'ev'}, 'n2'), prim(pe, {'A|r1': 'irr'}, 'n3')]
    out['interleaved'] = [prim(pe, {'A|r1': 'ev'}, 'i0'), prim(pe, {'A|r1': 'od'}, 'i1')]
    out['disjoint'] = [prim(pe, A12, 'd0'), prim(pe, {'A|r1': 'far'}, 'd1')]
    out['replica-subsets'] = [prim(pe, {'A|r1': 'c12', 'A|r2': 'c8'}, 'r0'), prim(pe, {'A|r2': 'c8'}, 'r1'), prim(pe, {'A|r10': 's3'}, 'r2'),
                              prim(pe, {'A|r1': 'irr', 'A|r10': 'g2', 'A|r2': 'suf'}, 'r3')]
    a, b = prim(pe, A12, 'e0'), prim(pe, {'B|r1': 's3', 'B|r2': 'irr2'}, 'e1', mean=0.5)
    out['two-ensembles'] = [a, b, a * b]
    out['cov'] = [prim(pe, A12, 'c0') * cv1, cv2[0] * prim(pe, {'A|r1': 'c8'}, 'c1') + cv2[1], prim(pe, {'B|r1': 'ev'}, 'c2'), cv3[0] * cv3[1] + cv3[2] * prim(pe, A12, 'c3')]
    # observables that depend on covariance inputs ONLY (alone in the file, several of them, next to Monte-Carlo observables)
    out['cov-only-single'] = [cv1 * 1.0]
    out['cov-only'] = [cv2[0] * cv2[1], cv3[0] + cv1, cv3[1] * cv3[2] - cv2[0]]
    out['cov-only-first'] = [cv2[1] * 2.0, prim(pe, A12, 'co0'), prim(pe, {'B|r1': 'ev'}, 'co1') * cv1]
    out['cov-shared'] = [cv2[0] * prim(pe, A12, 'cs0'), cv2[1] * prim(pe, A12, 'cs1'), cv2[0] + cv2[1] * prim(pe, {'B|r1': 'c8'}, 'cs2')]
    out['count-zeros'] = [prim(pe, A12, 'z0', 'count'), prim(pe, {'A|r1': 'c12'}, 'z1', 'count'), prim(pe, {'A|r1': 'irr', 'A|r2': 'c8'}, 'z2', 'count')]
    x = np.array([1.0, 2.0, 3.0, 4.0, 2.5, 2.5, 1.5, 3.5])   # the mean 2.5 occurs as a sample
    out['sample-equals-mean'] = [pe.Obs([x], ['A|r1']), prim(pe, {'A|r1': 'c8'}, 'm1')]
    out['big-strided'] = [prim(pe, {'A|r1': 'big', 'A|r2': 'g2'}, 'b0'), prim(pe, {'A|r1': 'big'}, 'b1')]
    out['mixture'] = [prim(pe, {'A|r1': 'c12', 'A|r2': 'ev'}, 'x0') * cv1, prim(pe, {'A|r2': 'od'}, 'x1', 'count'), prim(pe, {'B|r1': 'trA'}, 'x2') * cv3[1],
                      prim(pe, {'A|r1': 'sh'}, 'x3') + prim(pe, {'B|r1': 'trB'}, 'x4')]
    out['bare-name'] = [prim(pe, {'A': 'c8'}, 'bn0'), prim(pe, {'A': 'irr'}, 'bn1')]
    out['tiny-and-huge'] = [prim(pe, {'A|r1': 'c12'}, 'th0', mean=2e-11, sigma=3e-12), prim(pe, {'A|r1': 'irr'}, 'th1', mean=-4e13, sigma=5e12),
                            prim(pe, {'A|r1': 'c8'}, 'th2', mean=1e-11, sigma=1e-12) * pe.cov_Obs(1e-6, 1e-14, 'cvtiny')]
    # a large mean with small, precisely known fluctuations: the replica means differ by far less than 1e-5 of the mean
    out['big-mean'] = [prim(pe, {'A|r1': 'c12', 'A|r2': 'c8'}, 'bm0', mean=0.4) * 1e-3 + 1e6, prim(pe, {'A|r1': 'c12'}, 'bm1', mean=0.1) * 1e-3 + 1e6,
                       prim(pe, {'A|r1': 'c8', 'A|r2': 'irr', 'A|r3': 'ev'}, 'bm2', mean=0.2) * 1e-6 - 250.0]
    out['long-ensemble-names'] = [prim(pe, {'ENS|r1': 'c12', 'ENS|r2': 'c8'}, 'ln0'), prim(pe, {'ENS|r2': 'irr'}, 'ln1'), prim(pe, {'OTHER|cfg7': 'ev'}, 'ln2')]
    # an observable that is constant on one whole replica (all 0, all 3) while it fluctuates on another one
    r = alpha.rng('c12', 'const-rep')
    c8, ev, c12 = list(alpha.CFG['c8']), list(alpha.CFG['ev']), list(alpha.CFG['c12'])
    out['constant-on-replica'] = [
        pe.Obs([np.round(r.normal(2, 1.5, len(c12))) + 0.25, np.zeros(len(c8))], ['A|r1', 'A|r2'], idl=[range(1, 13), range(1, 9)]),
        pe.Obs([np.full(len(c8), 3.0), np.round(r.normal(1, 1.5, len(ev))) + 0.125], ['A|r1', 'A|r2'], idl=[range(1, 9), alpha.idl_carrier(ev)]),
        pe.Obs([np.round(r.normal(0, 1.5, len(c8))) + 0.25, np.full(len(c12), -1.0), np.zeros(len(c8))], ['A|r1', 'A|r2', 'A|r3'], idl=[range(1, 9), range(1, 13), range(1, 9)])]
    return out


def pobs_lists(pe):
    out = {}
    out['single'] = [prim(pe, {'A|r1': 'c12'}, 'p0')]
    out['three'] = [prim(pe, {'A|r1': 'irr'}, 'p1%d' % i, mean=0.5 * i) for i in range(3)]
    out['replicas'] = [prim(pe, {'A|r1': 'c12', 'A|r10': 'g2', 'A|r2': 's3'}, 'p2%d' % i) for i in range(2)]
    out['count-zeros'] = [prim(pe, {'A|r1': 'c12', 'A|r2': 'c8'}, 'p3%d' % i, 'count') for i in range(2)]
    out['big'] = [prim(pe, {'A|r1': 'big'}, 'p4')]
    out['bare-name'] = [prim(pe, {'A': 'c8'}, 'p5')]
    # data of very small / very large magnitude (no sample is exactly zero)
    out['tiny'] = [prim(pe, {'A|r1': 'c12', 'A|r2': 'c8'}, 'p6%d' % i, mean=(1 + i) * 1e-11, sigma=3e-12) for i in range(2)]
    out['huge'] = [prim(pe, {'A|r1': 'c12'}, 'p7', mean=3e14, sigma=1e13)]
    # a DERIVED observable on replicas of different length and different means: its central value f(<x>) is not the weighted
    # mean of its replica means f(<x>_r)
    base = prim(pe, {'A|r1': 'c12', 'A|r2': 'c5'}, 'p8', mean=1.0, sigma=0.3)
    out['derived-replicas'] = [np.log(base * base + 0.5)]
    return out


def combo_pool(pe):
    cv1 = pe.cov_Obs(0.7, 0.02, 'cv1')
    cv2 = pe.cov_Obs([0.9, 1.1], alpha.cov_matrix(2, True, 'cv2'), 'cv2')
    P = [prim(pe, {'A|r1': 'c12'}, 'q0'), prim(pe, {'A|r1': 'c8'}, 'q1'), prim(pe, {'A|r1': 'ev'}, 'q2'), prim(pe, {'A|r1': 'od'}, 'q3'),
         prim(pe, {'A|r1': 'irr', 'A|r2': 'c8'}, 'q4'), prim(pe, {'A|r2': 'g2'}, 'q5'), prim(pe, {'A|r10': 's3', 'A|r2': 'suf'}, 'q6'),
         prim(pe, {'B|r1': 'trA'}, 'q7'), prim(pe, {'B|r1': 'trB', 'B|r2': 'c5'}, 'q8'), prim(pe, {'A|r1': 'c12'}, 'q9', 'count'),
         prim(pe, {'A|r1': 'sh'}, 'q10') * cv1, cv2[0] * prim(pe, {'B|r2': 'big'}, 'q11') + cv2[1], cv2[1] * cv1 + prim(pe, {'A|r1': 'irr2'}, 'q12'),
         prim(pe, {'A|r1': 'eqC'}, 'q13'), prim(pe, {'A|r1': 'eqD'}, 'q14'), prim(pe, {'A|r2': 'eqA'}, 'q15'), prim(pe, {'A|r2': 'eqB'}, 'q16')]
    return P


def name_map(mode, names):
    """Expected re-imported chain names for a separator mode (documented treatment)."""
    exp = {}
    for n in names:
        e = n.split('|')[0]
        flat = n.replace('|', '')
        if mode is True:
            exp[n] = flat[:len(e)] + '|' + flat[len(e):] if '|' in n else None   # bare names: statement silent
        elif mode is None or mode is False:
            exp[n] = flat
        elif isinstance(mode, int):
            exp[n] = flat[:mode] + '|' + flat[mode:]      # also for 0: the separator in front (True / False were handled above)
        elif isinstance(mode, str):
            exp[n] = flat.replace(mode, '|' + mode)
    return exp


def same(a, b, nm, pe):
    sc = max(abs(a.value), max([np.max(np.abs(d)) for d in a.deltas.values()] + [0.0]), 1e-300)
    if not abs(a.value - b.value) <= 1e-15 * abs(a.value):
        return 'value %r -> %r' % (a.value, b.value)
    exp_names = sorted(nm[n] for n in a.deltas)
    if sorted(b.deltas) != exp_names:
        return 'chains %s -> %s (expected %s)' % (sorted(a.deltas), sorted(b.deltas), exp_names)
    for n in a.deltas:
        m = nm[n]
        if list(a.idl[n]) != list(b.idl[m]):
            return 'configurations of %s: %s -> %s' % (n, list(a.idl[n]), list(b.idl[m]))
        if type(a.idl[n]) is not type(b.idl[m]):
            return 'configuration list form of %s' % n
        csc = max(sc, abs(a.r_values[n]))
        # fluctuations are stored as such (plus the offset of the replica mean): they come back on their own scale
        dsc = max(np.max(np.abs(a.deltas[n])), abs(a.r_values[n] - a.value))
        # (the reader rebuilds the samples value + fluctuation and subtracts their mean again: rounding units of the samples remain)
        if not np.all(np.abs(a.deltas[n] - b.deltas[m]) <= 1e-13 * dsc + 2e-15 * abs(a.r_values[n]) + 1e-300):
            return 'fluctuations of %s differ by %g' % (n, np.max(np.abs(a.deltas[n] - b.deltas[m])))
        # the replica mean is value + mean of the stored column: a few rounding units of the mean plus the relative accuracy of the offset
        if not abs(a.r_values[n] - b.r_values[m]) <= 1e-13 * dsc + 2e-15 * abs(a.r_values[n]) + 1e-300:
            return 'replica mean of %s: %r -> %r' % (n, a.r_values[n], b.r_values[m])
    if b.N != a.N:
        return 'N %d -> %d' % (a.N, b.N)
    if sorted(a.covobs) != sorted(b.covobs):
        return 'covariance names %s -> %s' % (sorted(a.covobs), sorted(b.covobs))
    for n in a.covobs:
        ca, cb = np.asarray(a.covobs[n].cov), np.asarray(b.covobs[n].cov)
        if ca.shape != cb.shape or not np.all(np.abs(ca - cb) <= 1e-12 * np.max(np.abs(ca))):
            return 'covariance matrix %s' % n
        ga, gb = np.ravel(a.covobs[n].grad), np.ravel(b.covobs[n].grad)
        if ga.shape != gb.shape or not np.all(np.abs(ga - gb) <= 1e-12 * np.max(np.abs(ga))):
            return 'gradient of %s: %s -> %s' % (n, ga, gb)
    x, y = copy.deepcopy(a), copy.deepcopy(b)
    x.gamma_method()
    y.gamma_method()
    # the error analysis groups chains by the text before '|': only comparable when the separator is restored
    if all('|' in n or '|' not in m for n, m in nm.items() if m is not None) and all((n.split('|')[0] == nm[n].split('|')[0]) for n in a.deltas):
        if not abs(x.dvalue - y.dvalue) <= 1e-9 * max(x.dvalue, 1e-300) + 2e-15 * abs(a.value):      # second term: rounding units of the samples, see above
            return 'error analysis %r -> %r' % (x.dvalue, y.dvalue)
    return None


MODES = [True, None, False, 1, 'r', 2, 0]


def build(tier, seed):
    cases = [{'kind': 'dobs', 'list': k} for k in ['single', 'same-layout', 'nested', 'interleaved', 'disjoint', 'replica-subsets', 'two-ensembles',
                                                   'cov', 'cov-only-single', 'cov-only', 'cov-only-first', 'cov-shared', 'count-zeros', 'sample-equals-mean', 'big-strided', 'mixture', 'bare-name', 'constant-on-replica', 'long-ensemble-names', 'tiny-and-huge', 'big-mean']]
    cases += [{'kind': 'pobs', 'list': k} for k in ['single', 'three', 'replicas', 'count-zeros', 'big', 'bare-name', 'tiny', 'huge', 'derived-replicas']]
    # pobs files whose observables differ in their configuration lists / replica sets: the format has one configuration
    # column per replica, so such a list is either refused on export or comes back faithfully - never re-labelled
    cases.append({'kind': 'pobs-pairs'})
    # call history of the readers: files that share covariance names / base names but differ in content, read one after the other
    cases.append({'kind': 'file-sequence'})
    ks = (2, 3) if tier == 'quick' else (2, 3, 4)
    for k in ks:
        combos = list(itertools.combinations(range(17), k))
        for i in range(0, len(combos), 12):
            cases.append({'kind': 'combos', 'combos': [list(c) for c in combos[i:i + 12]]})
    return cases


def run_case(case):
    pe = engine.import_pyerrors()
    acc = Acc()
    d = tmpdir()
    try:
        with contextlib.redirect_stdout(io.StringIO()):
            if case['kind'] == 'dobs':
                run_dobs(pe, acc, case, d)
            elif case['kind'] == 'combos':
                run_combos(pe, acc, case)
            elif case['kind'] == 'pobs-pairs':
                run_pobs_pairs(pe, acc, case, d)
            elif case['kind'] == 'file-sequence':
                run_file_sequence(pe, acc, case, d)
            else:
                run_pobs(pe, acc, case, d)
    finally:
        shutil.rmtree(d, ignore_errors=True)
    return acc


def run_dobs(pe, acc, case, d):
    ol = lists(pe)[case['list']]
    # every separator mode, then every mode again in reversed order (True / 1 and False / 0 are equal as dictionary keys:
    # the treatment must depend on the mode passed to THIS call, not on the one seen first)
    for mi, mode in enumerate(MODES + MODES[::-1]):
        for via in (('string', 'string-str', 'gz', 'plain') if mi < len(MODES) else ('string',)):
            if 'mode' in case and (case['mode'], case['via']) != (repr(mode), via):
                continue
            sub = dict(case, mode=repr(mode), via=via)
            sig = 'dobs:%s' % case['list']
            try:
                if via in ('string', 'string-str'):
                    s = pe.input.dobs.create_dobs_string(ol, 'name', symbol=[])
                    # the string as returned by the writer (documented argument type), and its utf-8 bytes
                    back = pe.input.dobs.import_dobs_string(s if via == 'string-str' else s.encode('utf-8'), separator_insertion=mode)
                else:
                    fn = os.path.join(d, 'f')
                    pe.input.dobs.write_dobs(ol, fn, 'name', gz=(via == 'gz'))
                    back = pe.input.dobs.read_dobs(fn, gz=(via == 'gz'), separator_insertion=mode)
                    os.remove(fn + '.xml' + ('.gz' if via == 'gz' else ''))
            except Exception as e:
                acc.fail(sig + ':raised', sub, 'list %s mode %r via %s raised %s: %s' % (case['list'], mode, via, type(e).__name__, e))
                continue
            bad = None
            if len(back) != len(ol):
                bad = '%d observables -> %d' % (len(ol), len(back))
            else:
                for i, (a, b) in enumerate(zip(ol, back)):
                    nm = name_map(mode, list(a.deltas))
                    if any(v is None for v in nm.values()):
                        # bare chain name with separator_insertion=True: compare modulo '|'
                        nm = {n: [m for m in b.deltas if m.replace('|', '') == n.replace('|', '')][0] if any(m.replace('|', '') == n.replace('|', '') for m in b.deltas) else n for n in a.deltas}
                    bad = same(a, b, nm, pe)
                    if bad:
                        bad = 'observable %d: %s' % (i, bad)
                        break
            if bad:
                m = 'False' if mode is False else 'other'
                acc.fail(sig, sub, 'list %s mode %r via %s: %s' % (case['list'], mode, via, bad))
            else:
                acc.ok((case['list'], repr(mode), via, mi >= len(MODES)), case['list'] != 'single', 'dobs-roundtrip')
    acc.sample({'kind': 'dobs', 'list': case['list'], 'modes': [repr(m) for m in MODES], 'via': ['string', 'gz', 'plain']})


def run_pobs(pe, acc, case, d):
    ol = pobs_lists(pe)[case['list']]
    for mode in (None, 1, 'r'):
        for gz in (True, False):
            sub = dict(case, mode=repr(mode), gz=gz)
            sig = 'pobs:%s' % case['list']
            try:
                fn = os.path.join(d, 'p')
                pe.input.dobs.write_pobs(ol, fn, 'name', gz=gz)
                back = pe.input.dobs.read_pobs(fn, gz=gz, separator_insertion=mode)
                os.remove(fn + '.xml' + ('.gz' if gz else ''))
            except Exception as e:
                if mode is None and len(ol[0].deltas) > 1 and 'multiple ensembles' in str(e):
                    # documented: with None the names stay as stored (without '|'), i.e. one ensemble per chain, which
                    # the constructor refuses for several chains - outside the separator treatment the property refers to
                    acc.ok(('pobs-ref', case['list'], repr(mode), gz), False, 'refused(no separator, several replicas)')
                    continue
                acc.fail(sig + ':raised', sub, 'pobs list %s mode %r gz %s raised %s: %s' % (case['list'], mode, gz, type(e).__name__, e))
                continue
            bad = None
            if len(back) != len(ol):
                bad = '%d observables -> %d' % (len(ol), len(back))
            else:
                for i, (a, b) in enumerate(zip(ol, back)):
                    nm = name_map(mode, list(a.deltas))
                    bad = same(a, b, nm, pe)
                    if bad:
                        bad = 'observable %d: %s' % (i, bad)
                        break
            if bad:
                acc.fail(sig, sub, 'pobs list %s mode %r gz %s: %s' % (case['list'], mode, gz, bad))
            else:
                acc.ok(('pobs', case['list'], repr(mode), gz), True, 'pobs-roundtrip')
    # documented domain: one ensemble, same replica set
    a = prim(pe, {'A|r1': 'c8'}, 'pa')
    b = prim(pe, {'B|r1': 'c8'}, 'pb')
    for nm, lst in (('two-ensembles', [a * b]), ('different-ensembles', [a, b])):
        try:
            pe.input.dobs.create_pobs_string(lst, 'x')
            acc.fail('pobs:outside-domain-accepted:' + nm, dict(case, bad=nm), 'pobs export accepted %s' % nm)
        except Exception:
            acc.ok(('pobs-ref', case['list'], nm), True, 'refused')
    # a refused export leaves nothing behind: a valid file written before under the same name is still there and readable
    for gz in (True, False):
        fn = os.path.join(d, 'keep')
        pe.input.dobs.write_pobs([a], fn, 'kept', gz=gz)
        for nm, lst in (('different-ensembles', [a, b]), ('two-ensembles', [a * b])):
            try:
                pe.input.dobs.write_pobs(lst, fn, 'refused', gz=gz)
                refused = False
            except Exception:
                refused = True
            try:
                kept = pe.input.dobs.read_pobs(fn, gz=gz, separator_insertion=1)
                badk = (None if len(kept) == 1 else '%d observables' % len(kept)) or same(a, kept[0], name_map(1, list(a.deltas)), pe) if refused else None
            except Exception as e:
                badk = 'the file can no longer be read: %s: %s' % (type(e).__name__, e)
            if badk:
                acc.fail('pobs:refused-write-destroys-file', dict(case, bad=nm, gz=gz), 'a refused write_pobs (%s) over an existing file left it changed: %s' % (nm, badk))
            else:
                acc.ok(('pobs-keep', case['list'], nm, gz), True, 'refused')
    # the pobs format has no place for covariance inputs: an observable carrying one is refused, or (if a writer learns to
    # store it) comes back with it -- it is never written with the covariance input silently dropped
    cv = pe.cov_Obs(1.0, 0.01, 'cv')
    a2 = prim(pe, {'A|r1': 'c8', 'A|r2': 'c12'}, 'pc')
    for nm, lst in (('mc-times-cov', [a * cv]), ('second-entry-with-cov', [a, a + cv]), ('first-entry-with-cov', [a * cv, a]), ('replicas-times-cov', [a2 * cv]),
                    ('two-cov', [a * cv * pe.cov_Obs(2.0, 0.04, 'cw')])):
        for gz in (True, False):
            sub = dict(case, bad=nm, gz=gz)
            try:
                fn = os.path.join(d, 'pcov')
                pe.input.dobs.write_pobs(lst, fn, 'name', gz=gz)
                back = pe.input.dobs.read_pobs(fn, gz=gz, separator_insertion=1)
            except Exception:
                acc.ok(('pobs-cov', case['list'], nm, gz), True, 'refused')
                continue
            bad = '%d observables -> %d' % (len(lst), len(back)) if len(back) != len(lst) else None
            for i, (x, y) in enumerate(zip(lst, back)):
                bad = bad or same(x, y, name_map(1, list(x.deltas)), pe)
            if bad:
                acc.fail('pobs:covariance-input-dropped', sub, 'write_pobs accepted %s (covariance input next to the Monte Carlo chains) and read_pobs gives back something else: %s' % (nm, bad))
            else:
                acc.ok(('pobs-cov', case['list'], nm, gz), True, 'pobs-roundtrip')
    acc.sample({'kind': 'pobs', 'list': case['list'], 'modes': ['None', '1', "'r'"]})


def run_file_sequence(pe, acc, case, d):
    rd = pe.input.dobs
    # (a) the same covariance name and dimension with different matrices in different files (dimension 1..3), every order
    for dim in (1, 2, 3):
        mats = [np.array(alpha.cov_matrix(dim, True, 'fs%d' % k)) * (1.0 + 0.7 * k) for k in range(3)]
        sets = []
        for k, M in enumerate(mats):
            cl = pe.cov_Obs([0.9 + 0.1 * i for i in range(dim)] if dim > 1 else 0.9, M if dim > 1 else float(M[0, 0]), 'cvshared')
            cl = cl if dim > 1 else [cl]
            sets.append([prim(pe, {'A|r1': 'c12'}, ('fs', dim, k)) * cl[0] + (cl[dim - 1] if dim > 1 else 0.0), cl[0] * 1.5])
        for order in itertools.permutations(range(3)):
            for via in ('string', 'file'):
                bad = None
                for pos, k in enumerate(order):
                    try:
                        if via == 'string':
                            back = rd.import_dobs_string(rd.create_dobs_string(sets[k], 'n').encode(), separator_insertion=1)
                        else:
                            fn = os.path.join(d, 'seq')
                            rd.write_dobs(sets[k], fn, 'n', gz=False)
                            back = rd.read_dobs(fn, gz=False, separator_insertion=1)
                            os.remove(fn + '.xml')
                        for a, b in zip(sets[k], back):
                            bad = bad or same(a, b, name_map(1, list(a.deltas)), pe)
                    except Exception as e:
                        bad = 'raised %s: %s' % (type(e).__name__, e)
                    if bad:
                        bad = 'file %d read as number %d of the order %s (%s): %s' % (k, pos + 1, list(order), via, bad)
                        break
                if bad:
                    acc.fail('dobs:file-sequence:covariance', dict(case, dim=dim, order=list(order), via=via), 'covariance input of dimension %d with the same name in three files: %s' % (dim, bad))
                else:
                    acc.ok(('fseq-cov', dim, order, via), True, 'file-sequence')
    # (b) the same base name written compressed and uncompressed with different content, every order of writing, both reads
    a = [prim(pe, {'A|r1': 'c12'}, 'fsA', mean=1.0)]
    b = [prim(pe, {'A|r1': 'c12'}, 'fsB', mean=5.0)]
    for fmt in ('pobs', 'dobs'):
        wr = rd.write_pobs if fmt == 'pobs' else rd.write_dobs
        re_ = rd.read_pobs if fmt == 'pobs' else rd.read_dobs
        for first_gz in (False, True):
            fn = os.path.join(d, 'shadow_%s_%s' % (fmt, first_gz))
            try:
                wr(a, fn, 'n', gz=first_gz)
                wr(b, fn, 'n', gz=not first_gz)
                got_a = re_(fn, gz=first_gz, separator_insertion=1)
                got_b = re_(fn, gz=not first_gz, separator_insertion=1)
                bad = same(a[0], got_a[0], name_map(1, ['A|r1']), pe) or same(b[0], got_b[0], name_map(1, ['A|r1']), pe)
            except Exception as e:
                bad = 'raised %s: %s' % (type(e).__name__, e)
            if bad:
                acc.fail('%s:file-sequence:gz-sibling' % fmt, dict(case, fmt=fmt, first_gz=first_gz), '%s files <name>.xml and <name>.xml.gz with different content: reading with gz=%s / gz=%s does not return the file asked for: %s' % (fmt, first_gz, not first_gz, bad))
            else:
                acc.ok(('fseq-gz', fmt, first_gz), True, 'file-sequence')
    acc.sample({'kind': 'file-sequence', 'parts': ['same covariance name in three files, every order', 'xml and xml.gz siblings']})


def run_pobs_pairs(pe, acc, case, d):
    lays = [{'A|r1': 'c12'}, {'A|r1': 'c8'}, {'A|r1': 'ev'}, {'A|r1': 'od'}, {'A|r1': 'irr'}, {'A|r1': 'eqA'}, {'A|r1': 'eqB'}, {'A|r1': 'eqC'}, {'A|r1': 'eqD'},
            {'A|r2': 'c12'}, {'A|r1': 'c12', 'A|r2': 'c8'}, {'A|r1': 'c8', 'A|r2': 'c8'}, {'A|r1': 'c12', 'A|r2': 'suf'}, {'A|r1': 'c12', 'A|r3': 'c8'}]
    pool = [prim(pe, l, 'pp%d' % i, mean=1.0 + 0.3 * i) for i, l in enumerate(lays)]
    for i, j in itertools.product(range(len(pool)), repeat=2):
        if 'pair' in case and case['pair'] != [i, j]:
            continue
        ol = [pool[i], pool[j]]
        sub = dict(case, pair=[i, j])
        fn = os.path.join(d, 'pp')
        try:
            pe.input.dobs.write_pobs(ol, fn, 'name', gz=False)
        except Exception:
            if lays[i] == lays[j]:
                acc.fail('pobs-pairs:raised', sub, 'write_pobs refused two observables on the same layout %s' % alpha.lname(lays[i]))
            else:
                acc.ok(('pobs-pair', i, j), True, 'pobs-pair-refused')
            continue
        try:
            back = pe.input.dobs.read_pobs(fn, gz=False, separator_insertion=1)
            bad = None if len(back) == 2 else '%d observables' % len(back)
            for k, (a, b) in enumerate(zip(ol, back)):
                bad = bad or same(a, b, name_map(1, list(a.deltas)), pe)
                if bad:
                    bad = 'observable %d: %s' % (k, bad)
                    break
        except Exception as e:
            bad = 'reading back raised %s: %s' % (type(e).__name__, e)
        finally:
            if os.path.exists(fn + '.xml'):
                os.remove(fn + '.xml')
        if bad:
            acc.fail('pobs-pairs', sub, 'pobs file of two observables on %s and %s was written but does not come back: %s' % (alpha.lname(lays[i]), alpha.lname(lays[j]), bad))
        else:
            acc.ok(('pobs-pair', i, j), lays[i] != lays[j], 'pobs-pair-roundtrip')
    acc.sample({'kind': 'pobs-pairs', 'layouts': [alpha.lname(l) for l in lays], 'pairs': 'all ordered'})


def run_combos(pe, acc, case):
    """Every k-subset of a 17-observable pool (incl. trap pairs: same length and end points, different interior) written into one file (string transport, default separator mode)."""
    P = combo_pool(pe)
    for combo in case['combos']:
        ol = [P[i] for i in combo]
        sub = {'kind': 'combos', 'combos': [combo]}
        try:
            s = pe.input.dobs.create_dobs_string(ol, 'name')
            back = pe.input.dobs.import_dobs_string(s.encode('utf-8'))
        except Exception as e:
            acc.fail('dobs:combo:raised', sub, 'subset %s raised %s: %s' % (combo, type(e).__name__, e))
            continue
        bad = None if len(back) == len(ol) else '%d observables -> %d' % (len(ol), len(back))
        for i, (a, b) in enumerate(zip(ol, back)):
            if bad:
                break
            bad = same(a, b, name_map(True, list(a.deltas)), pe)
            if bad:
                bad = 'observable %d (pool %d): %s' % (i, combo[i], bad)
        if bad:
            acc.fail('dobs:combo', sub, 'subset %s: %s' % (combo, bad))
        else:
            acc.ok(('combo', tuple(combo)), True, 'dobs-combo')
    acc.sample({'kind': 'combos', 'subset_of_pool': case['combos'][-1]})
