"""C11 JSON serialisation round-trips losslessly and conforms to the shipped schema.

E-PROD: structure grammar (Obs | list | ndarray | Corr | dict nesting) x content alphabet
(layouts x covariance inputs x magnitudes x tags) x options (gz, indent) x transports (string, file,
Obs/Corr.dump, pickle, pandas csv / sqlite, dict).  Oracle: attribute-wise equality after re-import,
identical error analysis, jsonschema validation of every emitted document."""
import os
import io
import json
import gzip
import copy
import shutil
import pickle
import itertools
import contextlib
import numpy as np
from mc import engine, alpha
from mc.engine import Acc

LEVEL = 'exploration'
RULE = ('full product: structure {Obs, list(1..3), ndarray (2,) (2,2) (1,2,2) and non-contiguous (transposed view, Fortran order), Corr N=1 with every defined-slice pattern for '
        'T<=4 and paddings, Corr N=2, nested dict} x content {single range chain, two replicas irregular+strided, several '
        'ensembles + covariance input, pure covariance dim 3, reweighted, bare name with large configuration numbers, irregular lists that fit an equally spaced list by length and end points} x '
        'magnitude {1e-12, 1, 1e12} x tag {None, str, "", 0, 1.5, False, True, list, dict} x (gz, indent) in string/file '
        'transports; members of one list / array / correlator on equally long but different configuration lists (refused or faithful); Obs.dump / Corr.dump / pickle; pandas csv and sqlite with gz on/off; dump_dict_to_json.  Every emitted '
        'document is validated against examples/json_schema.json.  Non-trivial = everything except the plain single-chain Obs '
        'with tag None')
ASSUMPTIONS = ['fluctuations are compared to 1e-13 of the largest fluctuation of the chain, replica means to 1e-13 of the chain scale (the format stores delta + (r - value))',
               'NaN tokens written for undefined Corr slices are parsed with the Python json module before schema validation']
EXHAUSTIVE = True
REPEAT = 2      # every case is evaluated twice in the same process: the second verdict must equal the first (call-history oracle)
CHUNK = 2

CONTENTS = ['single', 'tworep', 'multi', 'purecov', 'reweighted', 'bare', 'trap', 'npidl', 'bigmean']
MAGS = [1.0, 1e-12, 1e12]
TAGS = [None, 'a tag', '', 0, 1.5, False, True, ['x', 1], {'k': 'v', 'n': 2}]


def tmpdir():
    d = '/dev/shm/verif_c11_%d' % os.getpid()
    os.makedirs(d, exist_ok=True)
    return d


def make(pe, content, key, mag=1.0):
    """An observable of the given content kind; objects with the same kind share their configuration lists."""
    def prim(lay, k, mean):
        return alpha.make_obs(pe, lay, ('c11', content, key, k), 'ar1', mean, 0.2)[0]
    if content == 'single':
        o = prim({'A|r1': 'c12'}, 0, 1.3)
    elif content == 'tworep':
        o = prim({'A|r1': 'irr', 'A|r2': 'ev'}, 0, -0.7)
    elif content == 'multi':
        cv = pe.cov_Obs([0.9, 1.1], alpha.cov_matrix(2, True, 'cv2'), 'cv2')
        o = prim({'A|r1': 'c8', 'A|r10': 'g2'}, 0, 1.1) * prim({'B|r1': 's3'}, 1, 0.6) * cv[0] + cv[1]
    elif content == 'purecov':
        cv = pe.cov_Obs([0.9, 1.1, -0.4], alpha.cov_matrix(3, True, 'cv3'), 'cv3')
        r = alpha.rng('c11pc', key)
        o = float(r.normal()) * cv[0] + cv[1] * cv[2]
    elif content == 'reweighted':
        w = alpha.make_obs(pe, {'A|r1': 'c12', 'A|r2': 'c8'}, ('c11', 'w'), 'white', 1.0, 0.05)[0]
        o = prim({'A|r1': 'c12', 'A|r2': 'c8'}, 0, 0.8).reweight(w)
    elif content == 'bigmean':     # a large mean with small, precisely known fluctuations (two replica)
        o = prim({'A|r1': 'c12', 'A|r2': 'c8'}, 0, 0.4) * 1e-3 + 1e6
    elif content == 'bare':
        o = prim({'A': 'big'}, 0, 2.0)
    elif content == 'trap':    # irregular lists whose length and end points would also fit an equally spaced list
        o = prim({'A|r1': 'eqD', 'A|r2': 'trA'}, 0, 0.9)
    elif content == 'npidl':   # configuration lists given as numpy integer array / list of numpy integers (irregular and regular)
        r = alpha.rng('c11np', key)
        cf = [alpha.CFG['irr'], alpha.CFG['g2'], alpha.CFG['ev']]
        o = pe.Obs([r.normal(1.0, 0.2, size=len(c)) for c in cf], ['A|r1', 'A|r2', 'A|r3'],
                   idl=[np.array(cf[0], dtype=np.int64), [np.int32(v) for v in cf[1]], np.array(cf[2], dtype=np.uint16)])
    else:
        raise ValueError(content)
    if mag != 1.0:
        o = o * mag
    return o


def same_obs(a, b, pe, check_tag=True):
    """None or text: every public attribute of b equals that of a."""
    if not isinstance(b, pe.Obs):
        return 'not an Obs: %s' % type(b).__name__
    sc = max(abs(a.value), max([np.max(np.abs(d)) for d in a.deltas.values()] + [0.0]), 1e-300)
    if not abs(a.value - b.value) <= 1e-15 * abs(a.value):
        return 'value %r -> %r' % (a.value, b.value)
    if sorted(a.names) != sorted(b.names):
        return 'names %s -> %s' % (a.names, b.names)
    if sorted(a.deltas) != sorted(b.deltas):
        return 'chains %s -> %s' % (sorted(a.deltas), sorted(b.deltas))
    for n in a.deltas:
        if list(a.idl[n]) != list(b.idl[n]):
            return 'configurations of %s: %s -> %s' % (n, a.idl[n], b.idl[n])
        if type(a.idl[n]) is not type(b.idl[n]):
            return 'configuration list of %s: %s -> %s' % (n, type(a.idl[n]).__name__, type(b.idl[n]).__name__)
        if a.shape[n] != b.shape[n]:
            return 'shape of %s' % n
        csc = max(sc, abs(a.r_values[n]))
        # fluctuations are stored as such: they come back on their own scale (a large mean does not blur them)
        dsc = max(np.max(np.abs(a.deltas[n])), abs(a.r_values[n] - a.value))
        if not np.all(np.abs(a.deltas[n] - b.deltas[n]) <= 1e-13 * dsc + 4e-16 * abs(a.r_values[n] - a.value) + 1e-300):
            return 'fluctuations of %s differ by %g (scale %g)' % (n, np.max(np.abs(a.deltas[n] - b.deltas[n])), csc)
        # the replica mean is value + mean of the stored column: a few rounding units of the mean plus the relative accuracy of the offset
        if not abs(a.r_values[n] - b.r_values[n]) <= 1e-13 * dsc + 8e-16 * abs(a.r_values[n]) + 1e-300:
            return 'replica mean of %s: %r -> %r' % (n, a.r_values[n], b.r_values[n])
    if a.N != b.N:
        return 'N %d -> %d' % (a.N, b.N)
    if sorted(a.covobs) != sorted(b.covobs):
        return 'covariance names %s -> %s' % (sorted(a.covobs), sorted(b.covobs))
    for n in a.covobs:
        if not np.array_equal(np.asarray(a.covobs[n].cov), np.asarray(b.covobs[n].cov)):
            return 'covariance matrix %s changed' % n
        ga, gb = np.ravel(a.covobs[n].grad), np.ravel(b.covobs[n].grad)
        if ga.shape != gb.shape or not np.all(np.abs(ga - gb) <= 1e-15 * np.max(np.abs(ga))):
            return 'gradient of %s: %s -> %s' % (n, ga, gb)
    if bool(a.reweighted) != bool(b.reweighted) or type(b.reweighted) is not bool:
        return 'reweighted %r -> %r' % (a.reweighted, b.reweighted)
    if check_tag and (a.tag != b.tag or type(a.tag) is not type(b.tag)):
        return 'tag %r -> %r' % (a.tag, b.tag)
    x, y = copy.deepcopy(a), copy.deepcopy(b)
    if x.names:
        x.gamma_method()
        y.gamma_method()
        if not abs(x.dvalue - y.dvalue) <= 1e-10 * x.dvalue or not abs(x.ddvalue - y.ddvalue) <= 1e-10 * max(x.ddvalue, 1e-300):
            return 'error analysis %r +- %r -> %r +- %r' % (x.dvalue, x.ddvalue, y.dvalue, y.ddvalue)
    return None


def same_struct(a, b, pe):
    if isinstance(a, pe.Obs):
        return same_obs(a, b, pe)
    if isinstance(a, list):
        if not isinstance(b, list) or len(a) != len(b):
            return 'list of %d -> %s' % (len(a), type(b).__name__)
        for i, (x, y) in enumerate(zip(a, b)):
            bad = same_struct(x, y, pe)
            if bad:
                return 'entry %d: %s' % (i, bad)
        return None
    if isinstance(a, np.ndarray):
        if not isinstance(b, np.ndarray) or a.shape != b.shape:
            return 'array %s -> %s %s' % (a.shape, type(b).__name__, getattr(b, 'shape', ''))
        for i in np.ndindex(a.shape):
            bad = same_struct(a[i], b[i], pe)
            if bad:
                return 'entry %s: %s' % (i, bad)
        return None
    if isinstance(a, pe.Corr):
        if not isinstance(b, pe.Corr):
            return 'Corr -> %s' % type(b).__name__
        if a.T != b.T or a.N != b.N:
            return 'T,N %s -> %s' % ((a.T, a.N), (b.T, b.N))
        if a.tag != b.tag:
            return 'Corr tag %r -> %r' % (a.tag, b.tag)
        if (a.prange is None) != (b.prange is None) or (a.prange is not None and list(a.prange) != list(b.prange)):
            return 'prange %r -> %r' % (a.prange, b.prange)
        for t in range(a.T):
            if (a.content[t] is None) != (b.content[t] is None):
                return 'timeslice %d defined: %s -> %s' % (t, a.content[t] is not None, b.content[t] is not None)
            if a.content[t] is not None:
                bad = same_struct(np.asarray(a.content[t]), np.asarray(b.content[t]), pe)
                if bad:
                    return 'timeslice %d %s' % (t, bad)
        return None
    if isinstance(a, dict):
        if not isinstance(b, dict) or sorted(map(str, a)) != sorted(map(str, b)):
            return 'dict keys %s -> %s' % (sorted(map(str, a)), sorted(map(str, b)) if isinstance(b, dict) else b)
        for k in a:
            bad = same_struct(a[k], b[k] if k in b else b[str(k)], pe)
            if bad:
                return 'key %r: %s' % (k, bad)
        return None
    if a != b:
        return 'scalar %r -> %r' % (a, b)
    return None


_SCHEMA = {}


def validate(text, pe):
    import jsonschema
    if 'v' not in _SCHEMA:
        with open(os.path.join(engine.REPO, 'examples', 'json_schema.json')) as f:
            _SCHEMA['v'] = jsonschema.Draft7Validator(json.load(f))
    try:
        doc = json.loads(text)
    except ValueError as e:
        return 'emitted text is not JSON: %s' % e
    errs = list(_SCHEMA['v'].iter_errors(doc))
    if errs:
        return 'schema violation at %s: %s' % (list(errs[0].absolute_path), errs[0].message[:200])
    return None


def structures(pe, content, mag, tagged=None):
    """The structure grammar for one content kind."""
    mk = lambda k: make(pe, content, k, mag)
    out = {}
    out['Obs'] = mk(0)
    for n in (1, 2, 3):
        out['list%d' % n] = [mk(i) for i in range(n)]
    for shape in ((), (1,), (2,), (2, 2), (1, 2, 2), (3, 1), (2, 1, 2, 1)):
        arr = np.empty(shape, dtype=object)
        for j, i in enumerate(np.ndindex(shape)):
            arr[i] = mk(j)
        out['array%s' % (shape,)] = arr
    # arrays that are not C-contiguous in memory (a transposed view, Fortran order)
    base = np.empty((2, 3), dtype=object)
    for j, i in enumerate(np.ndindex((2, 3))):
        base[i] = mk(20 + j)
    out['array-transposed-view'] = base.T
    out['array-fortran'] = np.asfortranarray(base)
    if content != 'purecov':
        for T in (1, 2, 3, 4):
            for pat in itertools.product([1, 0], repeat=T):
                if not any(pat):
                    continue
                out['corr%s' % (pat,)] = pe.Corr([mk(t) if p else None for t, p in enumerate(pat)])
        c = pe.Corr([mk(t) for t in range(4)], padding=[1, 2])
        c.tag = 'padded'
        out['corr-padded'] = c
        c = pe.Corr([mk(t) for t in range(5)], prange=[1, 3])
        out['corr-prange'] = c
        m = np.empty((2, 2), dtype=object)
        mats = []
        for t in range(3):
            m = np.empty((2, 2), dtype=object)
            for j, i in enumerate(np.ndindex((2, 2))):
                m[i] = mk(10 * t + j)
            mats.append(m)
        cm = pe.Corr([mats[0], None, mats[2]])
        cm.tag = 'matrix'
        out['corr-matrix'] = cm
    return out


def build(tier, seed):
    cases = []
    for content in CONTENTS:
        for mag in MAGS:
            cases.append({'kind': 'structs', 'content': content, 'mag': mag})
    for content in CONTENTS:
        cases.append({'kind': 'tags', 'content': content})
    cases.append({'kind': 'transports'})
    cases.append({'kind': 'pandas'})
    cases.append({'kind': 'dict'})
    cases.append({'kind': 'sequence'})
    cases.append({'kind': 'misaligned'})
    return cases


def wrap(s):
    # a python list handed to the writer is a list of *structures*; a List structure is a list inside it
    return [s] if isinstance(s, list) else s


def roundtrip_string(pe, s, indent):
    text = pe.input.json.create_json_string(wrap(s), description='d', indent=indent)
    return text, pe.input.json.import_json_string(text, verbose=False)


def run_case(case):
    pe = engine.import_pyerrors()
    acc = Acc()
    k = case['kind']
    d = tmpdir()
    try:
        with contextlib.redirect_stdout(io.StringIO()):
            if k == 'structs':
                run_structs(pe, acc, case, d)
            elif k == 'tags':
                run_tags(pe, acc, case)
            elif k == 'transports':
                run_transports(pe, acc, case, d)
            elif k == 'pandas':
                run_pandas(pe, acc, case, d)
            elif k == 'dict':
                run_dict(pe, acc, case, d)
            elif k == 'sequence':
                run_sequence(pe, acc, case, d)
            elif k == 'misaligned':
                run_misaligned(pe, acc, case, d)
    finally:
        shutil.rmtree(d, ignore_errors=True)
    return acc


MIS_BASE = {'irregular': [1, 2, 4, 5, 7, 8, 11, 12, 14, 19], 'strided': list(range(2, 22, 2)), 'contiguous': list(range(3, 13))}
MIS_OTHER = {   # equally long, same first and last configuration, different interior / shifted / different ends
    'interior': {'irregular': [1, 2, 4, 6, 7, 8, 11, 12, 14, 19], 'strided': [2, 3, 6, 8, 10, 12, 14, 16, 18, 20], 'contiguous': None},
    'interior-last-but-one': {'irregular': [1, 2, 4, 5, 7, 8, 11, 12, 15, 19], 'strided': [2, 4, 6, 8, 10, 12, 14, 16, 19, 20], 'contiguous': None},
    'shifted': {'irregular': [2, 3, 5, 6, 8, 9, 12, 13, 15, 20], 'strided': list(range(3, 23, 2)), 'contiguous': list(range(4, 14))},
    'last': {'irregular': [1, 2, 4, 5, 7, 8, 11, 12, 14, 20], 'strided': list(range(2, 20, 2)) + [21], 'contiguous': list(range(3, 12)) + [13]},
    'first': {'irregular': [0, 2, 4, 5, 7, 8, 11, 12, 14, 19], 'strided': [1] + list(range(4, 22, 2)), 'contiguous': [1] + list(range(4, 13))},
}


def run_misaligned(pe, acc, case, d):
    """Members of one list / array / correlator that live on DIFFERENT configuration lists of the same length: the format stores
    one configuration list per structure, so the writer (or the Corr constructor) has to refuse -- or the round trip is faithful."""
    for base, how, nrep, where in itertools.product(MIS_BASE, MIS_OTHER, (1, 2), ('first', 'second')):
        other = MIS_OTHER[how][base]
        if other is None or (nrep == 1 and where == 'second'):
            continue
        if 'base' in case and (case['base'], case['how'], case['nrep'], case['where']) != (base, how, nrep, where):
            continue
        la = {'A|r1': MIS_BASE[base]} if nrep == 1 else {'A|r1': MIS_BASE['contiguous'] if where == 'second' else MIS_BASE[base], 'A|r2': MIS_BASE[base] if where == 'second' else MIS_BASE['contiguous']}
        lb = dict(la)
        lb['A|r2' if (nrep == 2 and where == 'second') else 'A|r1'] = other

        def mk(lay, k):
            names = sorted(lay)
            return pe.Obs([alpha.rng('c11mis', base, how, n, k).normal(1.0, 0.3, size=len(lay[n])) for n in names], names, idl=[list(lay[n]) for n in names])
        a, b, c = mk(la, 0), mk(lb, 1), mk(la, 2)
        for sname, build_s in (('list', lambda: [a, b]), ('list3-last', lambda: [a, c, b]), ('array', lambda: np.array([a, b], dtype=object)),
                               ('array22', lambda: np.array([[a, c], [c, b]], dtype=object)), ('Corr', lambda: pe.Corr([a, b])), ('Corr-None', lambda: pe.Corr([a, None, c, b]))):
            sub = dict(case, base=base, how=how, nrep=nrep, where=where, sname=sname)
            try:
                s = build_s()
                text, back = roundtrip_string(pe, s, 1)
            except Exception:
                acc.ok(('mis', base, how, nrep, where, sname), True, 'misaligned-refused')
                # a refused request leaves nothing behind: a valid document written before under the same file name is still there
                if sname in ('list', 'array', 'Corr') and nrep == 1:
                    for gz in (True, False):
                        fn = os.path.join(d, 'keep_%s' % ('gz' if gz else 'plain'))
                        pe.input.json.dump_to_json(a, fn, description='kept', gz=gz)
                        try:
                            pe.input.json.dump_to_json(wrap([a, b]) if sname == 'list' else np.array([a, b], dtype=object), fn, description='refused', gz=gz)
                            refused = False
                        except Exception:
                            refused = True
                        try:
                            kept = pe.input.json.load_json(fn, verbose=False, gz=gz)
                            badk = same_struct(a, kept, pe) if refused else None
                        except Exception as e:
                            badk = 'the file can no longer be read: %s: %s' % (type(e).__name__, e)
                        if badk:
                            acc.fail('json:refused-write-destroys-file', dict(sub, gz=gz), 'a refused dump_to_json over an existing document (%s, gz=%s) left the file changed: %s' % (sname, gz, badk))
                        else:
                            acc.ok(('mis-keep', base, how, sname, gz), True, 'refused-write-keeps-file')
                continue
            bad = same_struct(s, back, pe)
            if bad:
                acc.fail('json:misaligned-members:%s' % sname.split('-')[0].rstrip('0123456789'), sub, '%s whose members live on %s and %s (%s, %d replica(s)) was written, but does not come back: %s' % (
                    sname, la, lb, how, nrep, bad))
            else:
                acc.ok(('mis', base, how, nrep, where, sname), True, 'misaligned-faithful')
    acc.sample({'kind': 'misaligned', 'bases': sorted(MIS_BASE), 'differences': sorted(MIS_OTHER), 'structures': ['list', 'list3', 'array', 'array22', 'Corr', 'Corr-None']})


def run_structs(pe, acc, case, d):
    content, mag = case['content'], case['mag']
    for sname, s in structures(pe, content, mag).items():
        if 'sname' in case and case['sname'] != sname:
            continue
        for indent in (1, 0):
            for gz in (None, True, False):   # None = string transport
                sub = dict(case, sname=sname, indent=indent, gz=gz)
                sig = 'json:%s' % sname.split('(')[0].rstrip('0123456789')
                try:
                    if gz is None:
                        text, back = roundtrip_string(pe, s, indent)
                    else:
                        fn = os.path.join(d, 'f_%s' % ('gz' if gz else 'plain'))
                        pe.input.json.dump_to_json(wrap(s), fn, description='d', indent=indent, gz=gz)
                        full = fn + '.json' + ('.gz' if gz else '')
                        text = (gzip.open(full, 'rt', encoding='utf-8') if gz else open(full, encoding='utf-8')).read()
                        back = pe.input.json.load_json(fn, verbose=False, gz=gz)
                        os.remove(full)
                except Exception as e:
                    acc.fail(sig + ':raised', sub, '%s (%s, mag %g, indent %d, gz %s) raised %s: %s' % (sname, content, mag, indent, gz, type(e).__name__, e))
                    continue
                bad = validate(text, pe)
                if bad:
                    acc.fail(sig + ':schema', sub, '%s (%s): %s' % (sname, content, bad))
                    continue
                bad = same_struct(s, back, pe)
                if bad:
                    acc.fail(sig + ':roundtrip', sub, '%s (%s, mag %g, indent %d, gz %s): %s' % (sname, content, mag, indent, gz, bad))
                else:
                    acc.ok((content, mag, sname, indent, gz), not (sname == 'Obs' and content == 'single'), 'roundtrip')
    acc.sample({'kind': 'structs', 'content': content, 'magnitude': mag, 'structures': 'Obs, list1..3, arrays, all Corr patterns T<=4, padded, prange, matrix', 'indent': [1, 0], 'gz': ['string', True, False]})


def run_tags(pe, acc, case):
    content = case['content']
    for ti, tag in enumerate(TAGS):
        if 'ti' in case and case['ti'] != ti:
            continue
        # single Obs, list and array entries, Corr tag
        o = make(pe, content, 0)
        o.tag = tag
        lst = [make(pe, content, i) for i in range(3)]
        lst[1].tag = tag
        arr = np.array([make(pe, content, i) for i in range(2)], dtype=object)
        arr[0].tag = tag
        items = [('Obs', o), ('list', lst), ('array', arr)]
        if content != 'purecov' and (tag is None or isinstance(tag, str)):
            c = pe.Corr([make(pe, content, i) for i in range(3)])
            c.tag = tag
            items.append(('Corr', c))
        if content != 'purecov':
            # tags of the observables INSIDE a correlator: all entries tagged, one entry tagged, with an undefined slice, matrix content
            for variant in ('all', 'one', 'with-none', 'matrix'):
                if variant == 'matrix':
                    mats = []
                    for t in range(2):
                        m = np.empty((2, 2), dtype=object)
                        for j, i in enumerate(np.ndindex((2, 2))):
                            m[i] = make(pe, content, 10 * t + j)
                            m[i].tag = tag
                        mats.append(m)
                    c = pe.Corr(mats)
                else:
                    obs = [make(pe, content, 40 + i) for i in range(3)]
                    for i, x in enumerate(obs):
                        if variant != 'one' or i == 1:
                            x.tag = tag
                    c = pe.Corr([obs[0], None, obs[2]] if variant == 'with-none' else obs)
                c.tag = 'corr tag'
                items.append(('Corr-content-' + variant, c))
        for sname, s in items:
            sub = dict(case, ti=ti, sname=sname)
            try:
                text, back = roundtrip_string(pe, s, 1)
            except Exception as e:
                acc.fail('json:tag:%s:raised' % sname, sub, 'tag %r on %s raised %s: %s' % (tag, sname, type(e).__name__, e))
                continue
            bad = validate(text, pe) or same_struct(s, back, pe)
            if bad:
                falsy = tag is not None and not tag
                acc.fail('json:tag:%s:%s' % (sname, 'falsy' if falsy else 'truthy'), sub, 'tag %r on %s (%s): %s' % (tag, sname, content, bad))
            else:
                acc.ok(('tag', content, ti, sname), tag is not None, 'tag-roundtrip')
    acc.sample({'kind': 'tags', 'content': content, 'tags': [repr(t) for t in TAGS]})


def run_transports(pe, acc, case, d):
    for content in CONTENTS:
        o = make(pe, content, 0)
        o.tag = 'dumped'
        # Obs.dump json.gz / pickle (with and without path)
        for dt in ('json.gz', 'pickle'):
            for use_path in (False, True):
                sub = dict(case, content=content, datatype=dt, path=use_path)
                cwd = os.getcwd()
                try:
                    os.chdir(d)
                    if use_path:
                        os.makedirs('sub', exist_ok=True)
                        o.dump('o1', datatype=dt, description='x', path='sub')
                        base = os.path.join('sub', 'o1')
                    else:
                        o.dump('o1', datatype=dt, description='x')
                        base = 'o1'
                    back = pe.input.json.load_json(base, verbose=False) if dt == 'json.gz' else pe.load_object(base + '.p')
                except Exception as e:
                    acc.fail('transport:Obs.dump:raised', sub, 'Obs.dump(%s) raised %r' % (dt, e))
                    continue
                finally:
                    os.chdir(cwd)
                bad = same_struct(o, back, pe)
                if bad:
                    acc.fail('transport:Obs.dump:' + dt, sub, '%s via Obs.dump(%s): %s' % (content, dt, bad))
                else:
                    acc.ok(('dump', content, dt, use_path), True, 'dump')
        # pickle of every structure (analysed objects keep their analysis)
        for sname, s in structures(pe, content, 1.0).items():
            back = pickle.loads(pickle.dumps(s))
            bad = same_struct(s, back, pe)
            if bad:
                acc.fail('transport:pickle', dict(case, content=content, sname=sname), '%s %s via pickle: %s' % (content, sname, bad))
            else:
                acc.ok(('pickle', content, sname), True, 'pickle')
        if content != 'purecov':
            c = pe.Corr([make(pe, content, t) if t != 1 else None for t in range(4)], prange=[2, 3])
            c.tag = 'ctag'
            for dt in ('json.gz', 'pickle'):
                cwd = os.getcwd()
                try:
                    os.chdir(d)
                    c.dump('c1', datatype=dt)
                    back = pe.input.json.load_json('c1', verbose=False) if dt == 'json.gz' else pe.load_object('c1.p')
                except Exception as e:
                    acc.fail('transport:Corr.dump:raised', dict(case, content=content, datatype=dt), repr(e))
                    continue
                finally:
                    os.chdir(cwd)
                bad = same_struct(c, back, pe)
                if bad:
                    acc.fail('transport:Corr.dump:' + dt, dict(case, content=content, datatype=dt), '%s via Corr.dump(%s): %s' % (content, dt, bad))
                else:
                    acc.ok(('cdump', content, dt), True, 'dump')
    # a list of several structures in one file; full_output
    items = [make(pe, 'single', 0), [make(pe, 'tworep', i) for i in range(2)], np.array([make(pe, 'multi', i) for i in range(2)], dtype=object),
             pe.Corr([make(pe, 'bare', 0), None, make(pe, 'bare', 2)])]
    text = pe.input.json.create_json_string(items, description={'a': 1})
    bad = validate(text, pe)
    back = pe.input.json.import_json_string(text, verbose=False, full_output=True)
    bad = bad or same_struct(items, back['obsdata'], pe) or (back['description'] != {'a': 1} and 'description changed')
    if bad:
        acc.fail('transport:multi-structure', case, bad)
    else:
        acc.ok('multi-structure', True, 'multi-structure')
    acc.sample({'kind': 'transports', 'via': ['Obs.dump json.gz/pickle', 'Corr.dump', 'pickle', 'several structures in one document']})


def run_sequence(pe, acc, case, d):
    """Call history of the reader: observables on configuration lists that are easily confused (same chain name, first / last
    configuration and length, different interior) read one after the other, in every order, from separate files and from one file."""
    groups = [['eqA', 'eqB'], ['eqC', 'eqD'], ['trA', 'trB'], ['irr', 'irr2'], ['eqR', 's3']]
    extra = {'h1': [1, 2, 3, 5, 6, 8, 9, 10, 12, 13, 14, 16], 'h2': [1, 2, 4, 5, 6, 7, 9, 11, 12, 14, 15, 16], 'h3': [1, 3, 4, 5, 7, 8, 9, 10, 11, 13, 15, 16]}
    groups.append(sorted(extra))
    cfg = dict(alpha.CFG, **extra)

    def mk(cid, second):
        names = ['A|r1'] + (['A|r2'] if second else [])
        cl = [cfg[cid]] + ([cfg['c8']] if second else [])
        r = alpha.rng('c11seq', cid, second)
        return pe.Obs([r.normal(1.0, 0.2, size=len(c)) for c in cl], names, idl=[alpha.idl_carrier(c) for c in cl])
    for gi, grp in enumerate(groups):
        for second in (False, True):
            objs = {cid: mk(cid, second) for cid in grp}
            for order in itertools.permutations(grp):
                sub = dict(case, group=gi, order=list(order), second_replica=second)
                bad = None
                try:
                    for via in ('string', 'file'):
                        for cid in order:
                            if via == 'string':
                                back = pe.input.json.import_json_string(pe.input.json.create_json_string(objs[cid]), verbose=False)
                            else:
                                fn = os.path.join(d, 'seq_%s' % cid)
                                pe.input.json.dump_to_json(objs[cid], fn, gz=False)
                                back = pe.input.json.load_json(fn, verbose=False, gz=False)
                                os.remove(fn + '.json')
                            bad = bad or same_obs(objs[cid], back, pe)
                            if bad:
                                bad = 'read as number %d of %s via %s: %s' % (list(order).index(cid) + 1, list(order), via, bad)
                                break
                        if bad:
                            break
                    if not bad:
                        lst = [objs[cid] for cid in order]
                        back = pe.input.json.import_json_string(pe.input.json.create_json_string([lst[0]] + [[o] for o in lst[1:]]), verbose=False)
                        flat = [back[0]] + [b[0] if isinstance(b, list) else b for b in back[1:]]
                        for o, b in zip(lst, flat):
                            bad = bad or same_obs(o, b, pe)
                        if bad:
                            bad = 'several structures in one document %s: %s' % (list(order), bad)
                except Exception as e:
                    bad = 'raised %s: %s' % (type(e).__name__, e)
                if bad:
                    acc.fail('json:sequence', sub, bad)
                else:
                    acc.ok(('seq', gi, second, order), True, 'sequence')
    acc.sample({'kind': 'sequence', 'groups': groups, 'orders': 'every permutation'})


def run_pandas(pe, acc, case, d):
    import pandas as pd
    for content in ('single', 'tworep', 'multi', 'bare'):
        rows = 3
        df = pd.DataFrame({'i': list(range(rows)), 'f': [0.5 * i for i in range(rows)], 's': ['x%d' % i for i in range(rows)],
                           'obs': [make(pe, content, i) for i in range(rows)],
                           'lst': [[make(pe, content, 10 * i + j) for j in range(2)] for i in range(rows)],
                           'corr': [pe.Corr([make(pe, content, 100 * i + t) if (t + i) % 3 else None for t in range(4)]) for i in range(rows)]})
        for gz in (True, False):
            for via in ('csv', 'sql'):
                sub = dict(case, content=content, gz=gz, via=via)
                try:
                    if via == 'csv':
                        fn = os.path.join(d, 'df_%s_%s' % (content, gz))
                        pe.input.pandas.dump_df(df, fn, gz=gz)
                        back = pe.input.pandas.load_df(fn, gz=gz)
                    else:
                        db = os.path.join(d, 'db_%s_%s.sqlite' % (content, gz))
                        pe.input.pandas.to_sql(df, 'tab', db, gz=gz)
                        back = pe.input.pandas.read_sql('SELECT * FROM tab', db)
                except Exception as e:
                    acc.fail('pandas:%s:raised' % via, sub, '%s gz=%s raised %s: %s' % (via, gz, type(e).__name__, e))
                    continue
                bad = None
                if list(back.columns) != list(df.columns) or len(back) != rows:
                    bad = 'columns/rows changed'
                for col in df.columns:
                    for i in range(rows):
                        if bad:
                            break
                        a, b = df[col][i], back[col][i]
                        if col in ('i', 'f', 's'):
                            bad = None if a == b else 'cell %s[%d] %r -> %r' % (col, i, a, b)
                        else:
                            bad = same_struct(a, b, pe)
                            if bad:
                                bad = 'cell %s[%d]: %s' % (col, i, bad)
                if not bad:
                    # the objects handed out are the caller's: modify them, read the same table again
                    try:
                        for i in range(rows):
                            back['obs'][i].tag = 'modified by the caller'
                            back['lst'][i].append('extra')
                            back['corr'][i].tag = 'modified'
                            back['corr'][i].content[[t for t in range(4) if back['corr'][i].content[t] is not None][0]] = None
                        again = pe.input.pandas.load_df(fn, gz=gz) if via == 'csv' else pe.input.pandas.read_sql('SELECT * FROM tab', db)
                        for col in ('obs', 'lst', 'corr'):
                            for i in range(rows):
                                bad = bad or same_struct(df[col][i], again[col][i], pe)
                        if bad:
                            bad = 'second read after the caller modified the objects of the first read: ' + bad
                    except Exception as e:
                        bad = 'second read raised %s: %s' % (type(e).__name__, e)
                if bad:
                    acc.fail('pandas:%s' % via, sub, '%s via %s gz=%s: %s' % (content, via, gz, bad))
                else:
                    acc.ok(('pandas', content, gz, via), True, 'pandas')
    acc.sample({'kind': 'pandas', 'columns': ['int', 'float', 'str', 'Obs', 'list of Obs', 'Corr'], 'via': ['csv', 'sqlite'], 'gz': [True, False]})


def run_dict(pe, acc, case, d):
    for content in ('single', 'tworep', 'multi', 'purecov'):
        od = {'o': make(pe, content, 0), 'l': [make(pe, content, i) for i in range(2)], 'n': {'a': np.array([make(pe, content, i) for i in range(2)], dtype=object),
              'x': 1.5, 's': 'text', 'deep': {'o2': make(pe, content, 5), 'lst': [1, 'two', [make(pe, content, 6)], {'z': make(pe, content, 7)}]}},
              'none': None, 'flag': True, 'numkeys': {1: 'int key', 2.5: make(pe, content, 8)}}
        if content != 'purecov':
            od['c'] = pe.Corr([make(pe, content, t) if t else None for t in range(3)])
        # more than ten (and more than a hundred) structures: placeholders with several digits, sitting directly in lists,
        # as dictionary values and below both
        od['many'] = [[make(pe, content, 30 + i), np.array([make(pe, content, 60 + i)], dtype=object)] for i in range(7)]
        od['manyd'] = {'k%d' % i: make(pe, content, 90 + i) for i in range(12)}
        if content == 'single':
            od['hundred'] = [['s%d' % i, make(pe, content, 200 + i)] for i in range(105)]
        for gz in (True, False):
            for indent in (1, 0):
                fn = os.path.join(d, 'dict_%s' % content)
                sub = dict(case, content=content, gz=gz, indent=indent)
                try:
                    pe.input.json.dump_dict_to_json(od, fn, description='dd', indent=indent, gz=gz)
                    full = fn + '.json' + ('.gz' if gz else '')
                    text = (gzip.open(full, 'rt', encoding='utf-8') if gz else open(full, encoding='utf-8')).read()
                    back = pe.input.json.load_json_dict(fn, verbose=False, gz=gz)
                    os.remove(full)
                except Exception as e:
                    acc.fail('dict:raised', sub, 'dict transport raised %s: %s' % (type(e).__name__, e))
                    continue
                bad = validate(text, pe) or same_struct(od, back, pe)
                if bad:
                    acc.fail('dict:roundtrip', sub, '%s gz=%s indent=%d: %s' % (content, gz, indent, bad))
                else:
                    acc.ok(('dict', content, gz, indent), True, 'dict')
    acc.sample({'kind': 'dict', 'nesting': 'dict > dict > list > dict with Obs / list / array / Corr leaves and JSON scalars'})
