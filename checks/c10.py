"""C10 Matrix operations on observable matrices satisfy their defining identities.

E-PROD: shape x entry kind (Obs / CObs / mixed with plain numbers) x entry-layout family x
operation; identities are checked as vanishing *reference* differences (mc.ref.r_identical), so a
broken merge in the implementation cannot cancel itself."""
import os
import math
import warnings
import itertools
import numpy as np
from mc import engine, alpha, ref, compare
from mc.engine import Acc

LEVEL = 'exploration'
RULE = ('full product: n x n for n=1..3 (quick) / 1..4, rectangular 2x3, 3x2 (thorough: 2x4, 4x2, 3x4) for svd/pinv; entry kind '
        '{Obs, CObs, Obs mixed with plain numbers}; entry-layout family {all equal, same replica sets with different '
        'configuration subsets on two ensembles, different replica sets with equal per-replica configuration sets, disjoint '
        'replicas, irregular lists, with covariance inputs}; operations matmul (2,3,4 factors, also real x complex), inv, '
        'cholesky, det (cofactor expansion), eigh (A v = lambda v, v^T v = 1), eig, eigv, pinv (A A+ A = A), svd (U S V^h = A); '
        'jack_matmul and einsum against the exact product (value 1e-12, fluctuations within C/N) on contiguous, strided, '
        'shifted and irregular single chains, real and complex; call history: inv / cholesky / pinv / det / eigh on one matrix in all 120 orders, the same array object passed again after one / all entries were replaced.  Non-trivial = n > 1 or a mixed layout family')
ASSUMPTIONS = ['matrix values are diagonally dominant / symmetric positive definite (well conditioned)',
               'entries of one matrix share their replica sets or their per-replica configuration sets (the regime in which C01 '
               'promises split-independence); the products that form the left-hand sides use pyerrors scalar arithmetic (C01)']
EXHAUSTIVE = True
REPEAT = 2      # every case is evaluated twice in the same process: the second verdict must equal the first (call-history oracle)
CHUNK = 1

FAMILIES = {
    'equal': [{'A|r1': 'c8'}],
    'subsets': [{'A|r1': 'c8'}, {'A|r1': 'irr'}, {'B|r1': 'ev'}],
    'replica-sets': [{'A|r1': 'c8'}, {'A|r1': 'c8', 'A|r2': 'c5'}, {'B|r1': 'ev'}],
    'disjoint-replicas': [{'A|r1': 'c8'}, {'A|r2': 'c5'}, {'B|r1': 'ev'}],
    'irregular': [{'A|r1': 'irr', 'A|r2': 'g2'}],
    'with-cov': [{'A|r1': 'c8'}, 'cov', {'B|r1': 'ev'}],
}


def entry(pe, fam, i, j, key, val, sigma=0.03):
    lays = FAMILIES[fam]
    lay = lays[(i + 2 * j) % len(lays)]
    if lay == 'cov':
        cv = pe.cov_Obs([val, 0.5], alpha.cov_matrix(2, True, 'cv2') * 0.1, 'cv2')
        return cv[0] + 0.1 * cv[1] - 0.05
    return alpha.make_obs(pe, lay, ('c10', key, i, j), 'white', val, sigma)[0]


def build_matrix(pe, fam, shape, key, kind='obs', symmetric=False, base=None):
    r = np.random.default_rng(abs(hash((key, shape))) % (2 ** 31))    # fixed value pattern (PYTHONHASHSEED=0)
    n, m = shape
    vals = r.normal(0, 0.3, size=shape)
    if n == m:
        if symmetric:
            vals = vals @ vals.T + n * np.eye(n)
        else:
            vals = vals + (1.5 + n) * np.eye(n)
    else:
        vals = vals + 1.2 * np.eye(n, m)
    M = np.empty(shape, dtype=object)
    for i in range(n):
        for j in range(m):
            if symmetric and j < i:
                M[i, j] = M[j, i]
                continue
            o = entry(pe, fam, i, j, (key, 're'), float(vals[i, j]))
            if kind == 'cobs':
                M[i, j] = pe.CObs(o, entry(pe, fam, i, j, (key, 'im'), 0.3 * float(vals[j % n, i % m]) if not symmetric else 0.2 * (i - j)))
            else:
                M[i, j] = o
    if kind == 'mixed' and n * m > 1:
        M[0, m - 1] = float(vals[0, m - 1])
        if n > 1:
            M[n - 1, 0] = float(vals[n - 1, 0]) if not symmetric else M[0, m - 1]
    if kind == 'mixedint' and n * m > 1:           # a Python int at [0, 0] (integer-typed numbers among the entries)
        M[0, 0] = int(round(float(vals[0, 0]))) or 2
        if n > 2 and m > 2:
            M[1, 2] = M[2, 1] = 1
    if kind == 'mixednp' and n * m > 1:            # numpy-typed plain numbers: numpy integers of several widths (exact in double precision)
        M[0, 0] = np.int64(int(round(float(vals[0, 0]))) or 2)
        M[n - 1, m - 1] = np.int32(int(round(float(vals[n - 1, m - 1]))) or 3) if n * m > 2 else M[n - 1, m - 1]
        if n > 2 and m > 2:
            M[1, 2] = M[2, 1] = np.uint8(1)
    if kind == 'mixed00' and n * m > 1:            # the plain number sits at [0, 0] (and, for n > 2, at [1, 2] / [2, 1])
        M[0, 0] = float(vals[0, 0])
        if n > 2 and m > 2:
            M[1, 2] = float(vals[1, 2])
            M[2, 1] = float(vals[2, 1]) if not symmetric else M[1, 2]
    return M


def complexify(pe, M, how, key):
    """variants of a CObs matrix whose [0, 0] entry is not a CObs"""
    M = M.copy()
    if how == 'num00':
        M[0, 0] = 1.75
    elif how == 'cnum00':
        M[0, 0] = 1.5 + 0.25j
    elif how == 'real00':
        M[0, 0] = M[0, 0].real
    elif how == 'numlast':
        M[-1, -1] = 2.25
    return M


def fortran(M):
    """the same matrix as a non-contiguous view (as produced by .T or slicing)"""
    return np.ascontiguousarray(M.T).T


def refpair(x, pe):
    return compare.to_ref_any(x, pe)


def oclose(a, b, pe, tol=1e-8, scale=0.0):
    """identity between two scalar quantities (Obs / CObs / number): reference difference vanishes"""
    ar, ai = refpair(a, pe)
    br, bi = refpair(b, pe)
    r1 = ref.r_identical(ar, br, tol, scale)
    r2 = ref.r_identical(ai, bi, tol, scale)
    return (r1 and 'real part: ' + r1) or (r2 and 'imaginary part: ' + r2) or None


def magnitude(M, pe):
    m = 0.0
    for x in np.asarray(M, dtype=object).ravel():
        re, im = refpair(x, pe)
        m = max(m, abs(re['value']), abs(im['value']))
    return m


def mclose(A, B, pe, tol=1e-8):
    A = np.asarray(A, dtype=object)
    B = np.asarray(B, dtype=object)
    if A.shape != B.shape:
        return 'shape %s vs %s' % (A.shape, B.shape)
    scale = max(magnitude(A, pe), magnitude(B, pe))     # entries that vanish are compared on the scale of the matrix
    for i in np.ndindex(A.shape):
        bad = oclose(A[i], B[i], pe, tol, scale)
        if bad:
            return 'entry %s: %s' % (i, bad)
    return None


def cofactor_det(G):
    n = G.shape[0]
    if n == 1:
        return G[0, 0]
    if n == 2:
        return G[0, 0] * G[1, 1] - G[0, 1] * G[1, 0]
    e = None
    for p in itertools.permutations(range(n)):
        sgn = (-1) ** sum(1 for a in range(n) for b in range(a + 1, n) if p[a] > p[b])
        term = sgn * 1.0
        for i in range(n):
            term = term * G[i, p[i]]
        e = term if e is None else e + term
    return e


def nonsymmetric(pe, fam, n, key, kind):
    """a non-symmetric matrix with real, well separated eigenvalues: diag(1, 2.2, 3.4, ..) + 0.45 above, 0.06 below the diagonal"""
    M = np.empty((n, n), dtype=object)
    for i in range(n):
        for j in range(n):
            v = 1.0 + 1.2 * i if i == j else (0.45 + 0.05 * j if j > i else 0.06 + 0.01 * i)
            M[i, j] = entry(pe, fam, i, j, (key, 'ns'), v)
    if kind.startswith('mixed') and n > 1:
        M[0, n - 1] = 0.45 + 0.05 * (n - 1)
    return M


def eye_like(n):
    return np.eye(n)


def conjT(M, pe):
    out = np.empty(M.shape[::-1], dtype=object)
    for i in np.ndindex(M.shape):
        x = M[i]
        out[i[::-1]] = x.conjugate() if isinstance(x, pe.CObs) else x
    return out


def build(tier, seed):
    cases = []
    sizes = (1, 2, 3) if tier == 'quick' else (1, 2, 3, 4)
    for fam in FAMILIES:
        for n in sizes:
            for kind in ('obs', 'cobs', 'mixed', 'mixed00', 'mixedint', 'mixednp'):
                cases.append({'kind': 'square', 'fam': fam, 'n': n, 'ekind': kind})
            if n > 1:
                for kind in ('mixed', 'mixed00'):
                    cases.append({'kind': 'square', 'fam': fam, 'n': n, 'ekind': kind, 'order': 'F'})
                cases.append({'kind': 'cmixed', 'fam': fam, 'n': n})
        rect = [(2, 3), (3, 2)] + ([(2, 4), (4, 2), (3, 4)] if tier == 'thorough' else [])
        for shape in rect:
            for kind in ('obs', 'mixed'):
                cases.append({'kind': 'rect', 'fam': fam, 'shape': list(shape), 'ekind': kind})
    # call history: several operations on the SAME matrix in every order; the same ndarray object refilled between two calls
    for fam in FAMILIES:
        for n in (2, 3):
            cases.append({'kind': 'sequence', 'fam': fam, 'n': n})
    for fam in FAMILIES:
        for n in (2, 3):
            cases.append({'kind': 'scales', 'fam': fam, 'n': n})
    for kind in ('obs', 'cobs'):
        cases.append({'kind': 'refill', 'ekind': kind})
    for ik in ('contiguous', 'strided', 'shifted', 'irregular'):
        for kind in ('obs', 'cobs', 'real-complex'):
            cases.append({'kind': 'jack', 'idl': ik, 'ekind': kind})
    return cases


def run_case(case):
    pe = engine.import_pyerrors()
    acc = Acc()
    with warnings.catch_warnings():
        warnings.simplefilter('ignore')
        if case['kind'] == 'square':
            run_square(pe, acc, case)
        elif case['kind'] == 'rect':
            run_rect(pe, acc, case)
        elif case['kind'] == 'cmixed':
            run_cmixed(pe, acc, case)
        elif case['kind'] == 'sequence':
            run_sequence(pe, acc, case)
        elif case['kind'] == 'refill':
            run_refill(pe, acc, case)
        elif case['kind'] == 'scales':
            run_scales(pe, acc, case)
        else:
            run_jack(pe, acc, case)
    return acc


def fingerprint(mats):
    return [[(id(x), type(x).__name__) for x in np.asarray(M, dtype=object).ravel()] for M in mats]


def attempt(pe, acc, name, case, f, nontrivial=True, watch=()):
    sub = dict(case, op=name)
    if 'op' in case and case['op'] != name:
        return
    before = fingerprint(watch)
    try:
        bad = f()
        if not bad and fingerprint(watch) != before:
            bad = 'the call replaced entries of the matrix passed in by the caller (%s)' % [
                t for b, a in zip(before, fingerprint(watch)) for (i0, t0), (i1, t) in zip(b, a) if i0 != i1][:3]
    except engine.MachineryError:
        raise
    except Exception as e:
        import traceback
        acc.fail('%s:raised' % name, sub, '%s (%s, n=%s, %s entries) raised %s: %s\n%s' % (name, case.get('fam'), case.get('n', case.get('shape')), case.get('ekind'), type(e).__name__, e, traceback.format_exc()[-600:]))
        return
    if bad:
        acc.fail(name, sub, '%s (%s family, size %s, %s entries): %s' % (name, case.get('fam'), case.get('n', case.get('shape')), case.get('ekind'), bad))
    else:
        acc.ok((name, case.get('fam'), str(case.get('n', case.get('shape'))), case.get('ekind')), nontrivial, name)


def run_square(pe, acc, case):
    fam, n, kind = case['fam'], case['n'], case['ekind']
    L = pe.linalg
    G = build_matrix(pe, fam, (n, n), 'G', kind)
    H = build_matrix(pe, fam, (n, n), 'H', kind)
    R = build_matrix(pe, fam, (n, n), 'R', 'obs')
    S = build_matrix(pe, fam, (n, n), 'S', 'obs' if kind == 'cobs' else kind, symmetric=True)
    if case.get('order') == 'F':
        G, H, S = fortran(G), fortran(H), fortran(S)
    nt = n > 1 or fam != 'equal'
    I = eye_like(n)
    W = [G, H, R, S]
    _attempt = attempt

    def attempt_w(pe, acc, name, case, f, nontrivial=True):
        return _attempt(pe, acc, name, case, f, nontrivial, watch=W)
    attempt_w(pe, acc, 'matmul2', case, lambda: mclose(L.matmul(G, H), G @ H, pe), nt)
    attempt_w(pe, acc, 'matmul3', case, lambda: mclose(L.matmul(G, H, G), G @ H @ G, pe), nt)
    attempt_w(pe, acc, 'matmul4', case, lambda: mclose(L.matmul(G, H, G, H), (G @ H) @ (G @ H), pe), nt)
    if kind == 'cobs':
        attempt_w(pe, acc, 'matmul-real-complex', case, lambda: mclose(L.matmul(R, G), R @ G, pe) or mclose(L.matmul(G, R), G @ R, pe), nt)
    if not kind.startswith('mixed'):
        attempt_w(pe, acc, 'inv', case, lambda: mclose(G @ L.inv(G), I, pe) or mclose(L.inv(G) @ G, I, pe), nt)
    else:
        attempt_w(pe, acc, 'inv', case, lambda: mclose(G @ L.inv(G), I, pe), nt)
    if kind != 'cobs':
        attempt_w(pe, acc, 'cholesky', case, lambda: (lambda C: mclose(C @ C.T, S, pe) or (None if all(float(C[i, j]) == 0 if not hasattr(C[i, j], 'value') else abs(C[i, j].value) < 1e-14 for i in range(n) for j in range(i + 1, n)) else 'factor not lower triangular'))(L.cholesky(S)), nt)

        def det_check():
            d = L.det(G)
            if n == 1:
                e = G[0, 0]
            elif n == 2:
                e = G[0, 0] * G[1, 1] - G[0, 1] * G[1, 0]
            elif n == 3:
                e = (G[0, 0] * (G[1, 1] * G[2, 2] - G[1, 2] * G[2, 1]) - G[0, 1] * (G[1, 0] * G[2, 2] - G[1, 2] * G[2, 0]) + G[0, 2] * (G[1, 0] * G[2, 1] - G[1, 1] * G[2, 0]))
            else:
                e = None
                for p in itertools.permutations(range(n)):
                    sgn = (-1) ** sum(1 for a in range(n) for b in range(a + 1, n) if p[a] > p[b])
                    term = sgn * 1.0
                    for i in range(n):
                        term = term * G[i, p[i]]
                    e = term if e is None else e + term
            return oclose(d, e, pe)
        attempt_w(pe, acc, 'det', case, det_check, nt)

        def eigh_check():
            w, v = L.eigh(S)
            bad = mclose(S @ v, v @ np.diag(w) if n > 1 else v * w[0], pe) or mclose(v.T @ v, I, pe)
            if bad:
                return bad
            vals = [x.value for x in w]
            if vals != sorted(vals):
                return 'eigenvalues not ascending'
            e = L.eig(S)
            bad = None
            for x in e:      # eig of a symmetric matrix: the same set of eigenvalues (order may differ)
                k = int(np.argmin([abs(x.value - y.value) for y in w]))
                bad = bad or oclose(x, w[k], pe)
            ev = L.eigv(S)
            for k in range(n):
                col = ev[:, k]
                lam = (col @ S @ col) / (col @ col)
                bad = bad or oclose(lam, w[k], pe)
            return bad
        attempt_w(pe, acc, 'eigh', case, eigh_check, nt)

        def eig_check():
            # eigenvalues of a non-symmetric matrix (real spectrum): each one is a root of the characteristic
            # polynomial as an identity between observables, and they sum to the trace
            A = nonsymmetric(pe, fam, n, 'E', kind)
            w = L.eig(A)
            if len(w) != n:
                return '%d eigenvalues for a %dx%d matrix' % (len(w), n, n)
            lam_np = np.sort(np.linalg.eigvals(np.array([[x.value if hasattr(x, 'value') else x for x in row] for row in A], dtype=float)).real)
            if not np.allclose(np.sort([x.value for x in w]), lam_np, rtol=1e-10):
                return 'eigenvalues %s, numpy gives %s for the central values' % (sorted(x.value for x in w), list(lam_np))
            tr = None
            for i in range(n):
                tr = A[i, i] if tr is None else tr + A[i, i]
            ssum = w[0]
            for x in w[1:]:
                ssum = ssum + x
            bad = oclose(ssum, tr, pe)
            for x in w:
                Am = A.copy()
                for i in range(n):
                    Am[i, i] = Am[i, i] - x
                bad = bad or oclose(cofactor_det(Am), 0.0, pe, 1e-8, 1.0)
            return bad
        attempt_w(pe, acc, 'eig-nonsymmetric', case, eig_check, nt)

        def svd_check():
            u, s, vh = L.svd(G)
            return mclose(u @ np.diag(s) @ vh if n > 1 else u * s[0] * vh, G, pe) or mclose(u.T @ u, I, pe)
        attempt_w(pe, acc, 'svd', case, svd_check, nt)
        attempt_w(pe, acc, 'pinv', case, lambda: mclose(G @ L.pinv(G) @ G, G, pe), nt)
    acc.sample({'kind': 'square', 'family': fam, 'n': n, 'entries': kind, 'operations': 'matmul2-4 inv cholesky det eigh eig eigv svd pinv'})



def run_cmixed(pe, acc, case):
    """complex matrices whose [0, 0] (or last) entry is a plain real / complex number or a real observable"""
    fam, n = case['fam'], case['n']
    L = pe.linalg
    G0 = build_matrix(pe, fam, (n, n), 'G', 'cobs')
    H = build_matrix(pe, fam, (n, n), 'H', 'cobs')
    R = build_matrix(pe, fam, (n, n), 'R', 'obs')
    I = eye_like(n)
    for how in ('num00', 'cnum00', 'real00', 'numlast'):
        for order in ('C', 'F'):
            G = complexify(pe, G0, how, 'G')
            if order == 'F':
                G = fortran(G)
            c = dict(case, how=how, order=order)
            if ('how' in case and case['how'] != how) or ('order' in case and case['order'] != order):
                continue
            W = [G, H, R]
            attempt(pe, acc, 'matmul2', c, lambda: mclose(L.matmul(G, H), G @ H, pe) or mclose(L.matmul(H, G), H @ G, pe), True, watch=W)
            attempt(pe, acc, 'matmul3', c, lambda: mclose(L.matmul(G, H, G), G @ H @ G, pe), True, watch=W)
            attempt(pe, acc, 'matmul-real-complex', c, lambda: mclose(L.matmul(R, G), R @ G, pe) or mclose(L.matmul(G, R), G @ R, pe), True, watch=W)
            attempt(pe, acc, 'inv', c, lambda: mclose(G @ L.inv(G), I, pe), True, watch=W)
    # Cholesky factor of a Hermitian positive matrix with real observables on the diagonal and complex ones off the diagonal:
    # refused (as for all-complex matrices), or a lower triangular L with L L^h = A
    if n > 1:
        S = build_matrix(pe, fam, (n, n), 'CH', 'obs', symmetric=True)
        A = np.empty((n, n), dtype=object)
        for i in range(n):
            for j in range(n):
                if i == j:
                    A[i, j] = S[i, j] + 1.0 if case.get('chol', 'obs-diagonal') == 'obs-diagonal' else float((S[i, j] + 1.0).value)
                elif i > j:
                    A[i, j] = pe.CObs(S[i, j], 0.1 * R[i, j])
                else:
                    A[i, j] = pe.CObs(S[j, i], -0.1 * R[j, i])
        for diag in ('obs-diagonal', 'number-diagonal'):
            if diag == 'number-diagonal':
                for i in range(n):
                    A[i, i] = float(A[i, i].value) if isinstance(A[i, i], pe.Obs) else A[i, i]
            c = dict(case, how='cholesky-' + diag)
            try:
                Lc = L.cholesky(A)
            except Exception:
                acc.ok(('chol-c', fam, n, diag), True, 'cholesky-complex-refused')
                continue
            bad = mclose(Lc @ conjT(Lc, pe), A, pe)
            if not bad and any(abs(complex(getattr(Lc[i, j], 'real', Lc[i, j]).value if hasattr(getattr(Lc[i, j], 'real', Lc[i, j]), 'value') else 0.0)) > 1e-12 for i in range(n) for j in range(i + 1, n)):
                bad = 'factor not lower triangular'
            if bad:
                acc.fail('cholesky:complex-off-diagonal', c, 'cholesky of a Hermitian matrix with %s and complex off-diagonal observables returned a matrix with L L^h != A: %s' % (diag, bad))
            else:
                acc.ok(('chol-c', fam, n, diag), True, 'cholesky')
    acc.sample({'kind': 'cmixed', 'family': fam, 'n': n, 'variants': 'number / complex number / real Obs at [0,0], number at [-1,-1]; C and F order'})


def run_sequence(pe, acc, case):
    fam, n = case['fam'], case['n']
    L = pe.linalg
    S = build_matrix(pe, fam, (n, n), 'SEQ', 'obs', symmetric=True)
    I = eye_like(n)
    ops = {
        'inv': lambda: mclose(S @ L.inv(S), I, pe),
        'cholesky': lambda: (lambda C: mclose(C @ C.T, S, pe))(L.cholesky(S)),
        'pinv': lambda: mclose(S @ L.pinv(S) @ S, S, pe),
        'det': lambda: oclose(L.det(S), cofactor_det(S), pe),
        'eigh': lambda: (lambda wv: mclose(S @ wv[1], wv[1] @ np.diag(wv[0]), pe))(L.eigh(S)),
    }
    for order in itertools.permutations(sorted(ops)):
        if 'order' in case and case['order'] != list(order):
            continue
        for pos, name in enumerate(order):
            sub = dict(case, order=list(order), position=pos)
            try:
                bad = ops[name]()
            except Exception as e:
                bad = 'raised %s: %s' % (type(e).__name__, e)
            if bad:
                acc.fail('sequence:%s' % name, sub, '%s as operation %d of the sequence %s on one %dx%d matrix (%s): %s' % (name, pos + 1, list(order), n, n, fam, bad))
                break
        else:
            acc.ok(('seq', fam, n, order), True, 'sequence')
    acc.sample(dict(case, operations=sorted(ops), orders='all %d' % math.factorial(len(ops))))


def run_scales(pe, acc, case):
    """The same identities for matrices of very small / very large magnitude and for factors of very different magnitude: matrix
    operations are homogeneous, so every result is the order-one result times the appropriate power of the scale."""
    fam, n = case['fam'], case['n']
    L = pe.linalg
    G = build_matrix(pe, fam, (n, n), 'G', 'obs')
    H = build_matrix(pe, fam, (n, n), 'H', 'obs')
    S = build_matrix(pe, fam, (n, n), 'S', 'obs', symmetric=True)
    I = eye_like(n)
    W = [G, H, S]

    def at(name, f):
        return attempt(pe, acc, name, case, f, True, watch=W)
    for sa, sb in ((1e9, 1e-9), (1e-9, 1e9), (1e-12, 1e7), (1e150, 1e-150)):
        tag = '%g*%g' % (sa, sb)
        at('scale-matmul2:' + tag, lambda: mclose(L.matmul(G * sa, H * sb), (G @ H) * (sa * sb), pe))
        at('scale-matmul3:' + tag, lambda: mclose(L.matmul(G * sa, H * sb, G), (G @ H @ G) * (sa * sb), pe))
        at('scale-matmul3b:' + tag, lambda: mclose(L.matmul(H * sb, G, H * sa), (H @ G @ H) * (sa * sb), pe))
    for sc in (1e-12, 1e-9, 1e9):
        tag = '%g' % sc
        at('scale-cholesky:' + tag, lambda: (lambda C: mclose(C @ C.T, S * sc, pe) or mclose(C, L.cholesky(S) * math.sqrt(sc), pe))(L.cholesky(S * sc)))
        at('scale-inv:' + tag, lambda: (lambda Gi: mclose((G * sc) @ Gi, I, pe) or mclose(Gi, L.inv(G) * (1.0 / sc), pe))(L.inv(G * sc)))
        at('scale-det:' + tag, lambda: oclose(L.det(G * sc), L.det(G) * sc ** n, pe))

        def eigh_scaled():
            w, v = L.eigh(S * sc)
            w1, v1 = L.eigh(S)
            return mclose(np.array(list(w), dtype=object), np.array([x * sc for x in w1], dtype=object), pe) or mclose((S * sc) @ v, v @ np.diag(w), pe)
        at('scale-eigh:' + tag, eigh_scaled)
        at('scale-pinv:' + tag, lambda: mclose(L.pinv(G * sc), L.pinv(G) * (1.0 / sc), pe, 1e-7))
    acc.sample({'kind': 'scales', 'family': fam, 'n': n, 'factor_scales': [[1e9, 1e-9], [1e-9, 1e9], [1e-12, 1e7], [1e150, 1e-150]], 'matrix_scales': [1e-12, 1e-9, 1e9]})


def run_refill(pe, acc, case):
    """the same ndarray object passed again after its entries were replaced"""
    kind = case['ekind']
    L = pe.linalg
    for fam in FAMILIES:
        for n in (2, 3):
            G = build_matrix(pe, fam, (n, n), 'RF1', kind)
            H = build_matrix(pe, fam, (n, n), 'RF2', kind)
            G2 = build_matrix(pe, fam, (n, n), 'RF3', kind)
            sub = dict(case, fam=fam, n=n)
            try:
                bad = mclose(L.matmul(G, H), G @ H, pe)
                step = 'first call'
                if not bad:
                    G[0, 0] = G2[0, 0]                 # one entry replaced
                    bad = mclose(L.matmul(G, H), G @ H, pe) or mclose(L.matmul(H, G), H @ G, pe)
                    step = 'after one entry of the first operand was replaced'
                if not bad:
                    G[...] = G2                         # all entries replaced, same array object
                    bad = mclose(L.matmul(G, H), G @ H, pe) or (mclose(G @ L.inv(G), eye_like(n), pe) if kind == 'obs' else None)
                    step = 'after the first operand was refilled'
            except Exception as e:
                bad, step = 'raised %s: %s' % (type(e).__name__, e), 'call'
            if bad:
                acc.fail('refill:%s' % kind, sub, 'matmul with the same array object, %s (%s, n=%d, %s entries): %s' % (step, fam, n, kind, bad))
            else:
                acc.ok(('refill', fam, n, kind), True, 'refill')
    acc.sample(dict(case, steps=['first call', 'one entry replaced', 'all entries replaced']))


def run_rect(pe, acc, case):
    fam, shape, kind = case['fam'], tuple(case['shape']), case['ekind']
    L = pe.linalg
    A = build_matrix(pe, fam, shape, 'RA', kind)
    k = min(shape)

    def svd_check():
        u, s, vh = L.svd(A)
        if u.shape != (shape[0], k) or s.shape != (k,) or vh.shape != (k, shape[1]):
            return 'shapes %s %s %s' % (u.shape, s.shape, vh.shape)
        sv = [x.value for x in s]
        if sv != sorted(sv, reverse=True) or min(sv) <= 0:
            return 'singular values %s' % sv
        return mclose(u @ np.diag(s) @ vh, A, pe) or mclose(u.T @ u, np.eye(k), pe) or mclose(vh @ vh.T, np.eye(k), pe)
    attempt(pe, acc, 'svd-rect', case, svd_check)

    def pinv_check():
        P = L.pinv(A)
        if P.shape != shape[::-1]:
            return 'shape %s' % (P.shape,)
        return mclose(A @ P @ A, A, pe) or mclose(P @ A @ P, P, pe)
    attempt(pe, acc, 'pinv-rect', case, pinv_check)
    acc.sample({'kind': 'rect', 'family': fam, 'shape': list(shape), 'entries': kind})


def run_jack(pe, acc, case):
    from checks.c13 import idl_for
    L = pe.linalg
    ik, kind = case['idl'], case['ekind']
    for N in (20, 80):
        cfgs = idl_for(ik, N)

        def mat(key, n=2, ekind=None):
            kind = ekind or case['ekind']
            M = np.empty((n, n), dtype=object)
            for i in range(n):
                for j in range(n):
                    x = alpha.data('white', cfgs, alpha.rng('c10j', key, i, j, N), 1.0 + 0.3 * i - 0.2 * j + (0.8 if i == j else 0), 0.1)
                    o = pe.Obs([x], ['A|r1'], idl=[alpha.idl_carrier(cfgs)])
                    if kind == 'cobs':
                        y = alpha.data('white', cfgs, alpha.rng('c10ji', key, i, j, N), 0.2 * (i + 1), 0.1)
                        o = pe.CObs(o, pe.Obs([y], ['A|r1'], idl=[alpha.idl_carrier(cfgs)]))
                    M[i, j] = o
            return M
        Nm = np.array([[1.0, 0.5], [-0.25, 2.0]])
        Ni = np.array([[2, 3], [1, 5]])
        Zm = np.array([[1 + 1j, 2], [0.5, 1j]])
        if kind == 'real-complex':
            A, B = mat('A', ekind='obs'), mat('B', ekind='cobs')
            progs = [('jack_matmul:real-complex', lambda: L.jack_matmul(A, B), lambda: L.matmul(A, B)),
                     ('jack_matmul:complex-real', lambda: L.jack_matmul(B, A), lambda: L.matmul(B, A)),
                     ('jack_matmul3:real-complex-real', lambda: L.jack_matmul(A, B, A), lambda: L.matmul(A, B, A)),
                     ('jack_matmul3:complex-number-real', lambda: L.jack_matmul(B, Nm, A), lambda: L.matmul(B, Nm, A)),
                     ('jack_matmul3:number-real-complex', lambda: L.jack_matmul(Nm, A, B), lambda: L.matmul(Nm, A, B)),
                     ('einsum:real-complex', lambda: L.einsum('ij,jk->ik', A, B), lambda: L.matmul(A, B)),
                     ('einsum:complex-real:implicit', lambda: L.einsum('ij,jk', B, A), lambda: L.matmul(B, A))]
        else:
            A, B = mat('A'), mat('B')
            progs = [('jack_matmul', lambda: L.jack_matmul(A, B), lambda: L.matmul(A, B)),
                     ('einsum', lambda: L.einsum('ij,jk->ik', A, B), lambda: L.matmul(A, B)),
                     ('jack_matmul3', lambda: L.jack_matmul(A, B, A), lambda: L.matmul(A, B, A)),
                     ('jack_matmul:number', lambda: L.jack_matmul(A, Nm), lambda: L.matmul(A, Nm)),
                     ('jack_matmul:number-first', lambda: L.jack_matmul(Nm, A), lambda: L.matmul(Nm, A)),
                     ('jack_matmul:integer-matrix', lambda: L.jack_matmul(A, Ni), lambda: A @ Ni),
                     ('matmul:integer-matrix-first', lambda: L.matmul(Ni, A), lambda: Ni @ A),
                     ('jack_matmul:complex-matrix', lambda: L.jack_matmul(A, Zm), lambda: A @ Zm),
                     ('jack_matmul3:complex-matrix-first', lambda: L.jack_matmul(Zm, A, B), lambda: Zm @ (A @ B)),
                     ('einsum:complex-matrix', lambda: L.einsum('ij,jk->ik', A, Zm), lambda: A @ Zm),
                     ('jack_matmul3:number-middle', lambda: L.jack_matmul(A, Nm, B), lambda: L.matmul(A, Nm, B)),
                     ('einsum:implicit', lambda: L.einsum('ij,jk', A, B), lambda: L.matmul(A, B)),
                     ('einsum:implicit-transposed', lambda: L.einsum('ba,ac', A, B), lambda: L.matmul(A, B)),
                     ('einsum:implicit-kj', lambda: L.einsum('ij,kj', A, B), lambda: L.matmul(A, B.T)),
                     # implicit output: the free labels in ALPHABETICAL order (numpy's rule), not in order of appearance
                     ('einsum:implicit-reordered', lambda: L.einsum('kj,ji', A, B), lambda: L.matmul(A, B).T),
                     ('einsum:implicit-single-operand', lambda: L.einsum('ji', A), lambda: A.T * 1),
                     ('einsum:implicit-three-reordered', lambda: L.einsum('lk,kj,ji', A, B, A), lambda: L.matmul(A, B, A).T),
                     ('einsum:number', lambda: L.einsum('ij,jk->ik', A, Nm), lambda: L.matmul(A, Nm)),
                     ('einsum:trace', lambda: np.array([[L.einsum('ij,ji', A, B)]], dtype=object), lambda: (lambda P: np.array([[P[0, 0] + P[1, 1]]], dtype=object))(L.matmul(A, B)))]
            # entries mixed with plain numbers (at [0, 0], elsewhere, integer, complex) in the jackknife-based products
            M00, M11, Mint, Mc = A.copy(), A.copy(), A.copy(), A.copy()
            M00[0, 0], M11[1, 1], Mint[0, 1], Mc[1, 0] = 1.5, -0.75, 2, 0.5 - 2j
            for mn, Mx in (('number-at-00', M00), ('number-at-11', M11), ('int-entry', Mint), ('complex-number-entry', Mc)):
                progs += [('jack_matmul:mixed:%s' % mn, lambda Mx=Mx: L.jack_matmul(Mx, B), lambda Mx=Mx: L.matmul(Mx, B)),
                          ('jack_matmul:mixed-second:%s' % mn, lambda Mx=Mx: L.jack_matmul(B, Mx), lambda Mx=Mx: L.matmul(B, Mx)),
                          ('einsum:mixed:%s' % mn, lambda Mx=Mx: L.einsum('ij,jk->ik', Mx, B), lambda Mx=Mx: L.matmul(Mx, B))]
            # complex entries whose real / imaginary part is a plain number (also as the first entry)
            if kind == 'cobs':
                Cn = A.copy()
                Cn[0, 0] = pe.CObs(1.25, A[0, 0].imag)
                Cn[1, 0] = pe.CObs(A[1, 0].real, -0.5)
                progs += [('jack_matmul:cobs-number-parts', lambda: L.jack_matmul(Cn, B), lambda: L.matmul(Cn, B)),
                          ('jack_matmul:cobs-number-parts-second', lambda: L.jack_matmul(B, Cn), lambda: L.matmul(B, Cn)),
                          ('einsum:cobs-number-parts', lambda: L.einsum('ij,jk', Cn, B), lambda: L.matmul(Cn, B))]
            # matrices of very small magnitude (1e-12): nothing in the product may be decided by an absolute tolerance
            At, Bt = A * 1e-12, B * 1e-12
            progs += [('jack_matmul:tiny', lambda: L.jack_matmul(At, B), lambda: L.matmul(At, B)), ('jack_matmul:tiny-both', lambda: L.jack_matmul(At, Bt), lambda: L.matmul(At, Bt)),
                      ('einsum:tiny', lambda: L.einsum('ij,jk', B, At), lambda: L.matmul(B, At))]
            # the result of an exact operation on a matrix with plain numbers, handed on to the jackknife-based functions
            progs += [('jack_matmul:after-inv-of-mixed', lambda: L.jack_matmul(L.inv(M11), B), lambda: L.matmul(L.inv(M11), B)),
                      ('einsum:after-matmul-of-mixed', lambda: L.einsum('ij,jk', L.matmul(M00, B), B), lambda: L.matmul(L.matmul(M00, B), B)),
                      ('jack_matmul:after-matmul-with-number-matrix', lambda: L.jack_matmul(L.matmul(Nm, A), B), lambda: L.matmul(Nm, A, B))]
        for name, f, fe in progs:
            sub = dict(case, op=name, N=N)
            if 'op' in case and case['op'] != name:
                continue
            try:
                ex = fe()
            except Exception as e:
                acc.fail('%s:exact-product-raised' % name, sub, 'the exact product (linalg.matmul / @) for %s raised %s: %s' % (name, type(e).__name__, e))
                continue
            before = fingerprint([A, B])
            try:
                J = f()
            except Exception as e:
                acc.fail('%s:raised' % name, sub, '%s (%s chain of %d, %s) raised %s: %s' % (name, ik, N, kind, type(e).__name__, e))
                continue
            if fingerprint([A, B]) != before:
                acc.fail('%s:mutates-argument' % name, sub, '%s replaced entries of its argument' % name)
                continue
            J = np.asarray(J, dtype=object)
            if J.shape != ex.shape:
                acc.fail(name, sub, '%s (%s chain of %d, %s entries): result shape %s, expected %s' % (name, ik, N, kind, J.shape, ex.shape))
                continue
            bad = None
            mscale = magnitude(ex, pe)      # values are compared on the scale of the exact product (matrices of very small magnitude included)
            for idx in np.ndindex(ex.shape):
                parts = [(J[idx], ex[idx])] if isinstance(ex[idx], pe.Obs) else [(J[idx].real, ex[idx].real), (J[idx].imag, ex[idx].imag)]
                for pn, (g, e) in zip(('real', 'imag'), parts):
                    if not isinstance(g, pe.Obs):
                        bad = 'entry %s is a %s' % (idx, type(g).__name__)
                        break
                    if sorted(g.names) != sorted(e.names) or sorted(e.names) != ['A|r1']:
                        bad = 'entry %s (%s part) carries the names %s, the exact product %s, the operands A|r1' % (idx, pn, g.names, e.names)
                        break
                    if list(g.idl['A|r1']) != cfgs or type(g.idl['A|r1']) is not type(e.idl['A|r1']):
                        bad = 'entry %s (%s part): configuration list %s, operands live on %s' % (idx, pn, g.idl['A|r1'], e.idl['A|r1'])
                        break
                    if not abs(g.value - e.value) <= 1e-12 * max(mscale, abs(e.value)):
                        bad = 'entry %s (%s part): value %r, exact %r' % (idx, pn, g.value, e.value)
                        break
                    dscale = np.max(np.abs(e.deltas['A|r1']))
                    diff = np.max(np.abs(g.deltas['A|r1'] - e.deltas['A|r1']))
                    if not diff <= 25.0 / N * dscale:
                        bad = 'entry %s (%s part): fluctuations differ from the exact product by %g, allowed C/N = %g' % (idx, pn, diff, 25.0 / N * dscale)
                        break
                if bad:
                    break
            if bad:
                acc.fail(name, sub, '%s (%s chain of %d, %s entries): %s' % (name, ik, N, kind, bad))
            else:
                acc.ok((name, ik, N, kind), True, name)
        # entries that do not share one chain and one configuration list: the jackknife of a single chain cannot serve them --
        # refused, or (should the functions learn it) equal to the exact product; never a result on the first entry's chain only
        if kind == 'obs':
            def other(how, key):
                M = np.empty((2, 2), dtype=object)
                for i in range(2):
                    for j in range(2):
                        x = alpha.data('white', cfgs, alpha.rng('c10jm', key, i, j, N), 1.0 + 0.3 * i - 0.2 * j, 0.1)
                        if how == 'other-ensemble':
                            M[i, j] = pe.Obs([x], ['B|r1'], idl=[alpha.idl_carrier(cfgs)])
                        elif how == 'other-replica':
                            M[i, j] = pe.Obs([x], ['A|r2'], idl=[alpha.idl_carrier(cfgs)])
                        elif how == 'shifted':
                            M[i, j] = pe.Obs([x], ['A|r1'], idl=[[c + 1 for c in cfgs]])
                        elif how == 'stretched':
                            M[i, j] = pe.Obs([x], ['A|r1'], idl=[[2 * c for c in cfgs]])
                        elif how == 'one-entry-elsewhere':
                            M[i, j] = pe.Obs([x], ['A|r1'], idl=[alpha.idl_carrier(cfgs) if (i, j) != (1, 0) else [c + 3 for c in cfgs]])
                        elif how == 'one-entry-two-replicas':
                            M[i, j] = pe.Obs([x], ['A|r1'], idl=[alpha.idl_carrier(cfgs)])
                            if (i, j) == (0, 1):
                                M[i, j] = M[i, j] + pe.Obs([x[:7]], ['A|r2'])
                return M
            A = mat('A')
            for how in ('other-ensemble', 'other-replica', 'shifted', 'stretched', 'one-entry-elsewhere', 'one-entry-two-replicas'):
                F = other(how, how)
                for name, f, fe in (('jack_matmul', lambda: L.jack_matmul(A, F), lambda: L.matmul(A, F)), ('jack_matmul:swapped', lambda: L.jack_matmul(F, A), lambda: L.matmul(F, A)),
                                    ('einsum', lambda: L.einsum('ij,jk->ik', A, F), lambda: L.matmul(A, F))):
                    sub = dict(case, op=name, N=N, partner=how)
                    try:
                        J = np.asarray(f(), dtype=object)
                    except Exception:
                        acc.ok(('jack-mis', name, ik, N, how), True, 'misaligned-refused')
                        continue
                    ex = fe()
                    bad = None
                    for idx in np.ndindex(ex.shape):
                        g, e = J[idx], ex[idx]
                        if not isinstance(g, pe.Obs) or sorted(g.names) != sorted(e.names) or any(list(g.idl[n]) != list(e.idl[n]) for n in e.names):
                            bad = 'entry %s lives on %s, the exact product on %s' % (idx, getattr(g, 'idl', type(g).__name__), e.idl)
                            break
                        if not abs(g.value - e.value) <= 1e-12 * max(1.0, abs(e.value)) or any(np.max(np.abs(g.deltas[n] - e.deltas[n])) > 25.0 / N * np.max(np.abs(e.deltas[n])) for n in e.names):
                            bad = 'entry %s differs from the exact product' % (idx,)
                            break
                    if bad:
                        acc.fail('jack:misaligned-accepted', sub, '%s with a partner matrix on %s (%s chain of %d) was accepted: %s' % (name, how, ik, N, bad))
                    else:
                        acc.ok(('jack-mis', name, ik, N, how), True, 'misaligned-faithful')
    acc.sample({'kind': 'jack', 'idl': ik, 'entries': kind, 'lengths': [20, 80]})
