"""C03 Error analysis is invariant under relabelling, rescaling and call history.

(1) E-BFS: explicit-state search over histories of gamma_method calls, changes of the global and
    per-ensemble parameter dictionaries and arithmetic on two live observables.  Every transition
    is executed on the real objects and checked against (a) immutability of the data, (b) the
    reference analysis under the *effective* parameters (keyword > per-ensemble dict > global),
    (c) a never-analysed copy analysed once in the same configuration (bit-for-bit),
    (d) idempotence, (e) derived observables identical to those built from pristine copies,
    (f) class dictionaries untouched by non-"set" events.
(2) E-PROD metamorphic product over the C02 alphabet: fft on/off, affine relabelling of the
    configuration numbers, replica renaming / argument order, data + c, data * c, bounds."""
import os
import copy
import time
import pickle
import hashlib
import itertools
import numpy as np
from mc import engine, alpha, ref, compare
from mc.engine import Acc

LEVEL = 'model_checking'
ASSUMPTIONS = ['states are concrete: all analysis slots of both observables + the six class-level settings (hashed); '
               'the data slots are excluded from the hash because invariant (a) proves them constant on every transition',
               'reference results under the effective parameters come from mc.ref.r_gamma (see C02)']

# ------------------------------------------------------------------ world
GM_VARIANTS = [{}, {'S': 0}, {'S': 3}, {'tau_exp': 4}, {'tau_exp': 4, 'N_sigma': 2}, {'fft': False}]
SET_EVENTS = [('S_global', 1.5), ('S_global', 2.0), ('tau_exp_global', 3.0), ('tau_exp_global', 0.0),
              ('N_sigma_global', 2.0), ('N_sigma_global', 1.0)]
DICT_EVENTS = [('S_dict', 'A', 1.0), ('S_dict', 'A', None), ('tau_exp_dict', 'B', 5.0), ('tau_exp_dict', 'B', None),
               ('N_sigma_dict', 'A', 0.0), ('N_sigma_dict', 'A', None)]
OBSERVE = ['derive', 'covariance', 'print']
DEFAULT_CLS = {'S_global': 2.0, 'tau_exp_global': 0.0, 'N_sigma_global': 1.0, 'S_dict': {}, 'tau_exp_dict': {}, 'N_sigma_dict': {}}


def all_events():
    ev = []
    for who in (0, 1):
        for i in range(len(GM_VARIANTS)):
            ev.append(('gm', who, i))
    for i in range(len(SET_EVENTS)):
        ev.append(('set', i))
    for i in range(len(DICT_EVENTS)):
        ev.append(('dict', i))
    for o in OBSERVE:
        ev.append(('obs', o))
    return ev


_W = {}


def world(pe):
    """Pristine observables (deterministic from the seed)."""
    key = alpha.seed()
    if key in _W:
        return _W[key]
    n = 4
    o1, _, _ = alpha.make_obs(pe, {'A|r1': ref_enl('c12', n), 'A|r2': ref_enl('irr', n)}, ('c03', 'o1'), 'ar1')
    a, _, _ = alpha.make_obs(pe, {'A|r1': ref_enl('c12', n)}, ('c03', 'o2a'), 'ar1', mean=2.0)
    b, _, _ = alpha.make_obs(pe, {'B|r1': ref_enl('ev', n), 'B|r2': ref_enl('c8', n)}, ('c03', 'o2b'), 'white', mean=0.5)
    c, _, _ = alpha.make_obs(pe, {'C|r1': ref_enl('c8', 2)}, ('c03', 'o2c'), 'const', mean=1.0)
    cv = pe.cov_Obs(0.7, 0.01, 'cv1')
    o2 = a * b * cv + c
    _W[key] = (o1, o2)
    return _W[key]


def ref_enl(cid, reps):
    cfgs = alpha.CFG[cid]
    gap = min(b - a for a, b in zip(cfgs, cfgs[1:]))
    period = cfgs[-1] - cfgs[0] + gap
    return [c + k * period for k in range(reps) for c in cfgs]


def get_cls(pe):
    return {'S_global': pe.Obs.S_global, 'tau_exp_global': pe.Obs.tau_exp_global, 'N_sigma_global': pe.Obs.N_sigma_global,
            'S_dict': dict(pe.Obs.S_dict), 'tau_exp_dict': dict(pe.Obs.tau_exp_dict), 'N_sigma_dict': dict(pe.Obs.N_sigma_dict)}


def set_cls(pe, c):
    pe.Obs.S_global = c['S_global']
    pe.Obs.tau_exp_global = c['tau_exp_global']
    pe.Obs.N_sigma_global = c['N_sigma_global']
    for k in ('S_dict', 'tau_exp_dict', 'N_sigma_dict'):
        d = getattr(pe.Obs, k)
        d.clear()
        d.update(c[k])


ANALYSIS_SLOTS = ['_dvalue', 'ddvalue', 'S', 'tau_exp', 'N_sigma', 'e_dvalue', 'e_ddvalue', 'e_tauint', 'e_dtauint',
                  'e_windowsize', 'e_rho', 'e_drho', 'e_n_tauint', 'e_n_dtauint']
DATA_SLOTS = ['names', 'shape', 'r_values', 'deltas', 'N', '_value', 'idl', 'reweighted', 'tag']


def _norm(x):
    if isinstance(x, dict):
        return tuple((k, _norm(v)) for k, v in sorted(x.items()))
    if isinstance(x, np.ndarray):
        return ('nd', x.dtype.str, x.shape, x.tobytes())
    if isinstance(x, (list, tuple)):
        return tuple(_norm(v) for v in x)
    if isinstance(x, range):
        return ('range', x.start, x.stop, x.step)
    if isinstance(x, (float, np.floating)):
        return ('f', float(x).hex())
    if isinstance(x, (int, np.integer)):
        return ('i', int(x))
    if hasattr(x, 'cov') and hasattr(x, 'grad'):
        return ('covobs', _norm(np.asarray(x.cov)), _norm(np.asarray(x.grad)), x.name, _norm(x.value))
    return ('o', repr(x))


def slots(o, names):
    out = {}
    for s in names:
        try:
            out[s] = _norm(getattr(o, s))
        except AttributeError:
            out[s] = '<unset>'
    return out


def data_fingerprint(o):
    d = slots(o, DATA_SLOTS)
    d['covobs'] = _norm(o.covobs)
    return d


def canon(objs, cls):
    h = hashlib.md5()
    for o in objs:
        h.update(repr(sorted(slots(o, ANALYSIS_SLOTS).items())).encode())
        h.update(repr(sorted(o.__dict__.items())).encode())
    h.update(repr(_norm(cls)).encode())
    return h.hexdigest()


def effective(cls, kw, ens):
    """Reference precedence: explicit keyword > per-ensemble dictionary > global default."""
    out = {}
    for p in ('S', 'tau_exp', 'N_sigma'):
        out[p] = {}
        for e in ens:
            if p in kw:
                out[p][e] = kw[p]
            elif e in cls[p + '_dict']:
                out[p][e] = cls[p + '_dict'][e]
            else:
                out[p][e] = cls[p + '_global']
    return out


_REFCACHE = {}


def ref_analysis(o, who, eff):
    key = (alpha.seed(), who, repr(sorted((p, sorted(v.items())) for p, v in eff.items())))
    if key not in _REFCACHE:
        r = compare.to_ref(o)
        per = ref.r_gamma(r, eff['S'], eff['tau_exp'], eff['N_sigma'])
        dv, ddv, cov_err = ref.r_total_error(r, per)
        _REFCACHE[key] = (per, dv, ddv, cov_err)
    return _REFCACHE[key]


def check_against_reference(o, who, eff):
    per, dv, ddv, cov_err = ref_analysis(o, who, eff)
    for e, x in per.items():
        if not x.get('const') and any(abs(m) < 1e-9 for m in x.get('margins', [])):
            return 'skip'
        if o.e_windowsize[e] != x['W']:
            return 'window[%s]: expected %d got %d' % (e, x['W'], o.e_windowsize[e])
        for name, got, want in (('e_dvalue', o.e_dvalue[e], x['dvalue']), ('e_ddvalue', o.e_ddvalue[e], x['ddvalue']),
                                ('e_tauint', o.e_tauint[e], x['tauint']), ('e_dtauint', o.e_dtauint[e], x['dtauint'])):
            if not abs(got - want) <= 1e-9 * max(abs(want), 1e-300 if want else 1e-12):
                return '%s[%s]: expected %.15g got %.15g' % (name, e, want, got)
        for p in ('S', 'tau_exp', 'N_sigma'):
            if getattr(o, p)[e] != eff[p][e]:
                return 'recorded %s[%s]=%r but the effective value is %r' % (p, e, getattr(o, p)[e], eff[p][e])
    if not abs(o.dvalue - dv) <= 1e-9 * max(dv, 1e-300) or not abs(o.ddvalue - ddv) <= 1e-9 * max(ddv, 1e-12):
        return 'total error: expected %.15g +- %.15g got %.15g +- %.15g' % (dv, ddv, o.dvalue, o.ddvalue)
    return None


def same_bits(a, b, names):
    sa, sb = slots(a, names), slots(b, names)
    for k in names:
        if sa[k] != sb[k]:
            return k
    return None


def apply_event(pe, objs, ev, acc, path, pristine):
    """Executes one event on (deep copies of) the real objects.  Returns the successor objects or None
    for observation events.  All invariants of the transition are evaluated here."""
    kind = ev[0]
    sub = {'path': [list(p) for p in path], 'event': list(ev)}
    cls_before = get_cls(pe)
    fps = [data_fingerprint(p) for p in pristine]

    def check_data(objs_now, label):
        for i, o in enumerate(objs_now):
            fp = data_fingerprint(o)
            if fp != fps[i]:
                bad = [k for k in fp if fp[k] != fps[i][k]]
                acc.fail('history:data-mutated:%s' % kind, sub, 'after %s the data slots %s of observable %d differ from the pristine object' % (label, bad, i))
                return False
        return True

    if kind == 'gm':
        who, vi = ev[1], ev[2]
        kw = GM_VARIANTS[vi]
        new = [copy.deepcopy(o) for o in objs]
        try:
            new[who].gamma_method(**kw)
        except Exception as e:
            acc.fail('history:gm-raised', sub, 'gamma_method(%s) raised %s: %s' % (kw, type(e).__name__, e))
            return None
        if not check_data(new, 'gamma_method'):
            return new
        if get_cls(pe) != cls_before:
            acc.fail('history:class-dict-modified:gm', sub, 'gamma_method(%s) changed the class-level settings: %s -> %s' % (kw, cls_before, get_cls(pe)))
            set_cls(pe, cls_before)
            return new
        # (b) reference under the effective parameters
        ens = [e for e in new[who].e_names if e not in new[who].cov_names]
        eff = effective(cls_before, kw, ens)
        bad = check_against_reference(new[who], who, eff)
        if bad == 'skip':
            acc.skip('margin')
        elif bad:
            acc.fail('history:reference:%s' % ('kw' if kw else 'default'), sub, 'gamma_method(%s) with class settings %s on observable %d: %s' % (kw, cls_before, who, bad))
            return new
        # (c) differential: a never-analysed copy analysed once in the same configuration
        fresh = copy.deepcopy(pristine[who])
        fresh.gamma_method(**kw)
        k = same_bits(fresh, new[who], ANALYSIS_SLOTS)
        if k:
            acc.fail('history:depends-on-history', sub, 'slot %s after this history differs from a fresh object analysed once with %s under %s' % (k, kw, cls_before))
            return new
        # (d) repeatable
        again = copy.deepcopy(new[who])
        again.gamma_method(**kw)
        k = same_bits(again, new[who], ANALYSIS_SLOTS)
        if k:
            acc.fail('history:not-repeatable', sub, 'repeating gamma_method(%s) changed slot %s' % (kw, k))
            return new
        # the other object is untouched
        k = same_bits(new[1 - who], objs[1 - who], ANALYSIS_SLOTS)
        if k:
            acc.fail('history:other-object-changed', sub, 'analysing observable %d changed slot %s of the other' % (who, k))
            return new
        # bounds
        o = new[who]
        for e in ens:
            if not (o.e_tauint[e] >= 0.5 and np.isfinite(o.e_dvalue[e]) and o.e_dvalue[e] >= 0 and np.isfinite(o.e_ddvalue[e]) and o.e_ddvalue[e] >= 0 and o.e_dtauint[e] >= 0):
                acc.fail('history:bounds', sub, 'ensemble %s: tau_int=%r dvalue=%r ddvalue=%r' % (e, o.e_tauint[e], o.e_dvalue[e], o.e_ddvalue[e]))
                return new
        acc.ok(('gm', tuple(map(tuple, path)), ev), True, 'gm')
        return new
    if kind == 'set':
        name, val = SET_EVENTS[ev[1]]
        setattr(pe.Obs, name, val)
        acc.ok(('set', tuple(map(tuple, path)), ev), True, 'set')
        return [copy.deepcopy(o) for o in objs]
    if kind == 'dict':
        name, key, val = DICT_EVENTS[ev[1]]
        if val is None:
            getattr(pe.Obs, name).pop(key, None)
        else:
            getattr(pe.Obs, name)[key] = val
        acc.ok(('dict', tuple(map(tuple, path)), ev), True, 'set')
        return [copy.deepcopy(o) for o in objs]
    # observation events: must not change anything
    work = [copy.deepcopy(o) for o in objs]
    try:
        if ev[1] == 'derive':
            d1 = work[0] * work[1] + np.sin(work[0])
            p1 = pristine[0] * pristine[1] + np.sin(pristine[0])
            k = None
            if data_fingerprint(d1) != data_fingerprint(p1):
                k = [s for s, v in data_fingerprint(d1).items() if v != data_fingerprint(p1)[s]]
            if k:
                acc.fail('history:derived-differs', sub, 'o1*o2+sin(o1) built from objects with this history differs from the one built from pristine objects in %s' % k)
                return None
            if hasattr(d1, 'e_dvalue') or d1.dvalue != 0.0:
                acc.fail('history:derived-carries-analysis', sub, 'a derived observable carries analysis results of its parents')
                return None
        elif ev[1] == 'covariance':
            if all(hasattr(o, 'e_dvalue') for o in work):
                c1 = pe.covariance(work)
                c2 = pe.covariance([copy.deepcopy(o) for o in objs])
                if c1.tobytes() != c2.tobytes():
                    acc.fail('history:covariance-differs', sub, 'covariance is not repeatable')
                    return None
        elif ev[1] == 'print':
            s = [str(o) for o in work] + [repr(o) for o in work]
            with open(os.devnull, 'w') as dn:
                import contextlib
                with contextlib.redirect_stdout(dn):
                    for o in work:
                        o.details()
    except Exception as e:
        acc.fail('history:observe-raised:' + ev[1], sub, '%s raised %s: %s' % (ev[1], type(e).__name__, e))
        return None
    for i in (0, 1):
        k = same_bits(work[i], objs[i], ANALYSIS_SLOTS)
        if k:
            acc.fail('history:observation-mutates:' + ev[1], sub, '%s changed analysis slot %s of observable %d' % (ev[1], k, i))
            return None
    if not check_data(work, ev[1]):
        return None
    if get_cls(pe) != cls_before:
        acc.fail('history:class-dict-modified:' + ev[1], sub, '%s changed the class-level settings' % ev[1])
        set_cls(pe, cls_before)
        return None
    acc.ok(('obs', tuple(map(tuple, path)), ev), True, 'observe')
    return None


def expand(case):
    pe = engine.import_pyerrors()
    acc = Acc()
    objs, cls = pickle.loads(case['blob'])
    pristine = world(pe)
    succ = []
    try:
        for ev in all_events():
            set_cls(pe, cls)
            new = apply_event(pe, objs, ev, acc, case['path'], pristine)
            if new is None:
                succ.append((list(ev), None, None))
                continue
            ncls = get_cls(pe)
            succ.append((list(ev), canon(new, ncls), pickle.dumps((new, ncls))))
    finally:
        set_cls(pe, DEFAULT_CLS)
    if not case['path']:
        acc.sample({'history': [], 'events_enabled': [list(e) for e in all_events()][:6] + ['...']})
    elif len(case['path']) >= 2 and case['path'][0][0] == 'gm' and case['path'][1][0] != 'gm':
        acc.sample({'history': case['path']})
    return {'succ': succ, 'pack': acc.pack()}


def replay_case(case):
    """Rebuild the state by replaying the event path from the initial state, then apply the event."""
    pe = engine.import_pyerrors()
    acc = Acc()
    if 'path' not in case:
        return run_case(case)
    pristine = world(pe)
    objs = [copy.deepcopy(p) for p in pristine]
    set_cls(pe, DEFAULT_CLS)
    try:
        scratch = Acc()
        for ev in case['path']:
            new = apply_event(pe, objs, tuple(ev), scratch, [], pristine)
            if new is not None:
                objs = new
        apply_event(pe, objs, tuple(case['event']), acc, case['path'], pristine)
    finally:
        set_cls(pe, DEFAULT_CLS)
    return acc


# ------------------------------------------------------------------ metamorphic product
META_PARAMS = [{'S': 2.0}, {'S': 0}, {'S': 3.5}, {'tau_exp': 3, 'N_sigma': 1}, {'tau_exp': 10, 'N_sigma': 2}]
AFFINE = [(1, 7), (1, 1000), (2, 0), (2, 7), (5, 0), (5, 1000)]


def analysis_summary(o):
    out = {}
    for e in o.e_dvalue:
        out[e] = {k: getattr(o, k).get(e) for k in ('e_dvalue', 'e_ddvalue', 'e_tauint', 'e_dtauint', 'e_windowsize')}
        out[e]['rho'] = np.array(o.e_rho.get(e, []))
        out[e]['drho'] = np.array(o.e_drho.get(e, []))
    out['__tot'] = (o.dvalue, o.ddvalue)
    return out


def compare_summaries(a, b, rtol, scale=1.0, rename=None):
    """b should equal a with errors multiplied by 'scale' (tau_int, rho, windows unchanged)."""
    rename = rename or (lambda e: e)
    for e, x in a.items():
        if e == '__tot':
            continue
        y = b.get(rename(e))
        if y is None:
            return 'ensemble %s missing' % rename(e)
        if x['e_windowsize'] != y['e_windowsize']:
            return 'window[%s] %s vs %s' % (e, x['e_windowsize'], y['e_windowsize'])
        for k, sc in (('e_dvalue', scale), ('e_ddvalue', scale), ('e_tauint', 1.0), ('e_dtauint', 1.0)):
            if x[k] is None or y[k] is None:
                if x[k] is not y[k]:
                    return '%s[%s] %r vs %r' % (k, e, x[k], y[k])
                continue
            if not abs(x[k] * sc - y[k]) <= rtol * max(abs(x[k] * sc), 1e-300 if x[k] else 1e-12):
                return '%s[%s] %.15g vs %.15g' % (k, e, x[k] * sc, y[k])
        if x['rho'].shape != y['rho'].shape:
            return 'length of rho[%s]: %d vs %d' % (e, len(x['rho']), len(y['rho']))
        if x['rho'].size and np.max(np.abs(x['rho'] - y['rho'])) > max(rtol, 1e-9):
            return 'rho[%s] differs by %g' % (e, np.max(np.abs(x['rho'] - y['rho'])))
        if x['drho'].size and np.max(np.abs(x['drho'] - y['drho'])) > max(rtol, 1e-9):
            return 'drho[%s] differs by %g' % (e, np.max(np.abs(x['drho'] - y['drho'])))
    for i in (0, 1):
        if not abs(a['__tot'][i] * scale - b['__tot'][i]) <= rtol * max(abs(a['__tot'][i] * scale), 1e-12):
            return 'total %s: %.15g vs %.15g' % ('dvalue' if i == 0 else 'ddvalue', a['__tot'][i] * scale, b['__tot'][i])
    return None


def twin_of(cfgs):
    """Same first / last entry, length and smallest spacing, one interior configuration moved into a neighbouring hole (None if there is no hole)."""
    cfgs = list(cfgs)
    gap = min(b - a for a, b in zip(cfgs, cfgs[1:]))
    have = set(cfgs)
    for i in range(1, len(cfgs) - 1):
        for cand in (cfgs[i] + gap, cfgs[i] - gap):
            if cand not in have and cfgs[0] < cand < cfgs[-1]:
                new = sorted(have - {cfgs[i]} | {cand})
                if min(b - a for a, b in zip(new, new[1:])) == gap:
                    return new
    return None


def meta_layouts(tier):
    from checks import c02
    return c02.all_layouts(tier)


def run_case(case):
    """Metamorphic product for one (layout, data) pair."""
    pe = engine.import_pyerrors()
    acc = Acc()
    tier = os.environ.get('VERIF_TIER', 'quick')
    lay = meta_layouts(tier)[case['lay']]
    d = case['data']
    names = sorted(lay)
    samples = {n: alpha.data(d, lay[n], alpha.rng('c03m', case['lay'], d, n)) for n in names}

    def build(idl_map=lambda c: c, name_map=lambda n: n, order=None, fdat=lambda x: x):
        ns = list(names) if order is None else [names[i] for i in order]
        return pe.Obs([fdat(samples[n]) for n in ns], [name_map(n) for n in ns],
                      idl=[alpha.idl_carrier([idl_map(c) for c in lay[n]]) for n in ns])

    for pi, pars in enumerate(META_PARAMS):
        if 'pi' in case and case['pi'] != pi:
            continue
        sub = dict(case, pi=pi)
        base = build()
        try:
            base.gamma_method(**pars)
        except ValueError:
            acc.ok(('refused', case['lay'], d, pi), False, 'refused')   # refusals themselves are C02's business
            # ... but they must be invariant as well
            for a, b in AFFINE:
                v = build(idl_map=lambda c: a * c + b)
                try:
                    v.gamma_method(**pars)
                    acc.fail('meta:refusal-not-invariant:affine', dict(sub, a=a, b=b), 'base analysis refused, relabelled (a=%d,b=%d) one accepted' % (a, b))
                except ValueError:
                    pass
            continue
        sb = analysis_summary(base)
        # a refused request (negative / non-numeric parameter) leaves the completed analysis where it was
        for badkw in ({'S': -1}, {'S': 'two'}, {'tau_exp': -2.0}, {'N_sigma': -1}, {'S': 1.5, 'tau_exp': -0.5}):
            try:
                base.gamma_method(**badkw)
                acc.fail('meta:refused-request-accepted', dict(sub, request=repr(badkw)), 'gamma_method(%s) was accepted' % (badkw,))
                break
            except (ValueError, TypeError):
                after = analysis_summary(base)
                bad = None if sorted(after) == sorted(sb) else 'analysed ensembles %s -> %s' % (sorted(sb), sorted(after))
                bad = bad or compare_summaries(sb, after, 0.0)
                if bad or after['__tot'] != sb['__tot']:
                    acc.fail('meta:refused-request-wipes-analysis', dict(sub, request=repr(badkw)), 'after the refused request gamma_method(%s): %s' % (badkw, bad or 'total error %r -> %r' % (sb['__tot'], after['__tot'])))
                    base.gamma_method(**pars)
                    break
        ens = [e for e in sb if e != '__tot']
        okb = True
        for e in ens:
            if not (sb[e]['e_tauint'] >= 0.5 and np.isfinite(sb[e]['e_dvalue']) and sb[e]['e_dvalue'] >= 0 and np.isfinite(sb[e]['e_ddvalue']) and sb[e]['e_ddvalue'] >= 0):
                acc.fail('meta:bounds', sub, 'tau_int=%r dvalue=%r ddvalue=%r' % (sb[e]['e_tauint'], sb[e]['e_dvalue'], sb[e]['e_ddvalue']))
                okb = False
        if not okb:
            continue
        variants = [('fft', dict(pars, fft=False), {}, 1e-8, 1.0, None)]
        for a, b in AFFINE:
            variants.append(('affine:a=%d' % a if a > 1 else 'affine:shift', pars, {'idl_map': (lambda c, a=a, b=b: a * c + b)}, 1e-10, 1.0, None))
        ren = {n: n.split('|')[0] + '|' + 'zyxwvu'[i] + str(9 - i) for i, n in enumerate(names)} if all('|' in n for n in names) else None
        if ren:
            variants.append(('rename', pars, {'name_map': lambda n: ren[n]}, 1e-10, 1.0, None))
        if len(names) > 1:
            variants.append(('order', pars, {'order': list(range(len(names)))[::-1]}, 1e-10, 1.0, None))
        if d != 'const':
            variants.append(('add-constant', pars, {'fdat': lambda x: x + 3.0}, 1e-8, 1.0, None))
            variants.append(('scale:-3', pars, {'fdat': lambda x: x * -3.0}, 1e-10, 3.0, None))
            variants.append(('scale:0.5', pars, {'fdat': lambda x: x * 0.5}, 1e-10, 0.5, None))
            variants.append(('scale:1e-17', pars, {'fdat': lambda x: x * 1e-17}, 1e-10, 1e-17, None))
            variants.append(('scale:-1e20', pars, {'fdat': lambda x: x * -1e20}, 1e-10, 1e20, None))
        # call history across objects: a 'twin' with the same chains, the same first / last configuration, number of configurations
        # and spacing but one interior configuration moved into a hole is analysed after the base object; it must agree with
        # its own relabelled copy (a=2), and the base object analysed again afterwards must agree with its first analysis
        twin_cfg = {n: twin_of(lay[n]) for n in names}
        if any(twin_cfg[n] is not None for n in names) and ('variant' not in case or case['variant'].startswith('twin')):
            tl = {n: (twin_cfg[n] if twin_cfg[n] is not None else list(lay[n])) for n in names}

            def build_twin(idl_map=lambda c: c):
                return pe.Obs([samples[n] for n in names], list(names), idl=[alpha.idl_carrier([idl_map(c) for c in tl[n]]) for n in names])
            try:
                t1 = build_twin()
                t1.gamma_method(**pars)
                t2 = build_twin(lambda c: 2 * c + 1)
                t2.gamma_method(**pars)
                bad = compare_summaries(analysis_summary(t1), analysis_summary(t2), 1e-10, 1.0)
                again = build()
                again.gamma_method(**pars)
                bad2 = compare_summaries(sb, analysis_summary(again), 1e-12, 1.0)
            except ValueError:
                bad = bad2 = None
            if bad:
                acc.fail('meta:twin-after-base', dict(sub, variant='twin-after-base'), 'layout %s data=%s pars=%s: an object with one configuration moved (%s), analysed after the base object, differs from its relabelled copy: %s' % (
                    {k: (list(v2[:4]) + ['..', v2[-1]]) for k, v2 in lay.items()}, d, pars, {k: v2 for k, v2 in twin_cfg.items() if v2}, bad))
            elif bad2:
                acc.fail('meta:base-after-twin', dict(sub, variant='twin-base-again'), 'layout data=%s pars=%s: the base object analysed again after a similar object gives other numbers: %s' % (d, pars, bad2))
            else:
                acc.ok(('meta', case['lay'], d, pi, 'twin'), True, 'meta-twin-history')
        for vname, vpars, bkw, rtol, scale, _ in variants:
            if 'variant' in case and case['variant'] != vname:
                continue
            v = build(**bkw)
            try:
                v.gamma_method(**vpars)
            except Exception as e:
                acc.fail('meta:%s:raised' % vname.split(':')[0], dict(sub, variant=vname), '%s: %s raised %r' % (pars, vname, e))
                continue
            bad = compare_summaries(sb, analysis_summary(v), rtol, scale)
            if bad and 'window' in bad and vname == 'fft':
                acc.skip('fft-window-rounding')
                continue
            if bad:
                acc.fail('meta:%s' % vname, dict(sub, variant=vname), 'layout %s data=%s pars=%s variant %s: %s' % (
                    {k: (list(v2[:4]) + ['..', v2[-1]]) for k, v2 in lay.items()}, d, pars, vname, bad))
            else:
                acc.ok(('meta', case['lay'], d, pi, vname), True, 'meta-' + vname.split(':')[0])
    acc.sample({'kind': 'metamorphic', 'layout': {k: list(v[:4]) + ['...', v[-1]] for k, v in lay.items()}, 'data': d,
                'variants': ['fft', 'affine a in {1,2,5} b in {0,7,1000}', 'rename', 'order', 'add-constant', 'scale']})
    return acc


def main(tier, seed, jobs):
    t0 = time.time()
    pe = engine.import_pyerrors()
    depth = 4 if tier == 'quick' else 6
    if os.environ.get('C03_DEPTH'):
        depth = int(os.environ['C03_DEPTH'])
    set_cls(pe, DEFAULT_CLS)
    objs = [copy.deepcopy(o) for o in world(pe)]
    cls = get_cls(pe)
    init = [(canon(objs, cls), pickle.dumps((objs, cls)))]
    stats, tot_h = engine.bfs_levels('checks.c03', init, depth, jobs, seed)
    # metamorphic part
    from checks import c02
    cases = [{'lay': i, 'data': d} for i in range(len(c02.all_layouts(tier))) for d in c02.DATA]
    packs = engine.pmap('checks.c03', 'run_case', cases, jobs, seed, chunksize=2)
    tot_m = engine.merge_packs(packs)
    tot = engine.merge_packs([{'n': t['n'], 'nontrivial': t['nontrivial'], 'outcomes': t['outcomes'], 'fails': t['fails'],
                               'samples': t['samples'], 'extra': t['extra']} for t in (tot_h, tot_m)])
    tot['samples'] = tot_h['samples'][:3] + tot_m['samples'][:2]
    extra = {'states': stats['states'], 'transitions': stats['transitions'],
             'traces_validated_against_impl': stats['transitions'],
             'depth_completed': stats['depth_completed'], 'new_states_per_level': stats['new_states_per_level'],
             'state_cap_hit': stats['capped'], 'events_per_state': len(all_events()),
             'metamorphic_evaluations': tot_m['n'],
             'explanation': 'every transition is a call of the real method on deep copies of the real objects; the reference '
                            '(precedence function + r_gamma) is stepped in lock-step, so all transitions are validated against the implementation'}
    rule = ('BFS to depth %d over %d events per state (12 gamma_method variants on two observables, 6 global-default settings, '
            '6 per-ensemble dictionary settings, 3 observation events) from the pristine state, de-duplicated on the concrete '
            'analysis state + class settings; plus the metamorphic product (layout x data x 5 parameter sets x variants).  '
            'Non-trivial = every transition / metamorphic comparison except refused analyses' % (depth, len(all_events())))
    return engine.report('C03', tier, seed, LEVEL, tot, time.time() - t0, rule, ASSUMPTIONS, extra_cov=extra,
                         exhaustive=not stats['capped'])
