"""C16 GEVP and matrix pencil satisfy the eigen-equation and recover exact spectra.

E-PROD over exact N-state spectra x T x t0 x state x method x sort x ts x vector_obs x
(non-symmetric input, undefined timeslices, level crossing) ; prune to every Ntrunc; matrix pencil
with k exponentials and every admissible p."""
import os
import math
import warnings
import itertools
import numpy as np
from mc import engine, alpha
from mc.engine import Acc

LEVEL = 'exploration'
RULE = ('full product: N in {2,3} (quick) / {2,3,4,5} states with non-degenerate energies and generic fixed overlaps; T in '
        '{8,10,12} (quick) / {8,12,16,24}; t0 = 1..T/3; every state; method {eigh, cholesky}; sort {Eigenvalue, Eigenvector '
        '(every admissible ts), None (every ts)}; vector_obs on/off (on: deviation-bounded to N<=3, T<=10); variants {exact '
        'symmetric, non-symmetric input (on all timeslices / only from t=2 on / with the first or later timeslices undefined / of overall magnitude 1e-12), one / two undefined timeslices, level crossing (non-exponential state weights; for N>=3 also a cyclic re-ordering of three states)}; '
        'Corr.Eigenvalue projected correlator against exp(-E_n (t-t0)); prune to every Ntrunc < N (exact energies; projection formula v_i^T G v_j on non-symmetric targets and with undefined timeslices); matrix pencil for k=1..3 '
        'exponentials x every admissible p x single / two data sets.  Non-trivial = every case (each checks the eigen-equation '
        'on every t > t0)')
ASSUMPTIONS = ['energies and overlaps come from a fixed well-conditioned grid (no near-degenerate spectra)',
               'eigen-equation residuals are compared relative to |G(t)| |v| (1e-8); exact-spectrum values relative (1e-6) for states '
               'whose eigenvalue is above 1e-8 of the largest one']
EXHAUSTIVE = True
REPEAT = 1 if os.environ.get('VERIF_TIER') == 'thorough' else 2      # quick tier: every case twice in the same process (call-history oracle); the long thorough tier runs each case once
CHUNK = 1

ENERGIES = [0.20, 0.35, 0.52, 0.71, 0.93]
LAY = {'A|r1': 'c8'}


def overlaps(N):
    r = np.random.default_rng(12345 + N)      # fixed, independent of VERIF_SEED: a generic well-conditioned matrix
    Z = np.eye(N) + 0.35 * r.normal(size=(N, N))
    return Z


def spectral_matrix(N, t, amp=None, weights=None):
    """G_ij(t) = sum_n Z_in Z_jn a_n w_n(t)."""
    Z = overlaps(N)
    a = np.ones(N) if amp is None else amp
    w = [math.exp(-ENERGIES[n] * t) for n in range(N)] if weights is None else [weights(n, t) for n in range(N)]
    return sum(np.outer(Z[:, n], Z[:, n]) * a[n] * w[n] for n in range(N))


def crossing_weights(n, t):
    # positive, non-exponential weights whose generalized eigenvalues cross in time
    if n == 0:
        return math.exp(-0.30 * t)
    if n == 1:
        return math.exp(-0.80 * t) * (1.0 + 0.5 * t * t)
    return math.exp(-ENERGIES[n] * t - 0.2 * n)


def crossing3_weights(n, t):
    # three states whose eigenvalue order at late times is a CYCLIC permutation of the order at early times
    if n == 0:
        return math.exp(-0.30 * t)
    if n == 1:
        return math.exp(-0.80 * t) * (1.0 + 0.5 * t * t)
    if n == 2:
        return math.exp(-0.25 * t) / (1.0 + 0.25 * t)
    return math.exp(-ENERGIES[n] * t - 0.5 * n)


def make_corr(pe, N, T, key, weights=None, antisym=0.0, undefined=(), antisym_from=0, scale=1.0):
    """Matrix correlator whose every sample is an exact spectral matrix (only the state amplitudes fluctuate)."""
    ncfg = 8
    r = alpha.rng('c16', key, N, T)
    eps = 0.01 * r.normal(size=(ncfg, N))
    content = []
    for t in range(T):
        if t in undefined:
            content.append(None)
            continue
        samples = scale * np.array([spectral_matrix(N, t, amp=(1 + eps[c]) ** 2, weights=weights) for c in range(ncfg)])
        m = np.empty((N, N), dtype=object)
        anti = {}
        for i in range(N):
            for j in range(i + 1, N):
                anti[(i, j)] = scale * antisym * (1 + 0.1 * t) * (1 + 0.01 * r.normal(size=ncfg))
        for i in range(N):
            for j in range(N):
                x = samples[:, i, j].copy()
                if antisym and i != j and t >= antisym_from:   # exactly antisymmetric addition: removed by the symmetrisation
                    x = x + (anti[(i, j)] if i < j else -anti[(j, i)])
                m[i, j] = pe.Obs([x], ['A|r1'])
        content.append(m)
    return pe.Corr(content)


def mean_matrix(C, t):
    return np.vectorize(lambda o: o.value)(C.content[t])


def sym(M):
    return 0.5 * (M + M.T)


def vec_values(v):
    return np.array([x.value if hasattr(x, 'value') else float(x) for x in v], dtype=float)


def parallel(a, b, tol=1e-7):
    a, b = np.asarray(a, float), np.asarray(b, float)
    c = abs(a @ b) / math.sqrt((a @ a) * (b @ b))
    return c > 1 - tol


def build(tier, seed):
    cases = []
    Ns = (2, 3) if tier == 'quick' else (2, 3, 4, 5)
    Ts = (8, 10, 12) if tier == 'quick' else (8, 12, 16, 24)
    for N in Ns:
        for T in Ts:
            for variant in ('exact', 'nonsym', 'nonsym-late', 'nonsym-undef0', 'nonsym-undef-mid', 'nonsym-tiny', 'undef1', 'undef2', 'crossing', 'crossing-large', 'crossing-small') + (('crossing3',) if N >= 3 else ()):
                cases.append({'kind': 'gevp', 'N': N, 'T': T, 'variant': variant})
        for T in Ts[:2]:
            cases.append({'kind': 'prune', 'N': N, 'T': T})
    for N in (2, 3):
        for T in (8, 10):
            cases.append({'kind': 'gevp-obs', 'N': N, 'T': T})
    for k in (1, 2, 3):
        for n in ((8, 12) if tier == 'quick' else (8, 12, 16, 20)):
            cases.append({'kind': 'mpm', 'k': k, 'n': n})
    return cases


def run_case(case):
    pe = engine.import_pyerrors()
    acc = Acc()
    with warnings.catch_warnings():
        warnings.simplefilter('ignore')
        if case['kind'] == 'gevp':
            run_gevp(pe, acc, case)
        elif case['kind'] == 'gevp-obs':
            run_gevp_obs(pe, acc, case)
        elif case['kind'] == 'prune':
            run_prune(pe, acc, case)
        elif case['kind'] == 'mpm':
            run_mpm(pe, acc, case)
    return acc


def check_vectors(pe, acc, sub, C, G, t0, t, vecs, label, crossing=False):
    """vecs: list over states of vectors at time t.  Eigen-equation, ordering."""
    N = len(vecs)
    G0, Gt = sym(G[t0]), sym(G[t])
    lams = []
    for n, v in enumerate(vecs):
        v = vec_values(v)
        lam = (v @ Gt @ v) / (v @ G0 @ v)
        res = np.linalg.norm(Gt @ v - lam * (G0 @ v))
        if not res <= 1e-8 * np.linalg.norm(Gt) * np.linalg.norm(v) + 1e-300:
            acc.fail('gevp:eigen-equation:%s' % label, sub, 't0=%d t=%d state %d (%s): |G(t)v - lambda G(t0)v| = %g' % (t0, t, n, label, res))
            return None
        lams.append(lam)
    return lams


def run_gevp(pe, acc, case):
    N, T, variant = case['N'], case['T'], case['variant']
    undefined = {'undef1': (T // 2,), 'undef2': (2, T - 2), 'nonsym-undef0': (0,), 'nonsym-undef-mid': (T // 2, T - 1)}.get(variant, ())
    weights = crossing_weights if variant.startswith('crossing') and variant != 'crossing3' else crossing3_weights if variant == 'crossing3' else None
    C = make_corr(pe, N, T, variant, weights=weights, antisym=(0.003 if variant.startswith('nonsym') else 0.0), undefined=undefined,
                  antisym_from=(2 if variant == 'nonsym-late' else 0), scale={'crossing-large': 1.0e6, 'crossing-small': 1.0e-6, 'nonsym-tiny': 1.0e-12}.get(variant, 1.0))     # 'late': symmetric on the first timeslices, non-symmetric afterwards
    G = {t: mean_matrix(C, t) for t in range(T) if t not in undefined}
    for t0 in range(1, T // 3 + 1):
        if t0 in undefined:
            continue
        for method in ('eigh', 'cholesky'):
            sub0 = dict(case, t0=t0, method=method)
            # sort="Eigenvalue"
            try:
                vs = C.GEVP(t0, sort='Eigenvalue', method=method)
            except Exception as e:
                acc.fail('gevp:raised:Eigenvalue', sub0, 'GEVP(t0=%d, %s) raised %s: %s' % (t0, method, type(e).__name__, e))
                continue
            if len(vs) != N or any(len(v) != T for v in vs):
                acc.fail('gevp:shape', sub0, 'GEVP returns %d states x %s timeslices' % (len(vs), [len(v) for v in vs]))
                continue
            ok = True
            for t in range(T):
                should = t > t0 and t not in undefined
                have = [vs[n][t] is not None for n in range(N)]
                if any(h != should for h in have):
                    acc.fail('gevp:defined-set', dict(sub0, t=t), 't0=%d: vectors at t=%d defined=%s, expected %s' % (t0, t, have, should))
                    ok = False
                    break
                if not should:
                    continue
                lams = check_vectors(pe, acc, dict(sub0, t=t), C, G, t0, t, [vs[n][t] for n in range(N)], 'sort=Eigenvalue:' + method)
                if lams is None:
                    ok = False
                    break
                if any(lams[i] < lams[i + 1] * (1 - 1e-9) for i in range(N - 1)):
                    acc.fail('gevp:ordering', dict(sub0, t=t), 't0=%d t=%d: eigenvalues of states 0..N-1 are not decreasing: %s' % (t0, t, lams))
                    ok = False
                    break
                if not variant.startswith('crossing'):
                    for n in range(N):
                        ex = math.exp(-ENERGIES[n] * (t - t0))
                        if ex > 1e-8 * math.exp(-ENERGIES[0] * (t - t0)) and not abs(lams[n] - ex) <= 1e-6 * ex:
                            acc.fail('gevp:exact-spectrum', dict(sub0, t=t, state=n), 't0=%d t=%d state %d: eigenvalue %r, exact %r' % (t0, t, n, lams[n], ex))
                            ok = False
                            break
                    if not ok:
                        break
            if not ok:
                continue
            if variant == 'crossing' and t0 == 1:
                # the harness must really contain a level crossing: with eigenvalue sorting state 0 changes its vector in time
                first = vec_values(vs[0][t0 + 1])
                if all(parallel(vec_values(vs[0][t]), first, 1e-6) for t in range(t0 + 1, T)):
                    raise engine.MachineryError('crossing variant has no level crossing')
            acc.ok(('ev', N, T, variant, t0, method), True, 'gevp-eigenvalue-sort')
            # eigh vs cholesky agree up to sign / normalisation
            if method == 'cholesky':
                ve = C.GEVP(t0, sort='Eigenvalue', method='eigh')
                bad = None
                for t in range(t0 + 1, T):
                    if t in undefined:
                        continue
                    for n in range(N):
                        lam_gap = True
                        if not parallel(vec_values(vs[n][t]), vec_values(ve[n][t]), 1e-6):
                            bad = 't0=%d t=%d state %d' % (t0, t, n)
                if bad and not variant.startswith('crossing'):
                    acc.fail('gevp:eigh-vs-cholesky', sub0, 'eigh and cholesky vectors are not parallel at %s' % bad)
                else:
                    acc.ok(('ec', N, T, variant, t0), True, 'eigh-vs-cholesky')
            # state selection
            for n in range(N):
                one = C.GEVP(t0, sort='Eigenvalue', method=method, state=n)
                same = all((one[t] is None and vs[n][t] is None) or (one[t] is not None and np.array_equal(vec_values(one[t]), vec_values(vs[n][t]))) for t in range(T))
                if not same:
                    acc.fail('gevp:state-argument', dict(sub0, state=n), 'GEVP(..., state=%d) differs from GEVP(...)[%d]' % (n, n))
                else:
                    acc.ok(('st', N, T, variant, t0, method, n), True, 'state-argument')
            # sort=None at every ts, sort="Eigenvector" with every ts
            for ts in range(t0 + 1, T):
                if ts in undefined:
                    for srt in (None, 'Eigenvector'):
                        try:
                            C.GEVP(t0, ts, sort=srt, method=method)
                            if srt is None:
                                acc.fail('gevp:undefined-ts-accepted', dict(sub0, ts=ts), 'GEVP(sort=None) at an undefined ts=%d returned vectors' % ts)
                        except Exception:
                            acc.ok(('undts', N, T, variant, t0, method, ts, srt), True, 'undefined-ts-refused')
                    continue
                sub = dict(sub0, ts=ts)
                try:
                    v0 = C.GEVP(t0, ts, sort=None, method=method)
                    vv = C.GEVP(t0, ts, sort='Eigenvector', method=method)
                except Exception as e:
                    acc.fail('gevp:raised:ts', sub, 'GEVP(t0=%d, ts=%d, %s) raised %s: %s' % (t0, ts, method, type(e).__name__, e))
                    continue
                lams = check_vectors(pe, acc, sub, C, G, t0, ts, list(v0), 'sort=None:' + method)
                if lams is None:
                    continue
                if any(lams[i] < lams[i + 1] * (1 - 1e-9) for i in range(N - 1)):
                    acc.fail('gevp:ordering:sort=None', sub, 'sort=None at ts=%d: eigenvalues not decreasing: %s' % (ts, lams))
                    continue
                # Eigenvector sorting: each state follows the reference vectors at ts over all times
                bad = None
                for t in range(t0 + 1, T):
                    if t in undefined:
                        continue
                    if check_vectors(pe, acc, dict(sub, t=t), C, G, t0, t, [vv[n][t] for n in range(N)], 'sort=Eigenvector:' + method) is None:
                        bad = 'reported'
                        break
                    for n in range(N):
                        # the exact vectors are time independent (dual to the overlaps): state n must stay parallel to its reference
                        if not parallel(vec_values(vv[n][t]), vec_values(vv[n][ts]), 1e-6):
                            bad = 't=%d state %d is not parallel to its reference at ts=%d' % (t, n, ts)
                    if bad:
                        break
                if bad == 'reported':
                    continue
                if bad:
                    acc.fail('gevp:eigenvector-sort', sub, 't0=%d ts=%d (%s): %s' % (t0, ts, method, bad))
                    continue
                # reference ordering at ts is by eigenvalue
                if not all(parallel(vec_values(vv[n][ts]), vec_values(v0[n]), 1e-6) for n in range(N)):
                    acc.fail('gevp:eigenvector-sort:reference', sub, 'state order at ts=%d is not by decreasing eigenvalue' % ts)
                    continue
                acc.ok(('vs', N, T, variant, t0, method, ts), True, 'gevp-ts')
            # projected eigenvalue correlator
            if not variant.startswith('crossing'):
                for n in range(N):
                    for srt, ts in (('Eigenvalue', None), ('Eigenvector', t0 + 1), ('Eigenvector', T - 2)):
                        if ts in undefined:
                            continue
                        sub = dict(sub0, state=n, sort=srt, ts=ts)
                        try:
                            E = C.Eigenvalue(t0, ts=ts, state=n, sort=srt, method=method)
                        except Exception as e:
                            acc.fail('eigenvalue-corr:raised', sub, repr(e))
                            continue
                        bad = None
                        for t in range(t0 + 1, T):
                            if t in undefined:
                                if E.content[t] is not None:
                                    bad = 't=%d defined although G(t) is undefined' % t
                                continue
                            ex = math.exp(-ENERGIES[n] * (t - t0))
                            if ex < 1e-8 * math.exp(-ENERGIES[0] * (t - t0)):
                                continue
                            v = vec_values(C.GEVP(t0, ts=ts, sort=srt, method=method)[n][t])
                            norm = v @ sym(G[t0]) @ v
                            got = E.content[t][0].value / norm
                            if not abs(got - ex) <= 1e-6 * ex:
                                bad = 't=%d: projected %r (normalised), exact %r' % (t, got, ex)
                                break
                        if bad:
                            acc.fail('eigenvalue-corr:exact-spectrum', sub, 'state %d t0=%d sort=%s %s: %s' % (n, t0, srt, method, bad))
                        else:
                            acc.ok(('ecorr', N, T, variant, t0, method, n, srt, ts), True, 'eigenvalue-correlator')
    acc.sample({'kind': 'gevp', 'N': N, 'T': T, 'variant': variant, 't0': list(range(1, T // 3 + 1)), 'methods': ['eigh', 'cholesky'], 'sort': ['Eigenvalue', 'Eigenvector', None]})


def run_gevp_obs(pe, acc, case):
    """vector_obs=True: the eigenvectors carry fluctuations; the projected, normalised eigenvalue has none."""
    N, T = case['N'], case['T']
    for antisym in (0.0, 0.003):
        run_gevp_obs_variant(pe, acc, dict(case, antisym=antisym), antisym)


def run_gevp_obs_variant(pe, acc, case, antisym):
    N, T = case['N'], case['T']
    C = make_corr(pe, N, T, ('obs', antisym), antisym=antisym)      # different data per variant: two different matrices of the same size are solved one after the other
    Csym = C.matrix_symmetric() if antisym else C
    G = {t: sym(mean_matrix(C, t)) for t in range(T)}
    # call history inside this case: the same request (same t0, vector_obs=True) was made before on OTHER matrices - one of the same
    # size whose eigenvectors point elsewhere (overlaps rotated by a fixed matrix) and one of another size
    R = np.eye(N) + 0.3 * np.triu(np.ones((N, N)), 1)
    P = pe.Corr([R @ c @ R.T for c in make_corr(pe, N, T, ('pollute', antisym)).content])
    Q = make_corr(pe, N + 1 if N < 3 else N - 1, T, ('pollute-size', antisym))
    for t0 in (1, 2):
        for pol in (P, Q):
            try:
                pol.GEVP(t0, vector_obs=True)
            except Exception as e:
                acc.fail('gevp-obs:raised', dict(case, t0=t0, polluter=pol.N), 'GEVP(vector_obs=True) on an exact %dx%d matrix raised %r' % (pol.N, pol.N, e))
    for t0 in (1, 2):
        for srt, ts in (('Eigenvalue', None), ('Eigenvector', t0 + 2), (None, t0 + 2)):
            sub = dict(case, t0=t0, sort=srt, ts=ts)
            try:
                vo = C.GEVP(t0, ts=ts, sort=srt, vector_obs=True)
                vn = C.GEVP(t0, ts=ts, sort=srt, method='cholesky')
            except Exception as e:
                acc.fail('gevp-obs:raised', sub, repr(e))
                continue
            bad = None
            times = [ts] if srt is None else range(t0 + 1, T)
            for n in range(N):
                for t in times:
                    a = vo[n] if srt is None else vo[n][t]
                    b = vn[n] if srt is None else vn[n][t]
                    if not all(isinstance(x, pe.Obs) for x in a):
                        bad = 'vector entries are not observables'
                        break
                    if not parallel(vec_values(a), vec_values(b), 1e-7):
                        bad = 'state %d t=%d: central values differ from the plain solution' % (n, t)
                        break
                    # lambda = (v G(t) v)/(v G(t0) v) as an observable: exact exp(-E (t-t0)) with vanishing fluctuations
                    va = np.array(list(a), dtype=object)
                    lam = (va @ Csym.content[t] @ va) / (va @ Csym.content[t0] @ va)
                    ex = math.exp(-ENERGIES[n] * (t - t0))
                    if ex < 1e-6 * math.exp(-ENERGIES[0] * (t - t0)):
                        continue
                    if not abs(lam.value - ex) <= 1e-6 * ex:
                        bad = 'state %d t=%d: eigenvalue observable %r, exact %r' % (n, t, lam.value, ex)
                        break
                    d = np.max(np.abs(lam.deltas['A|r1']))
                    scale = np.max(np.abs(C.content[t][0, 0].deltas['A|r1'])) / abs(C.content[t][0, 0].value)
                    if not d <= 1e-5 * scale * ex:
                        bad = 'state %d t=%d: fluctuations of the eigenvalue %g do not vanish (relative input fluctuation %g)' % (n, t, d / ex, scale)
                        break
                if bad:
                    break
            if bad:
                acc.fail('gevp-obs:identity', sub, 'N=%d T=%d t0=%d sort=%s: %s' % (N, T, t0, srt, bad))
            else:
                acc.ok(('vobs', N, T, t0, srt, antisym), True, 'vector_obs')



def run_prune(pe, acc, case):
    N, T = case['N'], case['T']
    C = make_corr(pe, N, T, 'prune')
    for Ntrunc in range(1, N):
        for t0proj, tproj in ((1, 2), (2, 3), (1, 4)):
            sub = dict(case, Ntrunc=Ntrunc, t0proj=t0proj, tproj=tproj)
            try:
                P = C.prune(Ntrunc, tproj=tproj, t0proj=t0proj)
            except Exception as e:
                acc.fail('prune:raised', sub, repr(e))
                continue
            if P.N != Ntrunc or P.T != T:
                acc.fail('prune:shape', sub, 'pruned correlator has N=%d T=%d' % (P.N, P.T))
                continue
            # the result is a correlator like any other of its size: timeslices of shape (Ntrunc, Ntrunc), for Ntrunc = 1 the
            # single-valued form (1,) on which item access gives an observable and the effective mass can be taken
            shapes = {np.shape(c) for c in P.content if c is not None}
            if shapes != {(Ntrunc, Ntrunc) if Ntrunc > 1 else (1,)}:
                acc.fail('prune:shape', sub, 'pruned correlator (Ntrunc=%d) has timeslices of shape %s' % (Ntrunc, sorted(shapes)))
                continue
            if Ntrunc == 1:
                try:
                    me = P.m_eff('log')
                    mbad = None if isinstance(P[2], pe.Obs) and abs(me[2].value - ENERGIES[0]) <= 1e-6 else 'item %s, effective mass %r, exact %r' % (type(P[2]).__name__, me[2].value, ENERGIES[0])
                except Exception as e:
                    mbad = 'm_eff raised %s: %s' % (type(e).__name__, e)
                if mbad:
                    acc.fail('prune:single-state-unusable', sub, 'prune(1) of a %dx%d matrix: %s' % (N, N, mbad))
                    continue
            bad = None
            for n in range(Ntrunc):
                # the pruned matrix contains exactly the lowest Ntrunc states: diagonal element n is a single exponential
                for t in range(1, T - 1):
                    x = P.content[t][n, n] if Ntrunc > 1 else np.asarray(P.content[t]).ravel()[0]
                    y = P.content[t + 1][n, n] if Ntrunc > 1 else np.asarray(P.content[t + 1]).ravel()[0]
                    m = math.log(x.value / y.value)
                    if math.exp(-ENERGIES[n] * t) > 1e-7 * math.exp(-ENERGIES[0] * t) and not abs(m - ENERGIES[n]) <= 1e-6:
                        bad = 'state %d: effective mass %r at t=%d, exact energy %r' % (n, m, t, ENERGIES[n])
                        break
                if bad:
                    break
                for m_ in range(Ntrunc):
                    if m_ != n and Ntrunc > 1:
                        off = max(abs(P.content[t][n, m_].value) for t in range(T))
                        if off > 1e-8:
                            bad = 'off-diagonal element (%d,%d) of the pruned matrix is %g' % (n, m_, off)
            if bad:
                acc.fail('prune:energies', sub, 'N=%d -> %d (tproj=%d, t0proj=%d): %s' % (N, Ntrunc, tproj, t0proj, bad))
            else:
                acc.ok(('prune', N, T, Ntrunc, t0proj, tproj), True, 'prune')
    # the projection formula itself, also for non-symmetric target matrices and with undefined timeslices:
    # G'_ij(t) = v_i^T G(t) v_j with the vectors of the (symmetrised) GEVP at (t0proj, tproj)
    for variant, kw in (('nonsymmetric', {'antisym': 0.02}), ('undefined', {'undefined': (0, T - 2)}), ('nonsymmetric+undefined', {'antisym': 0.02, 'undefined': (T - 3,)}),
                        ('nonsymmetric+first-undefined', {'antisym': 0.02, 'undefined': (0,)}),
                        ('undefined-as-array-of-None', {'undefined': (T - 2,), 'none_array': True})):
        none_array = kw.pop('none_array', False)
        G = make_corr(pe, N, T, 'prune', **kw)
        if none_array:       # the other representation of an undefined timeslice that GEVP accepts: an N x N array filled with None
            for t in kw['undefined']:
                G.content[t] = np.full((N, N), None, dtype=object)
        for Ntrunc in range(1, N):
            t0proj, tproj = 1, 2
            sub = dict(case, Ntrunc=Ntrunc, variant=variant)
            try:
                P = G.prune(Ntrunc, tproj=tproj, t0proj=t0proj)
                vecs = G.GEVP(t0proj, tproj, sort=None)[:Ntrunc]
            except Exception as e:
                acc.fail('prune:%s:raised' % variant, sub, 'prune(%d) on a %s matrix raised %r' % (Ntrunc, variant, e))
                continue
            bad = None
            for t in range(T):
                if G.content[t] is None or all(x is None for x in np.ravel(G.content[t])):
                    if P.content[t] is not None:
                        bad = 'timeslice %d is defined in the pruned correlator but undefined in the input' % t
                    continue
                if P.content[t] is None:
                    bad = 'timeslice %d undefined in the pruned correlator' % t
                    break
                for i in range(Ntrunc):
                    for j in range(Ntrunc):
                        e = vecs[i] @ G.content[t] @ vecs[j]
                        g = P.content[t][i, j] if Ntrunc > 1 else np.asarray(P.content[t]).ravel()[0]
                        sc = abs(e.value) + 1e-12
                        if not (abs(g.value - e.value) <= 1e-10 * sc and np.max(np.abs(g.deltas['A|r1'] - e.deltas['A|r1'])) <= 1e-10 * sc):
                            bad = bad or 'element (%d,%d) at t=%d: %r, v_i^T G v_j = %r' % (i, j, t, g.value, e.value)
            if bad:
                acc.fail('prune:%s' % variant, sub, 'prune(%d) of a %s %dx%d matrix: %s' % (Ntrunc, variant, N, N, bad))
            else:
                acc.ok(('prune', N, T, Ntrunc, variant), True, 'prune-' + variant)
    for bad_n in (N, N + 1):
        try:
            C.prune(bad_n)
            acc.fail('prune:ntrunc-accepted', dict(case, Ntrunc=bad_n), 'prune(%d) accepted for N=%d' % (bad_n, N))
        except ValueError:
            acc.ok(('prune-ref', N, T, bad_n), True, 'refused')
    acc.sample({'kind': 'prune', 'N': N, 'T': T})


def run_mpm(pe, acc, case):
    k, n = case['k'], case['n']
    r = alpha.rng('c16mpm', k, n)
    amps = [1.0, 0.6, 0.35][:k]
    eps = 0.01 * r.normal(size=(8, k))

    def series(scale=1.0):
        out = []
        for t in range(n):
            x = np.array([sum(scale * amps[j] * (1 + eps[c, j]) * math.exp(-ENERGIES[j] * 1.7 * t) for j in range(k)) for c in range(8)])
            out.append(pe.Obs([x], ['A|r1']))
        return out
    data = series()
    data2 = series(0.5)
    data_small, data_tiny, data_big = series(1e-9), series(1e-12), series(1e9)      # the energies do not depend on the units of the correlator
    exact = sorted(ENERGIES[j] * 1.7 for j in range(k))
    for p in range(1, n):
        admissible = (p >= k) and (n - p >= k) and (n > p)
        for sets, label in ((data, 'single'), ([data, data2], 'two-sets'), (data_small, 'magnitude-1e-9'), (data_tiny, 'magnitude-1e-12'), (data_big, 'magnitude-1e9')):
            sub = dict(case, p=p, sets=label)
            try:
                E = pe.mpm.matrix_pencil_method(sets, k=k, p=p)
            except Exception as e:
                if admissible:
                    acc.fail('mpm:raised', sub, 'k=%d n=%d p=%d (%s) raised %s: %s' % (k, n, p, label, type(e).__name__, e))
                else:
                    acc.ok(('mpm-ref', k, n, p, label), True, 'inadmissible-p-refused')
                continue
            if not admissible:
                acc.fail('mpm:inadmissible-accepted', sub, 'k=%d n=%d p=%d accepted' % (k, n, p))
                continue
            got = sorted(float(e.value) for e in E)
            if len(got) != k or any(not abs(g - x) <= 1e-6 for g, x in zip(got, exact)):
                acc.fail('mpm:energies', sub, 'k=%d n=%d p=%d (%s): energies %s, exact %s' % (k, n, p, label, got, exact))
                continue
            # the energies do not fluctuate when only the amplitudes do
            d = max(np.max(np.abs(e.deltas['A|r1'])) for e in E)
            if d > 1e-6:
                acc.fail('mpm:fluctuations', sub, 'k=%d n=%d p=%d: energies fluctuate by %g although only the amplitudes fluctuate' % (k, n, p, d))
                continue
            acc.ok(('mpm', k, n, p, label), True, 'matrix-pencil')
    # default p
    E = pe.mpm.matrix_pencil_method(data, k=k)
    got = sorted(float(e.value) for e in E)
    if any(not abs(g - x) <= 1e-6 for g, x in zip(got, exact)):
        acc.fail('mpm:default-p', case, 'default p: %s vs %s' % (got, exact))
    else:
        acc.ok(('mpm-default', k, n), True, 'matrix-pencil')
    acc.sample({'kind': 'mpm', 'k': k, 'n': n, 'p': 'every 1..n-1'})
