"""C01 Linear error propagation is exact and aligned by configuration number.

E-PROD: (i) every operator/function x ordered pair of operand kinds x ordered pair of layouts,
through every code path; (ii) every expression tree with two internal nodes over three leaves;
(iii) split-independence in the promised regime; (iv) array_mode against scalar mode and the
reference.  Oracle: mc.ref.r_propagate (the statement transcribed, keyed by configuration number)."""
import math
import itertools
import operator
import cmath
import numpy as np
from mc import engine, alpha, ref, compare
from mc.engine import Acc

LEVEL = 'exploration'
RULE = ('(i) full product: binary operators + - * / ** x ordered pairs of operands from the operand catalogue '
        '(primary observables on every layout, observables with covariance inputs, multi-ensemble observables, pure '
        'covariance observables, CObs, int/float/complex/numpy scalars, ndarrays) x code paths {overloaded operator, '
        'derived_observable autograd, man_grad, num_grad(deviation-bounded)}; 17 unary functions x every operand x '
        'code paths; (ii) all 32 two-node expression trees over {+,-,*,/} x leaf-layout triples (deviation bound 2 '
        'quick, full product thorough); (iii) flattened vs split evaluation where replica sets or per-replica '
        'configuration sets are shared; (iv) array_mode matmul/elementwise on 2x2 / 1x1 matrices.  Non-trivial = '
        'operand layouts differ, or a non-Obs operand, or a non-default code path')
ASSUMPTIONS = ['data values from the seeded data alphabet (inside function domains)',
               'r_values are not compared (the statement does not define them)',
               'pairs mixing a bare ensemble name with replica-named chains of the same ensemble are skipped and counted']
EXHAUSTIVE = True
REPEAT = 2      # every case is evaluated twice in the same process: the second verdict must equal the first (call-history oracle)
CHUNK = 4

OPS = {'+': operator.add, '-': operator.sub, '*': operator.mul, '/': operator.truediv, '**': operator.pow}


# ------------------------------------------------------------------ operand catalogue
BD = {'B|r1': 'c8', 'B|r2': 'ev'}


def _lay(lays, i):
    return i if isinstance(i, dict) else lays[i]


def catalogue(tier):
    lays = alpha.layouts(tier)
    cat = [{'t': 'obs', 'lay': i} for i in range(len(lays))]
    cat += [{'t': 'obscov', 'lay': 0, 'cov': 0, 'pos': 0}, {'t': 'obscov', 'lay': 5, 'cov': 1, 'pos': 1},
            {'t': 'cov', 'cov': 1, 'pos': 0}, {'t': 'cov', 'cov': 1, 'pos': 1}, {'t': 'cov', 'cov': 2, 'pos': 2},
            {'t': 'multi', 'lays': [0, 11]}, {'t': 'multi', 'lays': [8, 11], 'cov': 0},
            # operands on two ensembles that lack a whole replica of the second / of the first / of neither ensemble
            {'t': 'multi', 'lays': [8, 11]}, {'t': 'multi', 'lays': [0, BD]}, {'t': 'multi', 'lays': [8, BD]}]
    if tier == 'thorough':
        cat += [{'t': 'cov', 'cov': 0, 'pos': 0}, {'t': 'cov', 'cov': 3, 'pos': 1}, {'t': 'multi', 'lays': [10, 11, 13]},
                {'t': 'obscov', 'lay': 8, 'cov': 2, 'pos': 0}]
    return cat


def cobs_catalogue(tier):
    c = [{'t': 'cobs', 're': {'t': 'obs', 'lay': 0}, 'im': {'t': 'obs', 'lay': 0}},
         {'t': 'cobs', 're': {'t': 'obs', 'lay': 8}, 'im': {'t': 'obs', 'lay': 8}},
         {'t': 'cobs', 're': {'t': 'obs', 'lay': 0}, 'im': {'t': 'obs', 'lay': 1}},
         {'t': 'cobs', 're': {'t': 'obs', 'lay': 5}, 'im': {'t': 'obs', 'lay': 8}},
         {'t': 'cobs', 're': {'t': 'obs', 'lay': 11}, 'im': {'t': 'cov', 'cov': 1, 'pos': 0}}]
    if tier == 'thorough':
        c += [{'t': 'cobs', 're': {'t': 'multi', 'lays': [0, 11]}, 'im': {'t': 'obs', 'lay': 10}},
              {'t': 'cobs', 're': {'t': 'obs', 'lay': 3}, 'im': {'t': 'obs', 'lay': 4}}]
    return c


SCALARS = [{'t': 'num', 'k': k} for k in ('int', 'float', 'negfloat', 'complex', 'npfloat', 'npint', 'complex0', 'npcomplex', 'npcomplex64')]
ARRAYS = [{'t': 'arr', 'k': 'f2'}, {'t': 'arr', 'k': 'i3'}]
SCALAR_VALUES = {'int': 2, 'float': 0.5, 'negfloat': -1.5, 'complex': 1 + 2j, 'npfloat': np.float64(0.75), 'npint': np.int64(3),
                 'complex0': complex(2.0, 0.0), 'npcomplex': np.complex128(0.5 - 1j), 'npcomplex64': np.complex64(0.5 + 1j)}
ARRAY_VALUES = {'f2': np.array([0.5, 2.5]), 'i3': np.array([1, 2, 3])}


def spec_name(s):
    t = s['t']
    if t == 'obs':
        return 'obs[%d]' % s['lay']
    if t == 'obscov':
        return 'obs[%d]+cov%d.%d' % (s['lay'], s['cov'], s['pos'])
    if t == 'cov':
        return 'cov%d.%d' % (s['cov'], s['pos'])
    if t == 'multi':
        return 'multi%s%s' % (s['lays'], '+cov' if 'cov' in s else '')
    if t == 'cobs':
        return 'cobs(%s,%s)' % (spec_name(s['re']), spec_name(s['im']))
    return '%s:%s' % (t, s['k'])


def chain_sets(s, tier):
    """{chain: cfg-set id} of an operand spec (for regime / nontriviality decisions)."""
    lays = alpha.layouts(tier)
    t = s['t']
    if t in ('obs', 'obscov'):
        return dict(lays[s['lay']])
    if t == 'multi':
        d = {}
        for i in s['lays']:
            d.update(_lay(lays, i))
        return d
    if t == 'cobs':
        d = dict(chain_sets(s['re'], tier))
        d.update(chain_sets(s['im'], tier))
        return d
    return {}


def build_operand(pe, s, tier, key, mean, sigma=0.05):
    """-> (implementation object, (real ref, imag ref))."""
    lays = alpha.layouts(tier)
    t = s['t']
    if t == 'obs':
        o, samples, cfgs = alpha.make_obs(pe, lays[s['lay']], key, 'white', mean, sigma)
        return o, (ref.r_from_samples(samples, cfgs), ref.r_const(0.0))
    if t == 'cov':
        name, dim, full = alpha.COVS[s['cov']]
        S = alpha.cov_matrix(dim, full, name)
        means = [mean + 0.1 * i for i in range(dim)]
        ol = pe.cov_Obs(means if dim > 1 else means[0], S, name)
        o = ol[s['pos']] if dim > 1 else ol
        return o, (ref.r_cov(means[s['pos']], S, name, s['pos']), ref.r_const(0.0))
    if t == 'obscov':
        o1, (r1, _) = build_operand(pe, {'t': 'obs', 'lay': s['lay']}, tier, key, mean, sigma)
        o2, (r2, _) = build_operand(pe, {'t': 'cov', 'cov': s['cov'], 'pos': s['pos']}, tier, key, 0.3, sigma)
        o = o1 * o2
        return o, (compare.to_ref(o), ref.r_const(0.0))
    if t == 'multi':
        o = None
        for j, i in enumerate(s['lays']):
            p = alpha.make_obs(pe, _lay(lays, i), (key, j), 'white', mean / len(s['lays']), sigma)[0]
            o = p if o is None else o + p
        if 'cov' in s:
            c, _ = build_operand(pe, {'t': 'cov', 'cov': s['cov'], 'pos': 0}, tier, key, 1.0, sigma)
            o = o * c
        return o, (compare.to_ref(o), ref.r_const(0.0))
    if t == 'cobs':
        re, (rr, _) = build_operand(pe, s['re'], tier, (key, 're'), mean, sigma)
        im, (ri, _) = build_operand(pe, s['im'], tier, (key, 'im'), 0.6 * mean, sigma)
        return pe.CObs(re, im), (rr, ri)
    if t == 'num':
        v = SCALAR_VALUES[s['k']]
        z = complex(v)
        return v, (ref.r_const(z.real), ref.r_const(z.imag))
    raise ValueError(t)


# ------------------------------------------------------------------ reference for complex-capable binary ops
def c_binop(op, za, zb):
    f = {'+': lambda a, b: a + b, '-': lambda a, b: a - b, '*': lambda a, b: a * b, '/': lambda a, b: a / b,
         '**': lambda a, b: a ** b}[op]
    g = {'+': lambda a, b: (1, 1), '-': lambda a, b: (1, -1), '*': lambda a, b: (b, a),
         '/': lambda a, b: (1 / b, -a / (b * b)),
         '**': lambda a, b: (b * a ** (b - 1), a ** b * cmath.log(a))}[op]
    return f(za, zb), g(za, zb)


def ref_binop(op, ra, rb, complex_result, sa=None, sb=None):
    """ra, rb: (re, im) reference pairs.  Returns (re_ref, im_ref) (im_ref None for real results).

    The dependence is *structural*: a real operand has no imaginary part, so e.g. Im(a + z) depends on z
    alone and Re(a * z) = a * Re z depends on a and Re z alone (an input that does not enter a function
    does not extend the configuration union of its result)."""
    if not complex_result:
        va, vb = ra[0]['value'], rb[0]['value']
        f, df = ref.BINARY[op]
        ga, gb = df(va, vb)
        return ref.r_propagate(f(va, vb), [ga, gb], [ra[0], rb[0]]), None
    a_cplx = sa is None or is_complex_spec(sa)
    b_cplx = sb is None or is_complex_spec(sb)
    ar, ai = ra
    br, bi = rb
    za = complex(ar['value'], ai['value'])
    zb = complex(br['value'], bi['value'])
    z, (ga, gb) = c_binop(op, za, zb)
    ga, gb = complex(ga), complex(gb)
    if op in '+-':
        sg = 1.0 if op == '+' else -1.0
        re = ref.r_propagate(z.real, [1.0, sg], [ar, br])
        im_ins, im_g = [], []
        if a_cplx:
            im_ins.append(ai)
            im_g.append(1.0)
        if b_cplx:
            im_ins.append(bi)
            im_g.append(sg)
        return re, ref.r_propagate(z.imag, im_g, im_ins)
    if op == '*' and not (a_cplx and b_cplx):
        if a_cplx:   # complex * real
            return (ref.r_propagate(z.real, [br['value'], ar['value']], [ar, br]),
                    ref.r_propagate(z.imag, [br['value'], ai['value']], [ai, br]))
        return (ref.r_propagate(z.real, [br['value'], ar['value']], [ar, br]),
                ref.r_propagate(z.imag, [bi['value'], ar['value']], [ar, bi]))
    if op == '/' and not b_cplx:  # complex / real
        return (ref.r_propagate(z.real, [1 / br['value'], -ar['value'] / br['value'] ** 2], [ar, br]),
                ref.r_propagate(z.imag, [1 / br['value'], -ai['value'] / br['value'] ** 2], [ai, br]))
    ins = [ar, ai, br, bi]
    gre = [ga.real, -ga.imag, gb.real, -gb.imag]
    gim = [ga.imag, ga.real, gb.imag, gb.real]
    if not a_cplx:
        ins, gre, gim = [ar, br, bi], [gre[0], gre[2], gre[3]], [gim[0], gim[2], gim[3]]
    return ref.r_propagate(z.real, gre, ins), ref.r_propagate(z.imag, gim, ins)


def compare_result(pe, got, exp_re, exp_im, rtol):
    """None or text."""
    if exp_im is None:
        if not isinstance(got, pe.Obs):
            return 'result is %s, expected an Obs' % type(got).__name__
        try:
            g = compare.to_ref(got)
        except (TypeError, ValueError) as e:
            return 'result not convertible: %s' % e
        return ref.close(exp_re, g, rtol)
    if not isinstance(got, pe.CObs):
        return 'result is %s, expected a CObs' % type(got).__name__
    try:
        gre, gim = compare.to_ref_any(got, pe)
    except (TypeError, ValueError) as e:
        return 'result not convertible: %s' % e
    return ref.close(exp_re, gre, rtol, 'real part: ') or ref.close(exp_im, gim, rtol, 'imaginary part: ')


def compare_structure(pe, got, exp_re, exp_im, values_only=False):
    if not isinstance(got, pe.CObs):
        return 'result is %s, expected a CObs' % type(got).__name__
    gre, gim = compare.to_ref_any(got, pe)
    for nm, e, g in (('real', exp_re, gre), ('imaginary', exp_im, gim)):
        if abs(e['value'] - g['value']) > 1e-10 * max(1.0, abs(e['value'])):
            return '%s part value: expected %r got %r' % (nm, e['value'], g['value'])
        if not values_only and {n: sorted(c) for n, c in e['chains'].items()} != {n: sorted(c) for n, c in g['chains'].items()}:
            return '%s part chains/configurations differ' % nm
    return None


def compare_identity(pe, got, exp_re, exp_im, tol=1e-10):
    if not isinstance(got, pe.CObs):
        return 'result is %s, expected a CObs' % type(got).__name__
    gre, gim = compare.to_ref_any(got, pe)
    return (ref.r_identical(exp_re, gre, tol) and 'real part: ' + ref.r_identical(exp_re, gre, tol)) or \
        (ref.r_identical(exp_im, gim, tol) and 'imaginary part: ' + ref.r_identical(exp_im, gim, tol)) or None


def is_complex_spec(s):
    return s['t'] == 'cobs' or (s['t'] == 'num' and 'complex' in s['k'])


# ------------------------------------------------------------------ case lists
def build(tier, seed):
    cat = catalogue(tier)
    cc = cobs_catalogue(tier)
    cases = [{'kind': 'construct'}]
    # (i-a) binary, Obs-like x Obs-like: one batch per ordered pair
    for ia, ib in itertools.product(range(len(cat)), repeat=2):
        cases.append({'kind': 'bin', 'a': cat[ia], 'b': cat[ib]})
    # Obs-like x {CObs, scalars, arrays} in both orders; CObs x CObs; CObs x scalars
    for ia in range(len(cat)):
        for other in cc + SCALARS + ARRAYS:
            cases.append({'kind': 'bin', 'a': cat[ia], 'b': other})
            cases.append({'kind': 'bin', 'a': other, 'b': cat[ia]})
    for c1, c2 in itertools.product(cc, repeat=2):
        cases.append({'kind': 'bin', 'a': c1, 'b': c2})
    for c1 in cc:
        for other in SCALARS + ARRAYS:
            cases.append({'kind': 'bin', 'a': c1, 'b': other})
            cases.append({'kind': 'bin', 'a': other, 'b': c1})
    # (i-b) unary
    for ia in range(len(cat)):
        cases.append({'kind': 'un', 'a': cat[ia]})
    for c1 in cc:
        cases.append({'kind': 'un', 'a': c1})
    # (ii)+(iii) trees
    nl = len(alpha.layouts(tier))
    if tier == 'quick':
        triples = [c for _, c in engine.deviation_cases([('a', list(range(nl))), ('b', list(range(nl))), ('c', list(range(nl)))], 2)]
        triples = [(c['a'], c['b'], c['c']) for c in triples]
    else:
        triples = sorted(itertools.product(range(nl), repeat=3), key=lambda t: (sum(t), t))
    for i in range(0, len(triples), 8):
        cases.append({'kind': 'tree', 'triples': [list(t) for t in triples[i:i + 8]]})
    # complex observables with plain-number / very small parts
    for scale in (1e-12, 1e-7):
        cases.append({'kind': 'cobs-parts', 'scale': scale})
    # (iv) array mode
    arr_lays = list(itertools.product(range(nl), repeat=2))
    for la, lb in arr_lays:
        cases.append({'kind': 'array', 'la': la, 'lb': lb})
    return cases


def coverage_extra(tier, seed, cases, tot):
    kinds = {}
    for c in cases:
        kinds[c['kind']] = kinds.get(c['kind'], 0) + 1
    return {'batches_by_kind': kinds, 'layouts': len(alpha.layouts(tier)), 'operand_catalogue': len(catalogue(tier)),
            'tree_leaf_bound': 'deviation<=2 over 3 leaves' if tier == 'quick' else 'full product'}


def worker_init():
    ref.self_test()


# ------------------------------------------------------------------ evaluation
def tier_():
    import os
    return os.environ.get('VERIF_TIER', 'quick')


def run_case(case):
    pe = engine.import_pyerrors()
    import autograd.numpy as anp
    acc = Acc()
    tier = tier_()
    kind = case['kind']
    if kind == 'construct':
        run_construct(pe, acc, tier, case)
    elif kind == 'bin':
        run_bin(pe, acc, tier, case)
    elif kind == 'un':
        run_un(pe, anp, acc, tier, case)
    elif kind == 'tree':
        run_tree(pe, acc, tier, case)
    elif kind == 'array':
        run_array(pe, anp, acc, tier, case)
    elif kind == 'cobs-parts':
        run_cobs_parts(pe, acc, case)
    return acc


def run_cobs_parts(pe, acc, case):
    """Complex observables whose parts are observables of ordinary or very small magnitude or plain numbers (incl. 0), in every
    combination and both orders: +, -, * equal the complex formula applied to the parts (relative comparison on the scale of the terms)."""
    cf = list(range(1, 13))
    scale = case['scale']

    def ob(k, s_):
        return pe.Obs([s_ * alpha.data('white', cf, alpha.rng('c01cp', k), 1.0 + 0.2 * k, 0.1)], ['A|r1'])
    parts = {'obs': lambda k: ob(k, 1.0), 'small-obs': lambda k: ob(k, scale), 'number': lambda k: 2.0 - 0.5 * k, 'zero': lambda k: 0.0,
             'small-number': lambda k: scale * (2.5 - 0.5 * k)}

    def ref_of(x):
        return compare.to_ref(x) if isinstance(x, pe.Obs) else ref.r_const(float(x))
    for (ra, ia), (rb, ib) in itertools.product(itertools.product(parts, repeat=2), repeat=2):
        if all(k in ('number', 'zero', 'small-number') for k in (ra, ia)) or not any(k.endswith('obs') for k in (ra, ia, rb, ib)):
            continue           # the left operand is a CObs with at least one observable part
        a = pe.CObs(parts[ra](0), parts[ia](1))
        if rb in ('number', 'zero', 'small-number') and ib in ('number', 'zero', 'small-number'):
            b = complex(parts[rb](2), parts[ib](3))
        else:
            b = pe.CObs(parts[rb](2), parts[ib](3))
        are, aim, bre, bim = a.real, a.imag, b.real, b.imag
        for op in ('*', '+', '-'):
            for order in ('ab', 'ba'):
                sub = dict(case, a=[ra, ia], b=[rb, ib], op=op, order=order)
                x, y = (a, b) if order == 'ab' else (b, a)
                xr, xi, yr, yi = (are, aim, bre, bim) if order == 'ab' else (bre, bim, are, aim)
                try:
                    got = x * y if op == '*' else x + y if op == '+' else x - y
                    if op == '*':
                        er, ei = xr * yr - xi * yi, xi * yr + xr * yi
                    elif op == '+':
                        er, ei = xr + yr, xi + yi
                    else:
                        er, ei = xr - yr, xi - yi
                    bad = None
                    for pn, g, e in (('real', got.real, er), ('imaginary', got.imag, ei)):
                        rg, re_ = ref_of(g), ref_of(e)
                        sc = max(abs(re_['value']), max([np.max(np.abs(list(c.values()))) for c in re_['chains'].values()] + [0.0]), 1e-300)
                        bad = bad or ref.r_identical(rg, re_, 1e-12, sc)
                        if bad:
                            bad = '%s part: %s' % (pn, bad)
                            break
                except Exception as ex:
                    bad = 'raised %s: %s' % (type(ex).__name__, ex)
                if bad:
                    acc.fail('cobs-parts:%s' % op, sub, 'CObs(%s, %s) %s CObs/complex(%s, %s) [%s], small scale %g: %s' % (ra, ia, op, rb, ib, order, scale, bad))
                else:
                    acc.ok(('cp', scale, ra, ia, rb, ib, op, order), True, 'cobs-parts')
    acc.sample(dict(case, parts=sorted(parts)))


def run_construct(pe, acc, tier, case):
    """Constructor: value = weighted mean, fluctuations relative to the replica mean, idl as given."""
    for i, lay in enumerate(alpha.layouts(tier)):
        for kind in alpha.DATA_KINDS:
            for form in ('auto', 'list', 'ndarray'):
                o, samples, cfgs = alpha.make_obs(pe, lay, ('cons', i, kind), kind, 1.0, 0.1, form=form)
                exp = ref.r_from_samples(samples, cfgs)
                bad = ref.close(exp, compare.to_ref(o), 1e-13)
                if not bad:
                    for n in samples:
                        if abs(o.r_values[n] - math.fsum(samples[n]) / len(samples[n])) > 1e-13 * max(1.0, abs(o.r_values[n])):
                            bad = 'replica mean of %s' % n
                if bad:
                    acc.fail('construct', dict(case, lay=i, data=kind, form=form), bad)
                else:
                    acc.ok(('cons', i, kind, form), len(lay) > 1 or form != 'auto', 'construct')
    # the caller re-uses the configuration lists / sample arrays it passed in: observables built before, and expressions in them, stay the same
    for la, lb in (('irr', 'g2'), ('trA', 'trB'), ('c12', 'irr')):
        ca, cb = list(alpha.CFG[la]), list(alpha.CFG[lb])
        xa, xb = alpha.data('white', ca, alpha.rng('c01alias', la, 'a'), 1.0, 0.1), alpha.data('white', cb, alpha.rng('c01alias', lb, 'b'), 0.7, 0.1)
        for carrier in ('list', 'ndarray'):
            ia, ib = (list(ca), list(cb)) if carrier == 'list' else (np.array(ca), np.array(cb))
            sa_, sb_ = xa.copy(), xb.copy()
            a_ = pe.Obs([sa_], ['A|r1'], idl=[ia])
            b_ = pe.Obs([sb_], ['A|r1'], idl=[ib])
            first = [a_ + b_, a_ * b_, np.exp(a_ - b_)]
            before = [compare.to_ref(r) for r in first]
            # ... the caller fills its containers with the data of the next observable
            if carrier == 'list':
                ia.clear()
                ia.extend(range(100, 100 + len(ca)))
                ib.append(10 ** 6)
            else:
                ia += 50
                ib[:] = ib[::-1]
            sa_ *= 3.0
            sb_[:] = 0.0
            again = [a_ + b_, a_ * b_, np.exp(a_ - b_)]
            bad = None
            for k, (r0, r1, r2) in enumerate(zip(before, first, again)):
                bad = bad or ref.close(r0, compare.to_ref(r1), 1e-14) or ref.close(r0, compare.to_ref(r2), 1e-14)
            if bad:
                acc.fail('construct:aliased-arguments', {'kind': 'construct', 'pair': [la, lb], 'carrier': carrier}, 'after the caller re-used the %s it had passed to the constructor, the same expressions give: %s' % ('lists' if carrier == 'list' else 'arrays', bad))
            else:
                acc.ok(('cons-alias', la, lb, carrier), True, 'construct')
    acc.sample({'kind': 'construct', 'layout': alpha.lname(alpha.layouts(tier)[10]), 'data': 'ar1', 'idl_form': 'list'})


def _ops_for(sa, sb):
    ca, cb = is_complex_spec(sa), is_complex_spec(sb)
    real_obs = lambda s: s['t'] in ('obs', 'obscov', 'cov', 'multi')
    if (ca and sa['t'] == 'num' and real_obs(sb)) or (cb and sb['t'] == 'num' and real_obs(sa)):
        return ['+', '-', '*', '/', '**']      # real observable ** complex number and complex number ** real observable
    if ca or cb or sa['t'] == 'cobs' or sb['t'] == 'cobs':
        return ['+', '-', '*', '/']
    if sa['t'] == 'arr' or sb['t'] == 'arr':
        return ['+', '-', '*', '/', '**'] if (real_obs(sa) or real_obs(sb)) else ['+', '-', '*', '/']
    return ['+', '-', '*', '/', '**']


def run_bin(pe, acc, tier, case):
    sa, sb = case['a'], case['b']
    if 'op' in case:
        ops = [case['op']]
    else:
        ops = _ops_for(sa, sb)
    arr = sa['t'] == 'arr' or sb['t'] == 'arr'
    ka, kb = ('a', spec_name(sa)), ('b', spec_name(sb))
    if arr:
        return run_bin_array(pe, acc, tier, case, ops)
    a, ra = build_operand(pe, sa, tier, ka, 1.3)
    b, rb = build_operand(pe, sb, tier, kb, 0.8)
    cplx = is_complex_spec(sa) or is_complex_spec(sb)
    obs_like = lambda s: s['t'] in ('obs', 'obscov', 'cov', 'multi')
    both_obs = obs_like(sa) and obs_like(sb)
    nontrivial = chain_sets(sa, tier) != chain_sets(sb, tier) or not both_obs
    composite = sa['t'] == 'cobs' or sb['t'] == 'cobs'
    in_regime = True
    if composite:
        parts = []
        for sp in (sa, sb):
            if sp['t'] == 'cobs':
                parts += [chain_sets(sp['re'], tier), chain_sets(sp['im'], tier)]
            else:
                parts.append(chain_sets(sp, tier))
        in_regime = regime([p for p in parts if p])
    # a CObs whose parts live on different layouts: the statement can be read with the complex observable as
    # one input (union of both parts) or part-wise; both readings give the same observable up to zero-padding
    # with up-weighting, so the comparison is the reference identity (difference vanishes), not chain equality
    mixed_cobs = any(sp['t'] == 'cobs' and chain_sets(sp['re'], tier) != chain_sets(sp['im'], tier) for sp in (sa, sb))
    paths = ['op']
    if both_obs:
        paths += ['auto', 'man']
        # num_grad is slow: deviation-bounded (at most one operand away from the default layout)
        if (sa == {'t': 'obs', 'lay': 0}) or (sb == {'t': 'obs', 'lay': 0}) or case.get('path') == 'num':
            paths.append('num')
    if 'path' in case:
        paths = [case['path']]
    for op in ops:
        if op == '**' and not ra[0]['value'] > 0:
            acc.skip('negative-base-power')
            continue
        exp_re, exp_im = ref_binop(op, ra, rb, cplx, sa, sb)
        for path in paths:
            sub = {'kind': 'bin', 'a': sa, 'b': sb, 'op': op, 'path': path}
            sig = 'bin:%s:%s:%s:%s' % (op, sa['t'] + (':' + sa['k'] if 'k' in sa else ''), sb['t'] + (':' + sb['k'] if 'k' in sb else ''), path)
            try:
                if path == 'op':
                    got = OPS[op](a, b)
                elif path == 'auto':
                    got = pe.derived_observable(lambda x, **kw: OPS[op](x[0], x[1]), [a, b])
                elif path == 'num':
                    got = pe.derived_observable(lambda x, **kw: OPS[op](x[0], x[1]), [a, b], num_grad=True)
                elif path == 'man':
                    ga, gb = ref.BINARY[op][1](ra[0]['value'], rb[0]['value'])
                    got = pe.derived_observable(lambda x, **kw: OPS[op](x[0], x[1]), [a, b], man_grad=[ga, gb])
            except Exception as e:
                acc.fail(sig + ':raised', sub, '%s %s %s via %s raised %s: %s' % (spec_name(sa), op, spec_name(sb), path, type(e).__name__, e))
                continue
            if composite and op in '*/' and not in_regime:
                # CObs products/quotients are evaluated as a sequence of real operations; outside the
                # shared-layout regime the statement does not promise split-independence: compare the
                # central value and the chains only.
                bad = compare_structure(pe, got, exp_re, exp_im, values_only=mixed_cobs)
                if bad:
                    acc.fail(sig + ':structure', sub, '%s %s %s: %s' % (spec_name(sa), op, spec_name(sb), bad))
                else:
                    acc.ok((spec_name(sa), op, spec_name(sb), path), False, 'cobs-outside-regime(value+chains only)')
                continue
            # a single-precision partner (np.complex64) is combined in single-precision scalar arithmetic
            single = any(sp.get('k') == 'npcomplex64' for sp in (sa, sb))
            if mixed_cobs:
                bad = compare_identity(pe, got, exp_re, exp_im, 1e-6 if single else 1e-10)
            else:
                bad = compare_result(pe, got, exp_re, exp_im, 1e-6 if (path == 'num' or single) else 1e-10)
            if bad:
                acc.fail(sig, sub, '%s %s %s via %s: %s' % (spec_name(sa), op, spec_name(sb), path, bad))
            else:
                acc.ok((spec_name(sa), op, spec_name(sb), path), nontrivial or path != 'op', path)
    acc.sample({'kind': 'bin', 'a': spec_name(sa), 'b': spec_name(sb), 'ops': ops, 'paths': paths})


def run_bin_array(pe, acc, tier, case, ops):
    sa, sb = case['a'], case['b']
    arr_left = sa['t'] == 'arr'
    sarr, sobj = (sa, sb) if arr_left else (sb, sa)
    vals = ARRAY_VALUES[sarr['k']]
    o, ro = build_operand(pe, sobj, tier, ('x', spec_name(sobj)), 1.3)
    cplx = is_complex_spec(sobj)
    for op in ops:
        sub = {'kind': 'bin', 'a': sa, 'b': sb, 'op': op}
        sig = 'bin:%s:%s:%s:op' % (op, sa['t'], sb['t'])
        try:
            got = OPS[op](vals, o) if arr_left else OPS[op](o, vals)
        except Exception as e:
            acc.fail(sig + ':raised', sub, '%s %s %s raised %s: %s' % (spec_name(sa), op, spec_name(sb), type(e).__name__, e))
            continue
        if not isinstance(got, np.ndarray) or got.shape != vals.shape:
            acc.fail(sig + ':shape', sub, 'result is %s %s' % (type(got).__name__, getattr(got, 'shape', '')))
            continue
        bad = None
        for i, v in enumerate(vals):
            rv = (ref.r_const(float(v)), ref.r_const(0.0))
            sv = {'t': 'num', 'k': 'float'}
            exp_re, exp_im = ref_binop(op, rv, ro, cplx, sv, sobj) if arr_left else ref_binop(op, ro, rv, cplx, sobj, sv)
            if sobj['t'] == 'cobs' and chain_sets(sobj['re'], tier) != chain_sets(sobj['im'], tier):
                if op in '*/' and not regime([chain_sets(sobj['re'], tier), chain_sets(sobj['im'], tier)]):
                    bad = compare_structure(pe, got[i], exp_re, exp_im, values_only=True)
                else:
                    bad = compare_identity(pe, got[i], exp_re, exp_im)
            else:
                bad = compare_result(pe, got[i], exp_re, exp_im, 1e-10)
            if bad:
                bad = 'entry %d: %s' % (i, bad)
                break
        if bad:
            acc.fail(sig, sub, '%s %s %s: %s' % (spec_name(sa), op, spec_name(sb), bad))
        else:
            acc.ok((spec_name(sa), op, spec_name(sb)), True, 'ndarray')
    acc.sample({'kind': 'bin', 'a': spec_name(sa), 'b': spec_name(sb), 'ops': ops})


def run_un(pe, anp, acc, tier, case):
    sa = case['a']
    funcs = [case['f']] if 'f' in case else list(ref.UNARY)
    if sa['t'] == 'cobs':
        # complex observables: neg, abs, conjugate
        a, ra = build_operand(pe, sa, tier, ('u', spec_name(sa)), 1.3)
        zr, zi = ra[0]['value'], ra[1]['value']
        for f in ('neg', 'abs', 'conj'):
            sub = {'kind': 'un', 'a': sa, 'f': f}
            try:
                got = -a if f == 'neg' else (abs(a) if f == 'abs' else a.conjugate())
            except Exception as e:
                acc.fail('un:cobs:%s:raised' % f, sub, '%s(%s) raised %r' % (f, spec_name(sa), e))
                continue
            if f == 'abs':
                m = math.hypot(zr, zi)
                exp = ref.r_propagate(m, [zr / m, zi / m], [ra[0], ra[1]])
                bad = compare_result(pe, got, exp, None, 1e-10)
            else:
                s1, s2 = (-1.0, -1.0) if f == 'neg' else (1.0, -1.0)
                bad = compare_result(pe, got, ref.r_propagate(s1 * zr, [s1], [ra[0]]), ref.r_propagate(s2 * zi, [s2], [ra[1]]), 1e-10)
            if bad:
                acc.fail('un:cobs:%s' % f, sub, '%s(%s): %s' % (f, spec_name(sa), bad))
            else:
                acc.ok((spec_name(sa), f), True, 'cobs-unary')
        return
    for fname in funcs:
        f, df, dom = ref.UNARY[fname]
        mean = ref.DOMAIN_MEAN[dom]
        a, ra = build_operand(pe, sa, tier, ('u', spec_name(sa), dom), mean, 0.03)
        va = ra[0]['value']
        if dom == 'unit' and not (abs(va) < 0.9):
            acc.skip('outside-domain')
            continue
        if dom == 'gt1' and not va > 1.1:
            acc.skip('outside-domain')
            continue
        if dom == 'pos' and not va > 0.1:
            acc.skip('outside-domain')
            continue
        exp = ref.r_propagate(f(va), [df(va)], [ra[0]])
        paths = [case['path']] if 'path' in case else ['method', 'numpy', 'auto', 'man'] + (['num'] if sa['t'] != 'obs' or sa['lay'] < 3 else [])
        for path in paths:
            sub = {'kind': 'un', 'a': sa, 'f': fname, 'path': path}
            sig = 'un:%s:%s:%s' % (fname, sa['t'], path)
            try:
                if fname == 'neg':
                    got = -a if path in ('method', 'numpy') else pe.derived_observable(
                        lambda x, **kw: -x[0], [a], **({'num_grad': True} if path == 'num' else {'man_grad': [-1.0]} if path == 'man' else {}))
                elif fname == 'abs':
                    got = abs(a) if path == 'method' else np.abs(a) if path == 'numpy' else pe.derived_observable(
                        lambda x, **kw: anp.abs(x[0]), [a], **({'num_grad': True} if path == 'num' else {'man_grad': [df(va)]} if path == 'man' else {}))
                elif path == 'method':
                    got = getattr(a, fname)()
                elif path == 'numpy':
                    got = getattr(np, fname)(a)
                elif path == 'auto':
                    got = pe.derived_observable(lambda x, **kw: getattr(anp, fname)(x[0]), [a])
                elif path == 'num':
                    got = pe.derived_observable(lambda x, **kw: getattr(anp, fname)(x[0]), [a], num_grad=True)
                elif path == 'man':
                    got = pe.derived_observable(lambda x, **kw: getattr(np, fname)(x[0]), [a], man_grad=[df(va)])
            except Exception as e:
                acc.fail(sig + ':raised', sub, '%s(%s) via %s raised %s: %s' % (fname, spec_name(sa), path, type(e).__name__, e))
                continue
            bad = compare_result(pe, got, exp, None, 1e-6 if path == 'num' else 1e-10)
            if bad:
                acc.fail(sig, sub, '%s(%s) via %s: %s' % (fname, spec_name(sa), path, bad))
            else:
                acc.ok((spec_name(sa), fname, path), True, 'unary-' + path)
    acc.sample({'kind': 'un', 'a': spec_name(sa), 'functions': funcs})


def regime(sets):
    """True when, per ensemble, the operands that carry it share their replica sets or their
    per-replica configuration sets (the regime in which C01 promises split-independence)."""
    ens = set(n.split('|')[0] for s in sets for n in s)
    for e in ens:
        having = [{n: c for n, c in s.items() if n.split('|')[0] == e} for s in sets]
        having = [h for h in having if h]
        same_reps = all(set(h) == set(having[0]) for h in having)
        same_cfgs = True
        for n in set().union(*[set(h) for h in having]):
            cs = [h[n] for h in having if n in h]
            if any(c != cs[0] for c in cs):
                same_cfgs = False
        if not (same_reps or same_cfgs):
            return False
    return True


TREE_OPS = ['+', '-', '*', '/']


def run_tree(pe, acc, tier, case):
    lays = alpha.layouts(tier)
    for tr in case['triples']:
        specs = [{'t': 'obs', 'lay': i} for i in tr]
        leaves = [build_operand(pe, s, tier, ('leaf', j, tr[j]), m) for j, (s, m) in enumerate(zip(specs, (1.3, 0.8, 1.7)))]
        impl = [l[0] for l in leaves]
        refs = [l[1][0] for l in leaves]
        in_regime = regime([lays[i] for i in tr])
        nontrivial = len(set(tr)) > 1
        pairs = [(case['o1'], case['o2'])] if 'o1' in case else itertools.product(TREE_OPS, repeat=2)
        for o1, o2 in pairs:
            for shape in ([case['shape']] if 'shape' in case else ('L', 'R')):
                sub = {'kind': 'tree', 'triples': [tr], 'o1': o1, 'o2': o2, 'shape': shape}
                f1, d1 = ref.BINARY[o1]
                f2, d2 = ref.BINARY[o2]
                va, vb, vc = (r['value'] for r in refs)
                try:
                    if shape == 'L':   # (a o1 b) o2 c
                        got = OPS[o2](OPS[o1](impl[0], impl[1]), impl[2])
                        g1 = d1(va, vb)
                        inner = ref.r_propagate(f1(va, vb), list(g1), [refs[0], refs[1]])
                        g2 = d2(inner['value'], vc)
                        exp = ref.r_propagate(f2(inner['value'], vc), list(g2), [inner, refs[2]])
                        flat_f = lambda x, **kw: OPS[o2](OPS[o1](x[0], x[1]), x[2])
                        flat_g = [g2[0] * g1[0], g2[0] * g1[1], g2[1]]
                    else:              # a o1 (b o2 c)
                        got = OPS[o1](impl[0], OPS[o2](impl[1], impl[2]))
                        g2 = d2(vb, vc)
                        inner = ref.r_propagate(f2(vb, vc), list(g2), [refs[1], refs[2]])
                        g1 = d1(va, inner['value'])
                        exp = ref.r_propagate(f1(va, inner['value']), list(g1), [refs[0], inner])
                        flat_f = lambda x, **kw: OPS[o1](x[0], OPS[o2](x[1], x[2]))
                        flat_g = [g1[0], g1[1] * g2[0], g1[1] * g2[1]]
                    flat = pe.derived_observable(flat_f, impl)
                except Exception as e:
                    acc.fail('tree:raised', sub, 'tree %s %s %s on %s raised %s: %s' % (o1, o2, shape, tr, type(e).__name__, e))
                    continue
                bad = compare_result(pe, got, exp, None, 1e-10)
                if bad:
                    acc.fail('tree:stepwise', sub, 'tree shape %s ops %s,%s leaves %s: %s' % (shape, o1, o2, [alpha.lname(lays[i]) for i in tr], bad))
                    continue
                exp_flat = ref.r_propagate(exp['value'], flat_g, refs)
                bad = compare_result(pe, flat, exp_flat, None, 1e-10)
                if bad:
                    acc.fail('tree:flat', sub, 'flattened call, shape %s ops %s,%s leaves %s: %s' % (shape, o1, o2, [alpha.lname(lays[i]) for i in tr], bad))
                    continue
                if in_regime:
                    bad = ref.close(dict(compare.to_ref(flat), scale=exp['scale']), compare.to_ref(got), 1e-10)
                    if bad:
                        acc.fail('tree:split-dependence', sub, 'split vs flattened evaluation differ in the shared-layout regime: %s' % bad)
                        continue
                    acc.count('split-independence-checked')
                acc.ok((tuple(tr), o1, o2, shape), nontrivial, 'tree-regime' if in_regime else 'tree')
    acc.sample({'kind': 'tree', 'leaves': [alpha.lname(lays[i]) for i in case['triples'][-1]], 'ops': 'all 16 pairs', 'shapes': ['(a.b).c', 'a.(b.c)']})


def run_array(pe, anp, acc, tier, case):
    """array_mode: 2x2 @ 2x2, elementwise 2x2, 1x1 @ 1x1 with entry layouts from (la, lb)
    (operands of one call must have equal shapes: np.asarray of the operand list)."""
    lays = alpha.layouts(tier)
    la, lb = case['la'], case['lb']

    def mat(shape, tag, base):
        M = np.empty(shape, dtype=object)
        R = np.empty(shape, dtype=object)
        for idx in np.ndindex(shape):
            lay = la if (sum(idx) % 2 == 0) else lb
            o, (r, _) = build_operand(pe, {'t': 'obs', 'lay': lay}, tier, (tag, idx, lay), base + 0.3 * idx[0] - 0.2 * idx[1])
            M[idx] = o
            R[idx] = r
        return M, R
    progs = [('matmul22', (2, 2), (2, 2)), ('elem22', (2, 2), (2, 2)), ('matmul11', (1, 1), (1, 1))]
    for pname, sha, shb in progs:
        if 'prog' in case and case['prog'] != pname:
            continue
        A, RA = mat(sha, 'A' + pname, 1.2)
        B, RB = mat(shb, 'B' + pname, 0.7)
        VA = np.vectorize(lambda r: r['value'])(RA).astype(float)
        VB = np.vectorize(lambda r: r['value'])(RB).astype(float)
        sub = dict(case, prog=pname)
        try:
            if pname.startswith('matmul'):
                if sha == shb:
                    direct = pe.derived_observable(lambda x, **kw: x[0] @ x[1], [A, B], array_mode=True)
                else:
                    direct = None  # np.asarray of ragged input is not a supported call shape
                lin = pe.linalg.matmul(A, B)
                val = VA @ VB
            else:
                direct = pe.derived_observable(lambda x, **kw: x[0] * x[1], [A, B], array_mode=True)
                lin = None
                val = VA * VB
        except Exception as e:
            acc.fail('array:%s:raised' % pname, sub, '%s raised %s: %s' % (pname, type(e).__name__, e))
            continue
        bad = None
        # one call = one (vector-valued) function of ALL entries of A and B: every output entry is defined on the
        # union of the configurations of all inputs of the call; inputs that do not enter an entry have gradient 0
        all_ins = [RA[i] for i in np.ndindex(sha)] + [RB[i] for i in np.ndindex(shb)]
        posA = {i: k for k, i in enumerate(np.ndindex(sha))}
        posB = {i: len(posA) + k for k, i in enumerate(np.ndindex(shb))}
        for idx in np.ndindex(val.shape):
            gr = [0.0] * len(all_ins)
            if pname.startswith('matmul'):
                i, j = idx
                for k in range(sha[1]):
                    gr[posA[(i, k)]] += VB[k, j]
                    gr[posB[(k, j)]] += VA[i, k]
            else:
                gr[posA[idx]] += VB[idx]
                gr[posB[idx]] += VA[idx]
            exp = ref.r_propagate(val[idx], gr, all_ins)
            for nm, res in (('array_mode', direct), ('linalg.matmul', lin)):
                if res is None:
                    continue
                bad = compare_result(pe, res[idx], exp, None, 1e-10)
                if bad:
                    bad = '%s entry %s: %s' % (nm, idx, bad)
                    break
            if bad:
                break
        if bad:
            acc.fail('array:' + pname, sub, '%s with entry layouts (%s | %s): %s' % (pname, alpha.lname(lays[la]), alpha.lname(lays[lb]), bad))
        else:
            acc.ok((pname, la, lb), la != lb, 'array_mode')
    acc.sample({'kind': 'array', 'entries': [alpha.lname(lays[la]), alpha.lname(lays[lb])], 'programs': [p[0] for p in progs]})
