"""C06 Covariance and correlation matrices are consistent with the individual errors.

E-PROD: every k-subset (k=2..4 quick, ..7 thorough) of a pool of 19 analysed observables x analysis
parameters x correlation flag x every admissible smoothing parameter; all permutations for k<=4,
all <=2-transposition deviations beyond; helper functions against their definitions."""
import os
import copy
import math
import warnings
import itertools
import numpy as np
from mc import engine, alpha, ref, compare
from mc.engine import Acc

LEVEL = 'exploration'
RULE = ('full product: every k-subset of a 19-observable pool (same-configuration derived observables, nested / every-other / '
        'partly overlapping / disjoint single chains, two replicas, second ensemble, pure and mixed covariance inputs) for '
        'k=2..5 (quick) / 2..8 (thorough) x analysis parameters {default, S=0, tau_exp=3} x correlation {False, True} x every '
        'admissible smoothing E; all permutations (k<=4), all <=2-transposition deviations (k=5) or all single transpositions (k>=6) of each list; helpers '
        'invert_corr_cov_cholesky / sort_corr / _smooth_eigenvalues / error_band on every list where they apply.  Non-trivial = '
        'the list contains at least two observables with common support')
ASSUMPTIONS = ['Pearson reference is formed from the fluctuations keyed by configuration number on the common configurations (single-chain pairs)',
               'symmetry is demanded to 4 ulp (the final diag*corr*diag product is not bit-symmetric)']
EXHAUSTIVE = True
REPEAT = 1 if os.environ.get('VERIF_TIER') == 'thorough' else 2      # quick tier: every case twice in the same process (call-history oracle); the long thorough tier runs each case once
CHUNK = 1

PARAMS = [{}, {'S': 0}, {'tau_exp': 3}]


def enl(cid, reps=3):
    cfgs = alpha.CFG[cid]
    gap = min(b - a for a, b in zip(cfgs, cfgs[1:]))
    period = cfgs[-1] - cfgs[0] + gap
    return [c + k * period for k in range(reps) for c in cfgs]


_POOL = {}


def pool(pe, pi):
    key = (alpha.seed(), pi)
    if key in _POOL:
        return _POOL[key]

    def mk(lay, k, kind='white', mean=1.0):
        return alpha.make_obs(pe, lay, ('c06', k), kind, mean, 0.1)[0]
    full = enl('c12')
    p1 = mk({'A|r1': full}, 'p1')
    p2 = mk({'A|r1': full}, 'p2', 'ar1', 0.7)
    q = p1 * p2
    s = np.sin(p1) + 0.5 * p2
    n1 = mk({'A|r1': full[:20]}, 'n1', 'ar1')
    n2 = mk({'A|r1': full[::2]}, 'n2')
    n3 = mk({'A|r1': [c + 18 for c in full]}, 'n3')
    far = mk({'A|r1': [c + 500 for c in full[:12]]}, 'far')
    m1 = mk({'A|r1': full, 'A|r2': enl('irr', 2)}, 'm1')
    b1 = mk({'B|r1': enl('ev')}, 'b1')
    cv = pe.cov_Obs([0.8, 1.1], alpha.cov_matrix(2, True, 'cv2'), 'cv2')
    c0 = cv[0] * 1.0
    c1 = cv[1] ** 2 + cv[0]
    mix = p1 * cv[0] + b1
    m2 = mk({'A|r1': full, 'A|r2': enl('irr', 2)}, 'm2', 'ar1', 0.4)
    # m3: the fluctuations of m1 rescaled by a different positive factor on each replica (perfectly correlated with m1)
    m3 = pe.Obs([2.0 * (m1.deltas['A|r1'] + m1.r_values['A|r1']), 0.5 * (m1.deltas['A|r2'] + m1.r_values['A|r2'])], ['A|r1', 'A|r2'],
                idl=[m1.idl['A|r1'], m1.idl['A|r2']])
    # u, w: replicas with very different variances; w = u rescaled per replica the opposite way (perfectly correlated
    # replica by replica; any normalisation that is not replica-wise leaves [-1, 1])
    u1 = alpha.data('white', list(range(1, 21)), alpha.rng('c06', 'u1'), 1.0, 1.0)
    u2 = alpha.data('white', list(range(1, 31)), alpha.rng('c06', 'u2'), 1.0, 0.1)
    u = pe.Obs([u1, u2], ['A|r1', 'A|r2'])
    w = pe.Obs([0.1 * u1, 10.0 * u2], ['A|r1', 'A|r2'])
    e1 = mk({'A|r1': alpha.CFG['eqA']}, 'e1')
    e2 = mk({'A|r1': alpha.CFG['eqB']}, 'e2')
    obs = [p1, p2, q, s, n1, n2, n3, far, m1, b1, c0, c1, mix, m2, e1, e2, m3, u, w]
    names = ['p1', 'p2', 'q=p1*p2', 's=sin(p1)+p2/2', 'n1(prefix)', 'n2(every-other)', 'n3(shifted)', 'far(disjoint)',
             'm1(2 replicas)', 'b1(ens B)', 'c0(cov)', 'c1(cov)', 'mix(A,B,cov)', 'm2(2 replicas)', 'e1(eqA)', 'e2(eqB)', 'm3(m1 rescaled per replica)', 'u(2 replicas, unequal variance)', 'w(u rescaled per replica)']
    with warnings.catch_warnings():
        warnings.simplefilter('ignore')
        for o in obs:
            o.gamma_method(**PARAMS[pi])
    _POOL[key] = (obs, names)
    return _POOL[key]


SAME_CONFIG = {0, 1, 2, 3}            # all on A|r1 'full'
SINGLE_CHAIN = {0, 1, 2, 3, 4, 5, 6, 7, 14, 15}
NPOOL = 19
PURE_COV = {10, 11}


def support(o):
    return set(o.names)


def build(tier, seed):
    kmax = 4 if tier == 'quick' else 7
    cases = []
    for k in range(2, kmax + 1):
        combos = list(itertools.combinations(range(NPOOL), k))
        for i in range(0, len(combos), 6):
            cases.append({'kind': 'lists', 'lists': [list(c) for c in combos[i:i + 6]]})
    if tier == 'quick':   # smoothing needs k >= 5: all 5- and 6-subsets of the first eight pool members
        combos = list(itertools.combinations(range(8), 5)) + list(itertools.combinations(range(8), 6))
        for i in range(0, len(combos), 6):
            cases.append({'kind': 'lists', 'lists': [list(c) for c in combos[i:i + 6]]})
    cases.append({'kind': 'helpers'})
    cases.append({'kind': 'overlaps'})
    return cases


def pearson(ra, rb):
    (na, ca), = ra['chains'].items()
    (nb, cb), = rb['chains'].items()
    if na != nb:
        return 0.0
    common = sorted(set(ca) & set(cb))
    if not common:
        return 0.0
    sab = math.fsum(ca[c] * cb[c] for c in common)
    saa = math.fsum(ca[c] ** 2 for c in common)
    sbb = math.fsum(cb[c] ** 2 for c in common)
    if sab == 0:
        return 0.0
    return sab / math.sqrt(saa * sbb)


def perms_for(k):
    if k <= 4:
        return list(itertools.permutations(range(k)))
    out = [tuple(range(k))]
    idx = list(range(k))
    for i, j in itertools.combinations(range(k), 2):
        p = idx[:]
        p[i], p[j] = p[j], p[i]
        out.append(tuple(p))
    for (i, j), (m, n) in (itertools.combinations(list(itertools.combinations(range(k), 2)), 2) if k <= 5 else []):
        p = idx[:]
        p[i], p[j] = p[j], p[i]
        p[m], p[n] = p[n], p[m]
        out.append(tuple(p))
    return sorted(set(out))


def check_list(pe, acc, lst, pi, full_perms):
    obs, names = pool(pe, pi)
    ol = [obs[i] for i in lst]
    k = len(ol)
    sub = {'kind': 'lists', 'lists': [lst], 'pi': pi}
    tag = 'p%d' % pi
    with warnings.catch_warnings():
        warnings.simplefilter('ignore')
        try:
            cov = pe.covariance(ol)
            corr = pe.covariance(ol, correlation=True)
        except Exception as e:
            acc.fail('cov:raised', sub, 'covariance of %s raised %s: %s' % ([names[i] for i in lst], type(e).__name__, e))
            return
        errs = np.array([o.dvalue for o in ol])
        scale = np.outer(errs, errs)
        what = None
        if not np.all(np.abs(cov - cov.T) <= 4 * np.finfo(float).eps * scale):
            what = ('symmetry', 'covariance not symmetric: max asymmetry %g' % np.max(np.abs(cov - cov.T)))
        elif not np.allclose(np.diag(cov), errs ** 2, rtol=1e-12, atol=0):
            what = ('diagonal', 'diagonal %s != squared errors %s' % (np.diag(cov), errs ** 2))
        elif not np.allclose(np.diag(corr), 1.0, rtol=0, atol=1e-12):
            what = ('unit-diagonal', 'correlation diagonal %s' % np.diag(corr))
        elif not np.all(np.abs(corr) <= 1 + 1e-12):
            what = ('range', 'correlation entry outside [-1,1]: %g' % np.max(np.abs(corr)))
        elif not np.allclose(cov, corr * scale, rtol=1e-12, atol=1e-300):
            what = ('cov-vs-corr', 'covariance != diag(err) corr diag(err)')
        if what is None:
            for a in range(k):
                for b in range(a + 1, k):
                    ia, ib = lst[a], lst[b]
                    if not (support(ol[a]) & support(ol[b])):
                        if cov[a, b] != 0.0 or corr[a, b] != 0.0:
                            what = ('disjoint-support', 'observables %s, %s share no ensemble / covariance input but cov=%g' % (names[ia], names[ib], cov[a, b]))
                    elif ia in SINGLE_CHAIN and ib in SINGLE_CHAIN:
                        r = pearson(compare.to_ref(ol[a]), compare.to_ref(ol[b]))
                        if not abs(corr[a, b] - r) <= 1e-12:
                            what = ('pearson', 'corr(%s,%s)=%.15g, Pearson on common configurations %.15g' % (names[ia], names[ib], corr[a, b], r))
                    elif ia in PURE_COV and ib in PURE_COV:
                        ra, rb = compare.to_ref(ol[a]), compare.to_ref(ol[b])
                        S, ga = ra['cov']['cv2']
                        gb = rb['cov']['cv2'][1]
                        ex = float(ga @ S @ gb)
                        if not abs(cov[a, b] - ex) <= 1e-12 * abs(ex):
                            what = ('J-Sigma-J', 'cov(%s,%s)=%.15g, J1 Sigma J2^T=%.15g' % (names[ia], names[ib], cov[a, b], ex))
        if what is None and set(lst) <= SAME_CONFIG:
            ev = np.linalg.eigvalsh(cov)
            if ev[0] < -1e-12 * ev[-1]:
                what = ('psd', 'eigenvalues %s' % ev)
        if what:
            acc.fail('cov:%s:%s' % (what[0], tag), sub, 'list %s params %s: %s' % ([names[i] for i in lst], PARAMS[pi], what[1]))
            return
        nontrivial = any(support(a) & support(b) for a, b in itertools.combinations(ol, 2))
        acc.ok(('cov', tuple(lst), pi), nontrivial, 'matrix-ok')
        # permutation equivariance
        if full_perms:
            for p in perms_for(k):
                if p == tuple(range(k)):
                    continue
                cp = pe.covariance([ol[i] for i in p])
                exp = cov[np.ix_(p, p)]
                if not np.allclose(cp, exp, rtol=1e-12, atol=1e-14 * np.max(np.abs(cov))):
                    acc.fail('cov:permutation', dict(sub, perm=list(p)), 'list %s permuted by %s: matrix is not the permuted matrix (max diff %g)' % (
                        [names[i] for i in lst], p, np.max(np.abs(cp - exp))))
                    return
            acc.ok(('perm', tuple(lst)), nontrivial, 'permutations-ok')
        # smoothing: every admissible E
        if k >= 5:
            for E in range(-1, k + 2):
                admissible = 2 < E < k - 1
                try:
                    sm = pe.covariance(ol, correlation=True, smooth=E)
                    ok = True
                except Exception:
                    ok = False
                if admissible != ok:
                    if admissible:
                        acc.fail('smooth:raised', dict(sub, E=E), 'smoothing with admissible E=%d (n=%d) raised' % (E, k))
                    else:
                        acc.fail('smooth:accepted', dict(sub, E=E), 'smoothing with inadmissible E=%d (n=%d) accepted' % (E, k))
                    return
                if not ok:
                    continue
                bad = check_smoothing(corr, sm, E)
                if not bad:
                    # the same admissible E handed over as a numpy integer is the same request
                    for tp in (np.int64, np.int32, np.uint8):
                        try:
                            sm2 = pe.covariance(ol, correlation=True, smooth=tp(E))
                            if not np.array_equal(sm2, sm):
                                bad = ('integer-type', 'smooth=%s(%d) gives another matrix than smooth=%d (max difference %g)' % (tp.__name__, E, E, np.max(np.abs(sm2 - sm))))
                        except Exception as e:
                            bad = ('integer-type', 'smooth=%s(%d) raised %s: %s' % (tp.__name__, E, type(e).__name__, e))
                        if bad:
                            break
                if bad:
                    acc.fail('smooth:' + bad[0], dict(sub, E=E), 'list %s E=%d: %s' % ([names[i] for i in lst], E, bad[1]))
                    return
                acc.ok(('smooth', tuple(lst), pi, E), True, 'smoothing-ok')
        # Cholesky-based inverse
        if np.linalg.cond(corr) < 1e8 and np.linalg.eigvalsh(corr)[0] > 1e-8:   # helper documented for invertible (positive definite) matrices
            inverrdiag = np.diag(1 / errs)
            L = pe.obs.invert_corr_cov_cholesky(corr, inverrdiag)
            inv = np.linalg.inv(cov)
            if not np.allclose(L, np.tril(L)) or not np.allclose(L.T @ L, inv, rtol=1e-7, atol=1e-9 * np.max(np.abs(inv))):
                acc.fail('cholesky-inverse', sub, 'L^T L != inverse covariance for list %s (max diff %g)' % ([names[i] for i in lst], np.max(np.abs(L.T @ L - inv))))
                return
            acc.ok(('chol', tuple(lst), pi), True, 'cholesky-ok')


def check_smoothing(corr, sm, E):
    n = corr.shape[0]
    if not abs(np.trace(sm) - n) <= 1e-10 * n:
        return ('trace', 'trace %.15g != %d' % (np.trace(sm), n))
    if not np.allclose(sm, sm.T, atol=1e-12):
        return ('symmetry', 'smoothed matrix not symmetric')
    vals, vec = np.linalg.eigh(corr)
    # the eigen-directions are kept; the largest E eigenvalues keep their ratios; the others are raised to >= their mean
    lam_min = np.mean(vals[:-E])
    exp_vals = np.where(vals < lam_min, lam_min, vals)
    exp_vals = exp_vals / np.mean(exp_vals)
    exp = vec @ np.diag(exp_vals) @ vec.T
    if not np.allclose(sm, exp, atol=1e-10):
        return ('definition', 'smoothed matrix differs from the hep-lat/9412087 prescription by %g' % np.max(np.abs(sm - exp)))
    return None


def run_case(case):
    pe = engine.import_pyerrors()
    acc = Acc()
    if case['kind'] == 'lists':
        for lst in case['lists']:
            for pi in ([case['pi']] if 'pi' in case else range(len(PARAMS))):
                check_list(pe, acc, lst, pi, full_perms=(pi == 0))
        obs, names = pool(pe, 0)
        acc.sample({'kind': 'list', 'observables': [names[i] for i in case['lists'][-1]], 'params': PARAMS, 'correlation': [False, True]})
    elif case['kind'] == 'overlaps':
        run_overlaps(pe, acc, case)
    else:
        run_helpers(pe, acc, case)
    return acc


OVERLAP_BASES = {'contiguous': list(range(1, 31)), 'strided': list(range(2, 62, 2)), 'irregular': [1, 2, 4, 5, 7, 8, 11, 12, 14, 19, 20, 23, 25, 26, 30]}


def run_overlaps(pe, acc, case):
    """Two observables on one chain whose configuration lists have exactly m = 0, 1, 2, 3 configurations in common (at the end,
    at the start, in the interior), every carrier pair, every analysis parameter choice, both list orders: the correlation is the
    Pearson correlation of the fluctuations on the common configurations (+-1 for a single common configuration)."""
    for bname, base in OVERLAP_BASES.items():
        step = base[1] - base[0] if bname != 'irregular' else 1
        for m in (0, 1, 2, 3):
            partners = {
                'after': base[len(base) - m:] + [base[-1] + step * (i + 1) for i in range(12)],
                'before': [base[0] - step * (12 - i) for i in range(12)] + base[:m],
                'interior': sorted(base[5:5 + m] + [base[-1] + 7 + 3 * i for i in range(12)]),
            }
            for pname, other in partners.items():
                if other[0] < 1:
                    other = [c + 40 for c in other]
                    b2 = [c + 40 for c in base]
                else:
                    b2 = base
                for (ca, cb), scale in itertools.product(itertools.product(('auto', 'list'), repeat=2), (1.0, 1e-5, 1e-8, 1e6)):
                    if scale != 1.0 and (ca, cb) != ('auto', 'list'):
                        continue      # data of very small / large magnitude (the correlation does not depend on the scale): one carrier pair
                    a = pe.Obs([scale * alpha.data('ar1', b2, alpha.rng('c06ov', bname, m, pname, 'a'), 1.0, 0.1)], ['A|r1'], idl=[alpha.idl_carrier(b2, ca)])
                    b = pe.Obs([scale * alpha.data('white', other, alpha.rng('c06ov', bname, m, pname, 'b'), 0.5, 0.2)], ['A|r1'], idl=[alpha.idl_carrier(other, cb)])
                    for pi in range(len(PARAMS)):
                        sub = dict(case, base=bname, common=m, where=pname, carriers=[ca, cb], pi=pi, scale=scale)
                        if 'base' in case and (case['base'], case['common'], case['where'], case['carriers'], case['pi'], case.get('scale', 1.0)) != (bname, m, pname, [ca, cb], pi, scale):
                            continue
                        with warnings.catch_warnings():
                            warnings.simplefilter('ignore')
                            a.gamma_method(**PARAMS[pi])
                            b.gamma_method(**PARAMS[pi])
                            try:
                                corr = pe.covariance([a, b], correlation=True)
                                cov = pe.covariance([a, b])
                                covr = pe.covariance([b, a])
                            except Exception as e:
                                acc.fail('overlap:raised', sub, 'covariance of two observables with %d common configuration(s) (%s, %s) raised %s: %s' % (m, bname, pname, type(e).__name__, e))
                                continue
                        r = pearson(compare.to_ref(a), compare.to_ref(b))
                        bad = None
                        if len(set(b2) & set(other)) != m:
                            raise engine.MachineryError('overlap alphabet: %s %s %d' % (bname, pname, m))
                        if not abs(corr[0, 1] - r) <= 1e-12 or not abs(corr[1, 0] - r) <= 1e-12:
                            bad = 'correlation %.15g, Pearson correlation on the %d common configuration(s) %.15g' % (corr[0, 1], m, r)
                        elif not np.allclose(np.diag(corr), 1.0, atol=1e-12) or not np.allclose(np.diag(cov), [a.dvalue ** 2, b.dvalue ** 2], rtol=1e-12):
                            bad = 'diagonal: %s / %s' % (np.diag(corr), np.diag(cov))
                        elif not abs(cov[0, 1] - r * a.dvalue * b.dvalue) <= 1e-12 * a.dvalue * b.dvalue or not np.allclose(covr, cov[::-1, ::-1], rtol=1e-12, atol=1e-300):
                            bad = 'covariance %.15g, expected %.15g; reversed list %s' % (cov[0, 1], r * a.dvalue * b.dvalue, covr.tolist())
                        if bad:
                            acc.fail('overlap:pearson', sub, '%s chain (data scaled by %g), partner %s with %d common configuration(s), carriers %s/%s, params %s: %s' % (bname, scale, pname, m, ca, cb, PARAMS[pi], bad))
                        else:
                            acc.ok(('ov', bname, m, pname, ca, cb, pi, scale), True, 'overlap-ok')
    # observables without error (constant data, an external input with variance zero) among the list members, at every position:
    # the rest of the matrix is the matrix of the list without them, their rows and columns are zero, the statements about the
    # diagonal hold
    full = OVERLAP_BASES['contiguous']
    a = pe.Obs([alpha.data('ar1', full, alpha.rng('c06z', 'a'), 1.0, 0.1)], ['A|r1'], idl=[alpha.idl_carrier(full)])
    b = pe.Obs([alpha.data('white', full, alpha.rng('c06z', 'b'), 0.5, 0.2)], ['A|r1'], idl=[alpha.idl_carrier(full)]) + 0.4 * a
    cq = pe.cov_Obs(0.7, 0.04, 'cz1') * 1.0
    zs = {'constant-data': pe.Obs([np.full(len(full), 2.5)], ['A|r1'], idl=[alpha.idl_carrier(full)]), 'zero-variance-input': pe.cov_Obs(1.0, 0.0, 'cz0'),
          'constant-on-other-ensemble': pe.Obs([np.full(8, -1.0)], ['Z|r1'])}
    with warnings.catch_warnings():
        warnings.simplefilter('ignore')
        for o in [a, b, cq] + list(zs.values()):
            o.gamma_method()
        base = [a, b, cq]
        ref_cov, ref_corr = pe.covariance(base), pe.covariance(base, correlation=True)
        for zn, z in zs.items():
            for pos in range(len(base) + 1):
                lst = base[:pos] + [z] + base[pos:]
                keep = [i for i in range(len(lst)) if i != pos]
                sub = dict(case, zero=zn, pos=pos)
                try:
                    cov, corr = pe.covariance(lst), pe.covariance(lst, correlation=True)
                except Exception as e:
                    acc.fail('cov:zero-error-member', sub, 'list with a %s observable at position %d raised %s: %s' % (zn, pos, type(e).__name__, e))
                    continue
                bad = None
                if not np.allclose(cov[np.ix_(keep, keep)], ref_cov, rtol=1e-12, atol=0) or not np.allclose(corr[np.ix_(keep, keep)], ref_corr, rtol=1e-12, atol=1e-15):
                    bad = 'the entries of the other observables changed: %s instead of %s' % (cov[np.ix_(keep, keep)].tolist(), ref_cov.tolist())
                elif not np.all(cov[pos, :] == 0.0) or not np.all(cov[:, pos] == 0.0):
                    bad = 'row / column of the observable without error: %s' % cov[pos, :].tolist()
                elif not np.allclose(np.diag(corr), 1.0, atol=1e-12) or not np.all(np.abs(corr) <= 1 + 1e-12) or not np.all(corr[pos, keep] == 0.0):
                    bad = 'correlation matrix %s' % corr.tolist()
                if bad:
                    acc.fail('cov:zero-error-member', sub, 'list with a %s observable (error 0) at position %d: %s' % (zn, pos, bad))
                else:
                    acc.ok(('zero', zn, pos), True, 'zero-error-member-ok')
        # eigenvalue smoothing of a list that contains an observable without error: the smoothing acts on the correlation matrix of
        # the list (unit diagonal, zero row / column for that member), trace preserved
        mem = [a, b, a * b, np.sin(a) + 0.3 * b, a - 0.5 * b * b, b / (1.0 + a)]
        for o in mem:
            o.gamma_method()
        for zn, z in zs.items():
            if zn == 'zero-variance-input':
                continue       # (a list with an external input has more samples than members: nothing special)
            for pos in (0, 2, 5):
                for k in (5, 6):
                    lst = mem[:k]
                    lst = lst[:pos] + [z] + lst[pos:] if pos < k else lst + [z]
                    corr = pe.covariance(lst, correlation=True)
                    for E in range(3, len(lst) - 1):
                        sub = dict(case, zero=zn, pos=pos, k=len(lst), E=E)
                        try:
                            sm = pe.covariance(lst, correlation=True, smooth=E)
                            bad = check_smoothing(corr, sm, E)
                            bad = bad and '%s: %s' % bad
                        except Exception as e:
                            bad = 'raised %s: %s' % (type(e).__name__, e)
                        if bad:
                            acc.fail('smooth:zero-error-member', sub, 'list of %d with a %s observable at position %d, E=%d: %s' % (len(lst), zn, pos, E, bad))
                        else:
                            acc.ok(('zsm', zn, pos, len(lst), E), True, 'smoothing-ok')
    # several external inputs, observables built on different subsets of them, every pair / triple in every order: J1 Sigma J2^T
    # summed over the SHARED inputs
    cA = pe.cov_Obs(1.1, 0.04, 'ciA')
    cB = pe.cov_Obs([0.7, 1.9], [[0.09, 0.02], [0.02, 0.16]], 'ciB')
    cC = pe.cov_Obs(2.3, 0.25, 'ciC')
    cD = pe.cov_Obs([1.0, 0.5, 2.0], alpha.cov_matrix(3, True, 'ciD'), 'ciD')
    fam = {'f(A,B)': cA * cB[0] + cB[1], 'g(B,C)': cB[0] / cC + cB[1] * cB[1], 'h(A,C)': cA - 2.0 * cC, 'k(C)': np.exp(0.2 * cC), 'l(A,B,C)': cA * cB[1] * cC,
           'm(D,A)': cD[0] * cD[2] + cA, 'n(B,D)': cB[0] - cD[1] * cD[2], 'p(D)': cD[1] + 0.5 * cD[0]}
    for o in fam.values():
        o.gamma_method()
    refs = {k: compare.to_ref(v) for k, v in fam.items()}

    def jsj(x, y):
        tot = 0.0
        for nm in set(refs[x]['cov']) & set(refs[y]['cov']):
            S, gx = refs[x]['cov'][nm]
            gy = refs[y]['cov'][nm][1]
            tot += float(np.ravel(gx) @ np.asarray(S) @ np.ravel(gy))
        return tot
    keys = list(fam)
    for k in (2, 3):
        for lst in itertools.permutations(keys, k):
            sub = dict(case, members=list(lst))
            try:
                with warnings.catch_warnings():
                    warnings.simplefilter('ignore')
                    cov = pe.covariance([fam[x] for x in lst])
            except Exception as e:
                acc.fail('cov:external-subsets:raised', sub, 'covariance of %s raised %s: %s' % (list(lst), type(e).__name__, e))
                continue
            exp = np.array([[jsj(x, y) for y in lst] for x in lst])
            if not np.allclose(cov, exp, rtol=1e-10, atol=1e-14):
                i, j = np.unravel_index(np.argmax(np.abs(cov - exp)), cov.shape)
                acc.fail('cov:external-subsets', sub, 'list %s: cov(%s, %s) = %.12g, J1 Sigma J2^T over the shared inputs = %.12g' % (list(lst), lst[i], lst[j], cov[i, j], exp[i, j]))
            else:
                acc.ok(('ext', lst), True, 'external-subsets-ok')
    acc.sample({'kind': 'overlaps', 'bases': sorted(OVERLAP_BASES), 'common': [0, 1, 2, 3], 'where': ['after', 'before', 'interior']})


def run_helpers(pe, acc, case):
    import autograd.numpy as anp
    # sort_corr: explicit permutation, for every key order of up to 4 keys with block sizes 1..3
    r = alpha.rng('c06sort')
    for nk in (1, 2, 3, 4):
        for sizes in itertools.product((1, 2, 3), repeat=nk):
            keys = ['k%d' % i for i in range(nk)]
            for kl in itertools.permutations(keys):
                yd = {k: list(range(s)) for k, s in zip(keys, sizes)}
                n = sum(sizes)
                a = r.normal(size=(n, n))
                corr = a @ a.T
                kl_arg = list(kl)
                got = pe.obs.sort_corr(corr, kl_arg, yd)
                if kl_arg != list(kl) or not np.array_equal(pe.obs.sort_corr(corr, kl_arg, yd), got):
                    acc.fail('sort_corr:argument-changed', dict(case, kl=list(kl), sizes=list(sizes)), 'sort_corr changed the key list it was given (%s -> %s) or gives another matrix when called again with the same objects' % (list(kl), kl_arg))
                    continue
                pos = {}
                ofs = 0
                for k in kl:
                    pos[k] = list(range(ofs, ofs + len(yd[k])))
                    ofs += len(yd[k])
                mapping = [i for k in sorted(kl) for i in pos[k]]
                exp = corr[np.ix_(mapping, mapping)]
                if not np.array_equal(got, exp):
                    acc.fail('sort_corr', dict(case, kl=list(kl), sizes=list(sizes)), 'sort_corr with key order %s sizes %s is not the corresponding permutation' % (kl, sizes))
                else:
                    acc.ok(('sort', kl, sizes), tuple(kl) != tuple(sorted(kl)), 'sort_corr-ok')
    # a scaled and shifted copy is perfectly (anti-)correlated with the original, for every kind of observable
    for pi in range(len(PARAMS)):
        obs, names = pool(pe, pi)
        for i, o in enumerate(obs):
            for c in (2.5, -0.4):
                p = c * o - 1.0
                p.gamma_method(**PARAMS[pi])
                with warnings.catch_warnings():
                    warnings.simplefilter('ignore')
                    cov = pe.covariance([o, p])
                    corr = pe.covariance([o, p], correlation=True)
                exact = i in SINGLE_CHAIN or i in PURE_COV     # Pearson / J Sigma J^T clauses imply exactly +-1 there
                if exact:
                    bad = not abs(corr[0, 1] - np.sign(c)) <= 1e-12 or not abs(cov[0, 1] - c * o.dvalue ** 2) <= 1e-10 * abs(c) * o.dvalue ** 2
                else:                                          # elsewhere only the stated range [-1, 1] is demanded
                    bad = not abs(corr[0, 1]) <= 1 + 1e-12
                if bad:
                    acc.fail('cov:scaled-copy', dict(case, i=i, c=c, pi=pi), 'observable %s and %g * itself - 1: correlation %r, covariance %r (expected %s)' % (
                        names[i], c, corr[0, 1], cov[0, 1], '%r, %r' % (np.sign(c), c * o.dvalue ** 2) if exact else 'within [-1,1]'))
                else:
                    acc.ok(('scaled', i, c, pi), True, 'scaled-copy')
    # error_band = sqrt(g^T C g)
    for pi in range(len(PARAMS)):
        obs, names = pool(pe, pi)
        for idx, scale in itertools.product(([0, 1], [0, 1, 2], [0, 9, 10], [4, 5, 6], [12, 11, 2, 8]), (1.0, 3.0e4, 1.0e-5)):
            # scaled parameters: covariance entries so large that their last-bit asymmetry exceeds any absolute threshold, and tiny ones
            beta = [obs[i] for i in idx]
            if scale != 1.0:
                beta = [scale * (k + 1) * o for k, o in enumerate(beta)]
                for o in beta:
                    o.gamma_method(**PARAMS[pi])
            funcs = {2: lambda p, x: p[0] + p[1] * x, 3: lambda p, x: p[0] + p[1] * x + p[2] * anp.exp(-x), 4: lambda p, x: p[0] * anp.sin(p[1] * x) + p[2] * x ** 2 / p[3]}
            grads = {2: lambda p, x: np.array([1.0, x]), 3: lambda p, x: np.array([1.0, x, np.exp(-x)]),
                     4: lambda p, x: np.array([np.sin(p[1] * x), p[0] * x * np.cos(p[1] * x), x ** 2 / p[3], -p[2] * x ** 2 / p[3] ** 2])}
            xs = np.array([0.0, 0.5, 1.7, 3.0])
            with warnings.catch_warnings():
                warnings.simplefilter('ignore')
                band = pe.fits.error_band(xs, funcs[len(idx)], beta)
                C = pe.covariance(beta)
            pv = [o.value for o in beta]
            exp = np.array([math.sqrt(max(0.0, grads[len(idx)](pv, x) @ C @ grads[len(idx)](pv, x))) for x in xs])
            if not np.allclose(band, exp, rtol=1e-10, atol=1e-14 * scale):
                acc.fail('error_band', dict(case, idx=idx, pi=pi, scale=scale), 'error band %s != sqrt(g^T C g) %s' % (band, exp))
            else:
                acc.ok(('band', tuple(idx), pi, scale), True, 'error_band-ok')
    # the covariance of purely external inputs is J1 Sigma J2^T for the Sigma that was passed in - also after the caller has
    # re-used (modified in place) the array it passed, and also in a second call
    for dim in (2, 3):
        S0 = np.array(alpha.cov_matrix(dim, True, 'c06alias'), dtype=float)
        for form in ('ndarray', 'list'):
            S = S0.copy() if form == 'ndarray' else [list(row) for row in S0]
            cl = pe.cov_Obs([1.0 + i for i in range(dim)], S, 'cval%d%s' % (dim, form))
            a, b = cl[0] * 2.0 + cl[dim - 1], cl[0] - 3.0 * cl[1]
            J = np.zeros((2, dim))
            J[0, 0], J[0, dim - 1] = J[0, 0] + 2.0, J[0, dim - 1] + 1.0
            J[1, 0], J[1, 1] = J[1, 0] + 1.0, J[1, 1] - 3.0
            exp = J @ S0 @ J.T
            bad = None
            for step in ('first call', 'second call', 'after the caller modified its array'):
                if step.startswith('after'):
                    if form == 'ndarray':
                        S *= 4.0
                        S[0, 1] = S[1, 0] = 0.0
                    else:
                        S[0][0] = 99.0
                try:
                    [x.gamma_method() for x in (a, b)]
                    got = pe.covariance([a, b])
                    if not np.allclose(got, exp, rtol=1e-12, atol=0):
                        bad = '%s: covariance %s, J Sigma J^T = %s' % (step, got.tolist(), exp.tolist())
                except Exception as e:
                    bad = '%s: raised %s: %s' % (step, type(e).__name__, e)
                if bad:
                    break
            if bad:
                acc.fail('cov:external-input-aliasing', dict(case, dim=dim, form=form), 'covariance input of dimension %d given as %s: %s' % (dim, form, bad))
            else:
                acc.ok(('cov-alias', dim, form), True, 'external-input-history')
    acc.sample({'kind': 'helpers', 'sort_corr': 'all key orders of 1..4 keys x block sizes 1..3', 'error_band': '5 parameter lists x 3 analysis settings'})
