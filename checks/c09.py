"""C09 Roots and integrals of observable-dependent functions propagate errors exactly.

E-PROD: root families x guesses x layouts of d; integrand families x every subset of
{parameters, limits} being observables x layouts.  Oracle: closed-form inverse / antiderivative,
evaluated through the reference model (mc.ref.r_propagate) and through pyerrors arithmetic."""
import os
import math
import warnings
import itertools
import numpy as np
from mc import engine, alpha, ref, compare
from mc.engine import Acc

LEVEL = 'exploration'
RULE = ('full product: roots of x^2-d, x^3-d, exp(x)-d, log(x)-d, tanh(x)-d, x^3+x-d and the two-component d0*x-d1 and the three-component d0*x^2+d1*x-d2 x guesses '
        'on both sides of the root x layouts of d {single chain, two replicas irregular, two ensembles, with covariance input, '
        'pure covariance input}, d with central value exactly 0 (covariance input, symmetric samples, first component of a vector); integrals of p0+p1 x+p2 x^2, exp(p0 x), sin(p0 x), cos(p0 x)+p1, p0/(1+x^2), p0 x exp(-p1 x^2), p0/(p1+x) x every subset of '
        '{every parameter, a, b} being observables (2^k subsets) x assignment of layouts to the observable slots {all equal, different '
        'configuration subsets, different ensembles, covariance inputs} x orientation a<b and a>b; no observable => scipy\'s '
        'tuple; call history: three functions sharing one code object (factory closures, lambda in a loop) for find_root (scalar and vector d) and quad, called in every order x 3 layouts; the trigonometric integrals again through quad(weight=cos|sin, wvar) with observable parameters.  Non-trivial = at least one observable and not (single chain, equal layouts)')
ASSUMPTIONS = ['closed-form inverses / antiderivatives and their partial derivatives are written out in this file',
               'comparison of a flat reference propagation with the implementation to 1e-8 (root finder / quadrature tolerance)']
EXHAUSTIVE = True
REPEAT = 2      # every case is evaluated twice in the same process: the second verdict must equal the first (call-history oracle)
CHUNK = 1

D_LAYOUTS = {
    'single': lambda pe, key, val: alpha.make_obs(pe, {'A|r1': 'c12'}, key, 'white', val, 0.02 * abs(val))[0],
    'tworep': lambda pe, key, val: alpha.make_obs(pe, {'A|r1': 'irr', 'A|r2': 'ev'}, key, 'ar1', val, 0.02 * abs(val))[0],
    'twoens': lambda pe, key, val: (alpha.make_obs(pe, {'A|r1': 'c8'}, (key, 'a'), 'white', val ** 0.5 if val > 0 else 1.0, 0.01)[0] *
                                    alpha.make_obs(pe, {'B|r1': 's3'}, (key, 'b'), 'white', val ** 0.5 if val > 0 else val, 0.01)[0]),
    'withcov': lambda pe, key, val: alpha.make_obs(pe, {'A|r1': 'c8'}, key, 'white', 1.0, 0.02)[0] * pe.cov_Obs(val, (0.03 * val) ** 2, 'cv1'),
    'purecov': lambda pe, key, val: pe.cov_Obs(val, (0.03 * val) ** 2, 'cv1'),
}


def anp():
    import autograd.numpy as a
    return a


# name -> (func(x,d), d value, inverse(d)->x, dx/dd(x,d), guesses)
def root_families():
    a = anp()
    return {
        'x^2-d': (lambda x, d: x ** 2 - d, 1.7, lambda d: math.sqrt(d), lambda x, d: 1 / (2 * x), [0.5, 1.0, 3.0]),
        'x^3-d': (lambda x, d: x ** 3 - d, 2.2, lambda d: d ** (1 / 3), lambda x, d: 1 / (3 * x * x), [0.7, 2.5]),
        'exp(x)-d': (lambda x, d: a.exp(x) - d, 2.5, lambda d: math.log(d), lambda x, d: 1 / d, [0.0, 2.0]),
        'log(x)-d': (lambda x, d: a.log(x) - d, 0.6, lambda d: math.exp(d), lambda x, d: math.exp(d), [1.0, 3.0]),
        'tanh(x)-d': (lambda x, d: a.tanh(x) - d, 0.45, lambda d: math.atanh(d), lambda x, d: 1 / (1 - d * d), [0.1, 1.5]),
        'x^3+x-d': (lambda x, d: x ** 3 + x - d, 2.0, lambda d: 1.0, lambda x, d: 1 / (3 * x * x + 1), [0.3, 2.0]),
    }


def build(tier, seed):
    cases = []
    for fam in root_families():
        for lay in D_LAYOUTS:
            cases.append({'kind': 'root', 'fam': fam, 'lay': lay})
    cases.append({'kind': 'root-vector'})
    cases.append({'kind': 'root-zero'})
    cases.append({'kind': 'root-far-guess'})
    cases.append({'kind': 'root-scale'})
    cases.append({'kind': 'quad-options'})
    # call history: functions that share their code object (closures from one factory, a lambda in a loop) called one after
    # the other in every order -- a result must depend on the function passed, not on what was passed before
    for order in itertools.permutations(range(3)):
        cases.append({'kind': 'root-factory', 'order': list(order)})
        cases.append({'kind': 'quad-factory', 'order': list(order)})
    for w in ('cos', 'sin'):
        cases.append({'kind': 'quad-weight', 'weight': w})
    for integ in INTEGRANDS:
        cases.append({'kind': 'quad', 'integrand': integ})
    return cases


def run_case(case):
    pe = engine.import_pyerrors()
    acc = Acc()
    with warnings.catch_warnings():
        warnings.simplefilter('ignore')
        if case['kind'] == 'root':
            run_root(pe, acc, case)
        elif case['kind'] == 'root-vector':
            run_root_vector(pe, acc, case)
        elif case['kind'] == 'root-zero':
            run_root_zero(pe, acc, case)
        elif case['kind'] == 'root-factory':
            run_root_factory(pe, acc, case)
        elif case['kind'] == 'quad-factory':
            run_quad_factory(pe, acc, case)
        elif case['kind'] == 'quad-weight':
            run_quad_weight(pe, acc, case)
        elif case['kind'] == 'root-far-guess':
            run_root_far_guess(pe, acc, case)
        elif case['kind'] == 'root-scale':
            run_root_scale(pe, acc, case)
        elif case['kind'] == 'quad-options':
            run_quad_options(pe, acc, case)
        else:
            run_quad(pe, acc, case)
    return acc


def run_root_far_guess(pe, acc, case):
    """exp(-x) = d with a very small d (root near 20.7) from guesses on the flat side of the function: what comes back is a root
    (f(x, d) = 0 at the central values, fluctuations of the inverse function) - or the request is refused."""
    a_ = anp()
    for lay in ('single', 'purecov'):
        d = D_LAYOUTS[lay](pe, ('c09far', lay), 1.0) * 1e-9
        rd = compare.to_ref(d)
        xv = -math.log(rd['value'])
        exp = ref.r_propagate(xv, [-1.0 / rd['value']], [rd])
        for g in (1.0, 19.0, 22.0, 25.0, 30.0):
            sub = dict(case, lay=lay, guess=g)
            try:
                x = pe.roots.find_root(d, lambda x, dd: a_.exp(-x) - dd, guess=g)
            except Exception:
                acc.ok(('rootfar', lay, g), True, 'root-refused')
                continue
            bad = ref.close(exp, compare.to_ref(x), 1e-6)
            if bad:
                acc.fail('root:not-a-root:guess=%g' % g, sub, 'exp(-x) = d with d = %.3g from guess %g: returned %r, f(x, d) = %.3g (the root is %.6f): %s' % (rd['value'], g, x.value, math.exp(-x.value) - rd['value'], xv, bad))
            else:
                acc.ok(('rootfar', lay, g), True, 'root')
    acc.sample(dict(case, guesses=[1.0, 19.0, 22.0, 25.0, 30.0]))


def run_root_scale(pe, acc, case):
    """Explicitly invertible functions whose data, root and slope df/dx have very small or very large magnitude: the rule
    -(df/dd)/(df/dx) does not depend on the units."""
    a_ = anp()
    for lay in ('single', 'purecov'):
        for scale in (1.0, 1e-27, 1e27):
            d = D_LAYOUTS[lay](pe, ('c09scale', lay), 2.0) * scale
            rd = compare.to_ref(d)
            xv = rd['value'] ** (1.0 / 3.0)
            exp = ref.r_propagate(xv, [rd['value'] ** (-2.0 / 3.0) / 3.0], [rd])
            sub = dict(case, lay=lay, function='x**3-d', scale=scale)
            try:
                x = pe.roots.find_root(d, lambda x, dd: x ** 3 - dd, guess=1.2 * xv)
                bad = ref.close(exp, compare.to_ref(x), 1e-6)
            except Exception as e:
                bad = 'raised %s: %s' % (type(e).__name__, e)
            if bad:
                acc.fail('root-scale:x^3-d', sub, 'x**3 = d with d of order %g: %s' % (scale, bad))
            else:
                acc.ok(('rootscale', 'cube', lay, scale), True, 'root-scale')
        for s0, s1 in ((1.0, 1.0), (1e-17, 1e-17), (1e-20, 1e-9), (1e12, 1e3)):
            d0 = D_LAYOUTS[lay](pe, ('c09scale0', lay), 1.3) * s0
            d1 = D_LAYOUTS['single'](pe, ('c09scale1', lay), 2.1) * s1     # with lay 'purecov': a covariance input next to Monte-Carlo data
            r0, r1 = compare.to_ref(d0), compare.to_ref(d1)
            xv = r1['value'] / r0['value']
            exp = ref.r_propagate(xv, [-r1['value'] / r0['value'] ** 2, 1.0 / r0['value']], [r0, r1])
            sub = dict(case, lay=lay, function='d0*x-d1', scales=[s0, s1])
            try:
                x = pe.roots.find_root([d0, d1], lambda x, dd: dd[0] * x - dd[1], guess=1.1 * xv)
                bad = ref.close(exp, compare.to_ref(x), 1e-6)
                if not bad:
                    bad = ref.close(compare.to_ref(d1 / d0), compare.to_ref(x), 1e-6)
            except Exception as e:
                bad = 'raised %s: %s' % (type(e).__name__, e)
            if bad:
                acc.fail('root-scale:d0*x-d1', sub, 'd0 x = d1 with d0, d1 of order %g, %g: %s' % (s0, s1, bad))
            else:
                acc.ok(('rootscale', 'lin', lay, s0, s1), True, 'root-scale')
    acc.sample(dict(case, cube_scales=[1.0, 1e-27, 1e27], linear_scales=[[1.0, 1.0], [1e-17, 1e-17], [1e-20, 1e-9], [1e12, 1e3]]))


def run_quad_options(pe, acc, case):
    """scipy's accuracy options are handed on as given (a purely relative request epsabs=0 included) for integrands of order one and of order
    1e-10: same numbers as scipy without observables, the antiderivative with observables."""
    import scipy.integrate
    a_ = anp()
    f = lambda p, x: p[0] * a_.cos(p[1] * x)        # noqa: E731
    F = lambda p0, p1, x: p0 * math.sin(p1 * x) / p1        # noqa: E731
    lo, hi = 0.2, 10.0
    options = [{}, {'epsabs': 0, 'epsrel': 1e-10, 'limit': 200}, {'epsabs': 0.0}, {'epsabs': 1e-13, 'epsrel': 1e-10, 'limit': 200}, {'epsabs': 0, 'epsrel': 1e-9, 'limit': 300, 'points': None}]
    for amp in (1.0, 1e-10, 1e8):
        p0 = D_LAYOUTS['single'](pe, ('c09qo', 0), 1.3) * amp
        p1 = alpha.make_obs(pe, {'B|r1': 's3'}, ('c09qo', 1), 'white', 30.0, 0.05)[0]
        r0, r1 = compare.to_ref(p0), compare.to_ref(p1)
        v0, v1 = r0['value'], r1['value']
        val = F(v0, v1, hi) - F(v0, v1, lo)
        dI0 = (math.sin(v1 * hi) - math.sin(v1 * lo)) / v1
        dI1 = v0 * ((hi * math.cos(v1 * hi) - lo * math.cos(v1 * lo)) / v1 - (math.sin(v1 * hi) - math.sin(v1 * lo)) / v1 ** 2)
        for oi, opts in enumerate(options):
            if amp != 1.0 and 'epsabs' not in opts:
                continue        # the default absolute accuracy 1.49e-8 is not meant for an integrand of order 1e-10
            if amp == 1e8 and opts.get('epsabs'):
                continue
            sub = dict(case, amplitude=amp, options={k: repr(v) for k, v in opts.items()})
            try:
                plain = pe.integrate.quad(f, [v0, v1], lo, hi, **opts)
                sc = scipy.integrate.quad(lambda x: f([v0, v1], x), lo, hi, **opts)
                if not (plain[0] == sc[0] and plain[1] == sc[1]):
                    acc.fail('quad-options:plain', sub, 'without observables %r (error estimate %r), scipy with the same options %r (%r)' % (plain[0], plain[1], sc[0], sc[1]))
                    continue
                res = pe.integrate.quad(f, [p0, p1], lo, hi, **opts)[0]
                exp = ref.r_propagate(val, [dI0, dI1], [r0, r1])
                bad = ref.close(exp, compare.to_ref(res), 1e-6)
                if not bad and not abs(res.value - val) <= 1e-7 * abs(v0) / v1:
                    bad = 'value %.12g, antiderivative %.12g' % (res.value, val)
            except Exception as e:
                bad = 'raised %s: %s' % (type(e).__name__, e)
            if bad:
                acc.fail('quad-options:obs', sub, 'integral of p0 cos(p1 x), amplitude %g, options %r: %s' % (amp, opts, bad))
            else:
                acc.ok(('quadopt', amp, oi), True, 'quad-options')
    acc.sample(dict(case, amplitudes=[1.0, 1e-10, 1e8], options=[repr(o) for o in options]))


def run_root(pe, acc, case):
    func, dval, inverse, dxdd, guesses = root_families()[case['fam']]
    d = D_LAYOUTS[case['lay']](pe, ('c09', case['fam'], case['lay']), dval)
    rd = compare.to_ref(d)
    xv = inverse(rd['value']) if case['fam'] != 'x^3+x-d' else _newton(lambda x: x ** 3 + x - rd['value'], lambda x: 3 * x * x + 1, 1.0)
    exp = ref.r_propagate(xv, [dxdd(xv, rd['value'])], [rd])
    for g in guesses:
        sub = dict(case, guess=g)
        try:
            x = pe.roots.find_root(d, func, guess=g)
        except Exception as e:
            acc.fail('root:raised', sub, 'find_root(%s, d on %s, guess %g) raised %s: %s' % (case['fam'], case['lay'], g, type(e).__name__, e))
            continue
        bad = ref.close(exp, compare.to_ref(x), 1e-8) if isinstance(x, pe.Obs) else 'result is %s' % type(x).__name__
        if not bad and case['fam'] in ('x^2-d', 'exp(x)-d', 'log(x)-d', 'tanh(x)-d'):
            direct = {'x^2-d': np.sqrt, 'exp(x)-d': np.log, 'log(x)-d': np.exp, 'tanh(x)-d': np.arctanh}[case['fam']](d)
            bad = ref.close(dict(compare.to_ref(direct)), compare.to_ref(x), 1e-8)
            if bad:
                bad = 'differs from the inverse applied directly: ' + bad
        if bad:
            acc.fail('root:%s' % case['fam'], sub, 'find_root(%s), d on %s, guess %g: %s' % (case['fam'], case['lay'], g, bad))
        else:
            acc.ok(('root', case['fam'], case['lay'], g), case['lay'] != 'single', 'root')
    acc.sample({'kind': 'root', 'family': case['fam'], 'd_layout': case['lay'], 'guesses': guesses})


def run_root_zero(pe, acc, case):
    """d with central value exactly zero (covariance input with mean 0, symmetric samples, first component of a vector)"""
    a = anp()
    sym = np.array([0.3, -0.3, 0.1, -0.1, 0.25, -0.25, 0.05, -0.05])
    ds = {'cov0': pe.cov_Obs(0.0, 0.04 ** 2, 'cvz'), 'symmetric-samples': pe.Obs([sym], ['A|r1']),
          'two-replicas': pe.Obs([sym, -2 * sym[:6]], ['A|r1', 'A|r2'])}
    fams = {'tanh(x)-d': (lambda x, d: a.tanh(x) - d, lambda x: 1.0), 'x^3+x-d': (lambda x, d: x ** 3 + x - d, lambda x: 1.0),
            'sinh(2x)-d': (lambda x, d: a.sinh(2 * x) - d, lambda x: 0.5)}
    for dn, d in ds.items():
        rd = compare.to_ref(d)
        if rd['value'] != 0.0:
            raise engine.MachineryError('zero-valued d expected, got %r' % rd['value'])
        for fn, (f, dxdd) in fams.items():
            for g in (0.3, -0.2):
                sub = dict(case, d=dn, fam=fn, guess=g)
                try:
                    x = pe.roots.find_root(d, f, guess=g)
                except Exception as e:
                    acc.fail('root-zero:raised', sub, 'find_root(%s) with d = 0 (%s) raised %s: %s' % (fn, dn, type(e).__name__, e))
                    continue
                exp = ref.r_propagate(0.0, [dxdd(0.0)], [rd])
                exp['scale'] = max(exp['scale'], 1e-3)
                got = compare.to_ref(x)
                bad = ('value %r' % got['value']) if not abs(got['value']) < 1e-10 else ref.close(dict(exp, value=got['value']), got, 1e-8)
                if bad:
                    acc.fail('root-zero', sub, 'root of %s for d with central value 0 (%s): %s' % (fn, dn, bad))
                else:
                    acc.ok(('rootz', dn, fn, g), True, 'root-zero')
    # vector d whose FIRST component vanishes: root of d0*x^2 + d1*x - d2 with d0 = 0 is d2/d1
    d0 = pe.cov_Obs(0.0, 0.03 ** 2, 'cvz')
    d1 = alpha.make_obs(pe, {'A|r1': 'c12'}, ('c09z', 1), 'white', 1.4, 0.03)[0]
    d2 = alpha.make_obs(pe, {'B|r1': 's3'}, ('c09z', 2), 'white', 2.1, 0.03)[0]
    rs = [compare.to_ref(d) for d in (d0, d1, d2)]
    xv = rs[2]['value'] / rs[1]['value']
    den = rs[1]['value']
    exp = ref.r_propagate(xv, [-xv * xv / den, -xv / den, 1.0 / den], rs)
    try:
        x = pe.roots.find_root([d0, d1, d2], lambda x, d: d[0] * x ** 2 + d[1] * x - d[2], guess=1.0)
        bad = ref.close(exp, compare.to_ref(x), 1e-8)
    except Exception as e:
        bad = 'raised %r' % e
    if bad:
        acc.fail('root-zero:vector', dict(case, what='vector'), 'vector d with vanishing first component: %s' % bad)
    else:
        acc.ok('rootz-vector', True, 'root-zero')
    acc.sample({'kind': 'root-zero', 'd': list(ds), 'families': list(fams)})


def run_root_factory(pe, acc, case):
    a = anp()

    def make(pw, k):
        return lambda x, d: k * x ** pw - d

    def make_vec(k):
        return lambda x, d: a.exp(k * x) * d[0] - d[1]
    params = [(2, 1.0), (3, 0.5), (1.5, 2.0)]
    fs = [make(pw, k) for pw, k in params]
    vks = [0.5, 1.0, 2.0]
    vfs = [make_vec(k) for k in vks]
    loop = [lambda x, d, q=q: x ** 3 + q * x - d for q in (1.0, 2.0, 4.0)]
    if not (fs[0].__code__ is fs[1].__code__ and vfs[0].__code__ is vfs[2].__code__ and loop[0].__code__ is loop[1].__code__):
        raise engine.MachineryError('factory functions do not share their code object')
    for lay in ('single', 'tworep', 'purecov'):
        d = D_LAYOUTS[lay](pe, ('c09f', lay), 1.9)
        d0 = D_LAYOUTS['single'](pe, ('c09f0', lay), 1.3)
        rd, rd0 = compare.to_ref(d), compare.to_ref(d0)
        for i in case['order']:
            pw, k = params[i]
            xv = (rd['value'] / k) ** (1 / pw)
            exp = ref.r_propagate(xv, [1 / (k * pw * xv ** (pw - 1))], [rd])
            kv = vks[i]
            xv2 = math.log(rd['value'] / rd0['value']) / kv
            exp2 = ref.r_propagate(xv2, [-1 / (kv * rd0['value']), 1 / (kv * rd['value'])], [rd0, rd])
            q = (1.0, 2.0, 4.0)[i]
            xv3 = _newton(lambda x: x ** 3 + q * x - rd['value'], lambda x: 3 * x * x + q, 1.0)
            exp3 = ref.r_propagate(xv3, [1 / (3 * xv3 * xv3 + q)], [rd])
            for nm, call, e in (('scalar', lambda: pe.roots.find_root(d, fs[i], guess=1.0), exp),
                                ('vector', lambda: pe.roots.find_root([d0, d], vfs[i], guess=0.3), exp2),
                                ('loop-lambda', lambda: pe.roots.find_root(d, loop[i], guess=1.0), exp3)):
                sub = dict(case, lay=lay, which=i, form=nm)
                try:
                    x = call()
                    bad = ref.close(e, compare.to_ref(x), 1e-8)
                except Exception as ex:
                    bad = 'raised %s: %s' % (type(ex).__name__, ex)
                if bad:
                    acc.fail('root-factory:%s' % nm, sub, 'find_root with function #%d of a factory (calls in order %s, %s d on %s): %s' % (i, case['order'], nm, lay, bad))
                else:
                    acc.ok(('rootf', tuple(case['order']), lay, i, nm), True, 'root-factory')
    acc.sample(dict(case, functions='k*x^p-d for (p,k) in %s; exp(k x) d0 - d1; x^3+q x-d' % params))


def run_quad_factory(pe, acc, case):
    def make(k):
        return lambda p, x: p[0] * x ** k + p[1]
    ks = [1, 2, 3]
    fs = [make(k) for k in ks]
    if fs[0].__code__ is not fs[2].__code__:
        raise engine.MachineryError('factory functions do not share their code object')
    for lay in ('single', 'tworep', 'purecov'):
        p0 = D_LAYOUTS[lay](pe, ('c09qf', lay), 0.8)
        b = D_LAYOUTS['single'](pe, ('c09qfb', lay), 1.4)
        r0, rb = compare.to_ref(p0), compare.to_ref(b)
        av, p1 = 0.3, 0.25
        for i in case['order']:
            k = ks[i]
            bv = rb['value']
            val = r0['value'] * (bv ** (k + 1) - av ** (k + 1)) / (k + 1) + p1 * (bv - av)
            exp = ref.r_propagate(val, [(bv ** (k + 1) - av ** (k + 1)) / (k + 1), r0['value'] * bv ** k + p1], [r0, rb])
            sub = dict(case, lay=lay, which=i)
            try:
                res = pe.integrate.quad(fs[i], [p0, p1], av, b)
                bad = ref.close(exp, compare.to_ref(res[0]), 1e-8)
            except Exception as ex:
                bad = 'raised %s: %s' % (type(ex).__name__, ex)
            if bad:
                acc.fail('quad-factory', sub, 'quad with integrand #%d of a factory (calls in order %s, p0 on %s): %s' % (i, case['order'], lay, bad))
            else:
                acc.ok(('quadf', tuple(case['order']), lay, i), True, 'quad-factory')
    acc.sample(dict(case, integrands='p0*x^k+p1 for k in %s' % ks))


def run_quad_weight(pe, acc, case):
    """the same trigonometric integrals through scipy's weight= argument: int (p0 + p1 x) cos|sin(w x) dx, observables among the parameters"""
    wname = case['weight']
    for w in (1.5, 3.0):
        for av, bv in ((0.2, 1.1), (1.3, 0.4)):
            def anti(x, n):
                # antiderivative of x^n * weight(w x), n = 0, 1
                if wname == 'cos':
                    return math.sin(w * x) / w if n == 0 else x * math.sin(w * x) / w + math.cos(w * x) / w ** 2
                return -math.cos(w * x) / w if n == 0 else -x * math.cos(w * x) / w + math.sin(w * x) / w ** 2
            wf = (lambda x: math.cos(w * x)) if wname == 'cos' else (lambda x: math.sin(w * x))
            for k, obs_slots in enumerate([(0,), (1,), (0, 1), ('b',), (0, 'a'), (1, 'a', 'b')]):
                for assign in ('equal', 'ensembles', 'cov'):
                    p = [0.7, -0.4]
                    lim = {'a': av, 'b': bv}
                    made = {}
                    for si, sl in enumerate(obs_slots):
                        o = slot_obs(pe, SLOT_ASSIGN[assign](si), ('w', wname, w, av, obs_slots, assign, sl), lim[sl] if sl in lim else p[sl])
                        made[sl] = o
                        if sl in lim:
                            lim[sl] = o
                        else:
                            p[sl] = o
                    pv = [x.value if isinstance(x, pe.Obs) else x for x in p]
                    a_, b_ = [x.value if isinstance(x, pe.Obs) else x for x in (lim['a'], lim['b'])]
                    ins, grads = [], []
                    for sl, o in made.items():
                        ins.append(compare.to_ref(o))
                        if sl in lim:
                            x0 = a_ if sl == 'a' else b_
                            grads.append((-1 if sl == 'a' else 1) * (pv[0] + pv[1] * x0) * wf(x0))
                        else:
                            grads.append(anti(b_, sl) - anti(a_, sl))
                    val = pv[0] * (anti(b_, 0) - anti(a_, 0)) + pv[1] * (anti(b_, 1) - anti(a_, 1))
                    sub = dict(case, w=w, a=av, b=bv, obs_slots=list(obs_slots), assign=assign)
                    with_limits = bool(set(obs_slots) & {'a', 'b'})
                    try:
                        res = pe.integrate.quad(lambda q, x: q[0] + q[1] * x, p, lim['a'], lim['b'], weight=wname, wvar=w)
                        bad = ref.close(ref.r_propagate(val, grads, ins), compare.to_ref(res[0]), 1e-8)
                    except Exception as ex:
                        bad = 'raised %s: %s' % (type(ex).__name__, ex)
                    if bad:
                        acc.fail('quad-weight:%s' % ('obs-limit' if with_limits else wname), sub, 'quad(p0+p1 x, weight=%s, wvar=%g) on [%g,%g], observables %s (%s): %s' % (wname, w, av, bv, list(obs_slots), assign, bad))
                    else:
                        acc.ok(('quadw', wname, w, av, obs_slots, assign), True, 'quad-weight')
    acc.sample(dict(case, integrand='(p0 + p1 x) * %s(w x)' % wname))


def _newton(f, df, x):
    for _ in range(60):
        x = x - f(x) / df(x)
    return x


def run_root_vector(pe, acc, case):
    """d = (d0, d1): root of d0*x - d1 is d1/d0; all layout pairs."""
    for l0, l1 in itertools.product(D_LAYOUTS, repeat=2):
        if 'purecov' in (l0, l1) and 'withcov' in (l0, l1):
            continue   # the same covariance name with different matrices
        d0 = D_LAYOUTS[l0](pe, ('c09v0', l0, l1), 1.6)
        d1 = D_LAYOUTS[l1](pe, ('c09v1', l0, l1), 2.4 if l0 != l1 or l0 not in ('purecov', 'withcov') else 2.4)
        if l0 == l1 and l0 in ('purecov', 'withcov'):
            continue
        r0, r1 = compare.to_ref(d0), compare.to_ref(d1)
        xv = r1['value'] / r0['value']
        exp = ref.r_propagate(xv, [-r1['value'] / r0['value'] ** 2, 1 / r0['value']], [r0, r1])
        for g in (0.5, 4.0):
            sub = dict(case, l0=l0, l1=l1, guess=g)
            try:
                x = pe.roots.find_root([d0, d1], lambda x, d: d[0] * x - d[1], guess=g)
            except Exception as e:
                acc.fail('root-vector:raised', sub, 'find_root with d=(%s,%s) raised %s: %s' % (l0, l1, type(e).__name__, e))
                continue
            bad = ref.close(exp, compare.to_ref(x), 1e-8)
            if bad:
                acc.fail('root-vector', sub, 'root of d0*x-d1 with d0 on %s, d1 on %s: %s' % (l0, l1, bad))
            else:
                acc.ok(('rootv', l0, l1, g), True, 'root-vector')
    # three components: positive root of d0*x^2 + d1*x - d2
    lays = ['single', 'tworep', 'twoens', 'purecov']
    for l0, l1, l2 in itertools.product(lays, repeat=3):
        if [l0, l1, l2].count('purecov') > 1:
            continue
        ds = [D_LAYOUTS[l](pe, ('c09w', i, l0, l1, l2), v) for i, (l, v) in enumerate(zip((l0, l1, l2), (1.2, 0.7, 2.1)))]
        rs = [compare.to_ref(d) for d in ds]
        a0, a1, a2 = (r['value'] for r in rs)
        disc = math.sqrt(a1 * a1 + 4 * a0 * a2)
        xv = (-a1 + disc) / (2 * a0)
        den = 2 * a0 * xv + a1
        exp = ref.r_propagate(xv, [-xv * xv / den, -xv / den, 1.0 / den], rs)
        sub = dict(case, l0=l0, l1=l1, l2=l2)
        try:
            x = pe.roots.find_root(ds, lambda x, d: d[0] * x ** 2 + d[1] * x - d[2], guess=1.0)
        except Exception as e:
            acc.fail('root-vector3:raised', sub, 'find_root with three-component d raised %s: %s' % (type(e).__name__, e))
            continue
        bad = ref.close(exp, compare.to_ref(x), 1e-8)
        if bad:
            acc.fail('root-vector3', sub, 'root of d0 x^2 + d1 x - d2 with d on (%s,%s,%s): %s' % (l0, l1, l2, bad))
        else:
            acc.ok(('rootv3', l0, l1, l2), True, 'root-vector')
    # the smallest vector: one observable in a list / tuple / ndarray, addressed as d[0] by the function
    a_ = anp()
    for l0 in lays:
        c1 = D_LAYOUTS[l0](pe, ('c09v1', l0), 0.45)
        r1 = compare.to_ref(c1)
        exp1 = ref.r_propagate(math.atanh(r1['value']), [1.0 / (1.0 - r1['value'] ** 2)], [r1])
        for cont in ('list', 'tuple', 'ndarray'):
            sub = dict(case, container=cont, length=1, l0=l0)
            d = [c1] if cont == 'list' else (c1,) if cont == 'tuple' else np.array([c1], dtype=object)
            try:
                res = pe.roots.find_root(d, lambda x, dd: a_.tanh(x) - dd[0], guess=0.3)
            except Exception as e:
                acc.fail('root-vector1:raised', sub, 'vector d of length one (%s, %s) raised %s: %s' % (cont, l0, type(e).__name__, e))
                continue
            bad = ref.close(exp1, compare.to_ref(res), 1e-8)
            if bad:
                acc.fail('root-vector1', sub, 'tanh(x) = d[0] with d of length one (%s, %s): %s' % (cont, l0, bad))
            else:
                acc.ok(('rootvec1', l0, cont), True, 'root-vector')
    acc.sample({'kind': 'root-vector', 'functions': ['d0*x-d1', 'd0*x^2+d1*x-d2', 'tanh(x)-d0'], 'layouts': 'all ordered pairs / triples'})


# integrand -> (func(p,x), nparams, param values, F(p,x) antiderivative, dF/dp_i(p,x) list, f(p,x) plain)
def _integrands():
    a = anp()
    return {
        'poly': (lambda p, x: p[0] + p[1] * x + p[2] * x ** 2, [0.7, -0.4, 0.3],
                 lambda p, x: p[0] * x + p[1] * x ** 2 / 2 + p[2] * x ** 3 / 3,
                 [lambda p, x: x, lambda p, x: x ** 2 / 2, lambda p, x: x ** 3 / 3],
                 lambda p, x: p[0] + p[1] * x + p[2] * x ** 2),
        'exp': (lambda p, x: a.exp(p[0] * x), [0.6],
                lambda p, x: math.exp(p[0] * x) / p[0],
                [lambda p, x: (x * p[0] - 1) * math.exp(p[0] * x) / p[0] ** 2],
                lambda p, x: math.exp(p[0] * x)),
        'sin': (lambda p, x: a.sin(p[0] * x), [1.3],
                lambda p, x: -math.cos(p[0] * x) / p[0],
                [lambda p, x: (x * p[0] * math.sin(p[0] * x) + math.cos(p[0] * x)) / p[0] ** 2],
                lambda p, x: math.sin(p[0] * x)),
        'cos+c': (lambda p, x: a.cos(p[0] * x) + p[1], [0.9, 0.25],
                  lambda p, x: math.sin(p[0] * x) / p[0] + p[1] * x,
                  [lambda p, x: (x * p[0] * math.cos(p[0] * x) - math.sin(p[0] * x)) / p[0] ** 2, lambda p, x: x],
                  lambda p, x: math.cos(p[0] * x) + p[1]),
        'gauss-x': (lambda p, x: p[0] * x * a.exp(-p[1] * x ** 2), [1.1, 0.7],
                    lambda p, x: -p[0] / (2 * p[1]) * math.exp(-p[1] * x * x),
                    [lambda p, x: -math.exp(-p[1] * x * x) / (2 * p[1]),
                     lambda p, x: p[0] * math.exp(-p[1] * x * x) * (1 / (2 * p[1] ** 2) + x * x / (2 * p[1]))],
                    lambda p, x: p[0] * x * math.exp(-p[1] * x * x)),
        'log': (lambda p, x: p[0] / (p[1] + x), [0.9, 1.6],
                lambda p, x: p[0] * math.log(p[1] + x),
                [lambda p, x: math.log(p[1] + x), lambda p, x: p[0] / (p[1] + x)],
                lambda p, x: p[0] / (p[1] + x)),
        'lorentz': (lambda p, x: p[0] / (1 + x ** 2), [1.4],
                    lambda p, x: p[0] * math.atan(x),
                    [lambda p, x: math.atan(x)],
                    lambda p, x: p[0] / (1 + x * x)),
        # a function without parameters (empty p): only the limits can be observables
        'exp-noparam': (lambda p, x: a.exp(-x), [], lambda p, x: -math.exp(-x), [], lambda p, x: math.exp(-x)),
    }


INTEGRANDS = ['poly', 'exp', 'sin', 'cos+c', 'lorentz', 'gauss-x', 'log', 'exp-noparam']

SLOT_ASSIGN = {
    'equal': lambda i: 'single',
    'subsets': lambda i: ['single', 'tworep'][i % 2],
    'ensembles': lambda i: ['single', 'twoens', 'tworep'][i % 3],
    'cov': lambda i: ['purecov', 'single'][i % 2],
}
SLOT_LAY = {
    'single': {'A|r1': 'c12'}, 'tworep': {'A|r1': 'irr', 'A|r2': 'ev'}, 'twoens': {'B|r1': 's3'},
}


def slot_obs(pe, kind, key, val):
    if kind == 'purecov':
        return pe.cov_Obs(val, (0.03 * abs(val) + 0.01) ** 2, 'cv%s' % abs(hash(key)) % 1000 if False else 'cvq%d' % (sum(map(ord, str(key))) % 997))
    return alpha.make_obs(pe, SLOT_LAY[kind], ('c09q', key), 'white', val, 0.02 * abs(val) + 0.005)[0]


def run_quad(pe, acc, case):
    func, pvals, F, dF, fplain = _integrands()[case['integrand']]
    npar = len(pvals)
    slots = ['p%d' % i for i in range(npar)] + ['a', 'b']
    orients = [('a<b', (0.2, 1.1)), ('a>b', (1.3, 0.4)), ('a==b', (0.7, 0.7))] + ([('a<0<b', (-0.7, 0.9)), ('wide', (0.05, 3.0))] if os.environ.get('VERIF_TIER') == 'thorough' else [])
    for orient, (av, bv) in orients:
        # call history: an earlier call with plain numbers and scipy options (it returns scipy's tuple early) must leave nothing
        # behind for the calls that follow
        try:
            pe.integrate.quad(lambda q, x: q[0] + q[1] * x, [1.1, 0.6], 0.1, 0.9, weight='cos', wvar=3.0)
            pe.integrate.quad(lambda q, x: q[0] * x, [0.4], 0.0, 1.0, epsabs=1e-3, epsrel=1e-3, limit=7)
        except Exception:
            pass
        # ... and so must a REFUSED request over the same limits (another integrand; its parameters cannot be combined: a Monte-Carlo
        # chain and a covariance input of the same name, two different matrices under one name)
        for badp in ([pe.Obs([np.linspace(0.9, 1.1, 12)], ['Q']), pe.cov_Obs(0.5, 0.01, 'Q')], [pe.cov_Obs(0.5, 0.01, 'cvsame'), pe.cov_Obs(0.7, 0.04, 'cvsame')]):
            try:
                pe.integrate.quad(lambda q, x: q[0] * x ** 3 + 7.0 * q[1] * x, badp, av, bv)
            except Exception:
                pass
        for k in range(0, len(slots) + 1):
            for obs_slots in itertools.combinations(slots, k):
                for assign in (SLOT_ASSIGN if k > 0 else ['equal']):
                    if k == 1 and assign in ('subsets', 'ensembles'):
                        continue
                    sub = dict(case, orient=orient, obs_slots=list(obs_slots), assign=assign)
                    if 'obs_slots' in case and (case['orient'], case['obs_slots'], case['assign']) != (orient, list(obs_slots), assign):
                        continue
                    p = list(pvals)
                    a, b = av, bv
                    ins, grads = [], []
                    for si, s in enumerate(obs_slots):
                        kind = SLOT_ASSIGN[assign](si)
                        val = {'a': av, 'b': bv}.get(s, None)
                        if val is None:
                            val = pvals[int(s[1])]
                        o = slot_obs(pe, kind, (case['integrand'], orient, obs_slots, assign, s), val)
                        if s == 'a':
                            a = o
                        elif s == 'b':
                            b = o
                        else:
                            p[int(s[1])] = o
                    if orient == 'a==b':
                        # limits that are different objects with exactly the same central value: the integral vanishes, its
                        # fluctuations f(b) db - f(a) da do not
                        if isinstance(a, pe.Obs) and isinstance(b, pe.Obs):
                            b = b + (a.value - b.value)
                        elif isinstance(a, pe.Obs):
                            b = float(a.value)
                        elif isinstance(b, pe.Obs):
                            a = float(b.value)
                        if (a.value if isinstance(a, pe.Obs) else a) != (b.value if isinstance(b, pe.Obs) else b):
                            acc.skip('equal central values not representable')
                            continue
                    pv = [x.value if isinstance(x, pe.Obs) else x for x in p]
                    avv = a.value if isinstance(a, pe.Obs) else a
                    bvv = b.value if isinstance(b, pe.Obs) else b
                    val = F(pv, bvv) - F(pv, avv)
                    for i, x in enumerate(p):
                        if isinstance(x, pe.Obs):
                            ins.append(compare.to_ref(x))
                            grads.append(dF[i](pv, bvv) - dF[i](pv, avv))
                    if isinstance(a, pe.Obs):
                        ins.append(compare.to_ref(a))
                        grads.append(-fplain(pv, avv))
                    if isinstance(b, pe.Obs):
                        ins.append(compare.to_ref(b))
                        grads.append(fplain(pv, bvv))
                    try:
                        res = pe.integrate.quad(func, p, a, b)
                    except Exception as e:
                        acc.fail('quad:raised', sub, 'quad(%s) with observables in %s (%s, %s) raised %s: %s' % (case['integrand'], obs_slots, assign, orient, type(e).__name__, e))
                        continue
                    if k == 0:
                        from scipy.integrate import quad as squad
                        exp_t = squad(lambda x: fplain(pv, x), avv, bvv)
                        if not (isinstance(res, tuple) and not isinstance(res[0], pe.Obs) and abs(res[0] - exp_t[0]) <= 1e-12 and abs(res[0] - val) <= 1e-10):
                            acc.fail('quad:no-obs', sub, 'without observables the result %r is not scipy\'s tuple %r' % (res, exp_t))
                        else:
                            acc.ok(('quad', case['integrand'], orient, 'none'), False, 'quad-plain')
                        continue
                    if not (isinstance(res, tuple) and isinstance(res[0], pe.Obs) and len(res) >= 2):
                        acc.fail('quad:shape', sub, 'result %r' % (res,))
                        continue
                    exp = ref.r_propagate(val, grads, ins)
                    bad = ref.close(exp, compare.to_ref(res[0]), 1e-8)
                    if bad:
                        acc.fail('quad:%s' % ('limits' if set(obs_slots) & {'a', 'b'} else 'parameters'), sub, 'quad(%s), observables %s (%s layouts, %s): %s' % (
                            case['integrand'], list(obs_slots), assign, orient, bad))
                    else:
                        acc.ok(('quad', case['integrand'], orient, obs_slots, assign), k > 1 or assign != 'equal', 'quad')
    acc.sample({'kind': 'quad', 'integrand': case['integrand'], 'slots': slots, 'subsets': 'all', 'assignments': list(SLOT_ASSIGN)})
