"""C15 Correlator derived quantities equal their defining formulas where defined.

E-PROD: every defined-slice pattern for T<=8 (exhaustive; T=4..8 quick), <=2 undefined slices for
larger T, x data shape (cosh / exp / sinh, sign flips) x every variant of deriv, second_deriv, m_eff,
plateau.  Oracle: the documented formula on the referenced neighbours as an identity between
observables; the defined-set is computed from the formula's referenced inputs; root variants are
checked by substitution."""
import os
import math
import warnings
import itertools
import numpy as np
from mc import engine, alpha
from mc.engine import Acc
from checks.c14 import same_entry, mkobs

LEVEL = 'exploration'
RULE = ('full product: T in {4..8} (quick) / {4..10} (thorough) x every non-empty defined-slice pattern (exhaustive), T in {12,16} '
        '(quick) / {12,16,24} with <=2 undefined slices; data {cosh, exp, sinh-like antisymmetric, cosh with sign flips at one or two '
        'slices}; variants deriv {symmetric, forward, backward, improved, log}, second_deriv {symmetric, big_symmetric, improved, '
        'log}, m_eff {log, logsym, cosh, periodic, sinh, arccosh}; plateau {fit, avg} over every range [a,b] for T<=6 and every '
        'pattern.  For each case the expected defined-set D is computed from the referenced input slices: D non-empty => no '
        'exception and defined exactly on D with the formula value; D empty => exception or all-undefined accepted.  '
        'Non-trivial = the pattern has an undefined slice or the data changes sign')
ASSUMPTIONS = ['formula transcriptions follow the docstrings of deriv / second_deriv / m_eff / plateau',
               'root variants: the returned mass is substituted into the cosh/sinh ratio and compared with C(t)/C(t+1) in value and '
               'every fluctuation; the slice of an odd-T cosh correlator whose ratio is identically 1 is not compared',
               'expected entries are formed with pyerrors scalar arithmetic (C01)']
EXHAUSTIVE = True
REPEAT = 2      # every case is evaluated twice in the same process: the second verdict must equal the first (call-history oracle)
CHUNK = 1
M0 = 0.35


def data_vals(kind, T):
    h = T / 2
    if kind == 'cosh':
        return [math.cosh(M0 * (t - h)) for t in range(T)]
    if kind == 'exp':
        return [2.0 * math.exp(-M0 * t) for t in range(T)]
    if kind == 'sinh':
        return [math.sinh(M0 * (h - t)) + (0.13 if t == int(h) else 0.0) for t in range(T)]
    if kind.startswith('flip'):
        v = [math.cosh(M0 * (t - h)) for t in range(T)]
        for t in (int(x) for x in kind[4:].split(',')):
            if t < T:
                v[t] = -v[t]
        return v
    raise ValueError(kind)


def make_corr(pe, T, pattern, kind):
    zero_at = None
    if kind.startswith('zero'):           # cosh data whose central value vanishes exactly at one timeslice
        zero_at, kind = int(kind[4:]), 'cosh'
    vals = data_vals(kind, T)
    content = [mkobs(pe, ('c15', kind, T, t), vals[t], 0.002 * abs(vals[t]) + 1e-4) if pattern[t] else None for t in range(T)]
    if zero_at is not None and zero_at < T and content[zero_at] is not None:
        content[zero_at] = content[zero_at] - content[zero_at].value
        if content[zero_at].value != 0.0:
            raise engine.MachineryError('central value not exactly zero')
    return pe.Corr(content)


def pos(c):
    return c is not None and c.value > 0


# variant -> (t-range function, referenced offsets, admissible(c, t), formula(c, t))
def spec(pe):
    S = {}

    def add(name, rng, refs, formula, adm=None):
        S[name] = (rng, refs, formula, adm)
    add('deriv:symmetric', lambda T: range(1, T - 1), (-1, 1), lambda c, t: 0.5 * (c[t + 1] - c[t - 1]))
    add('deriv:forward', lambda T: range(0, T - 1), (0, 1), lambda c, t: c[t + 1] - c[t])
    add('deriv:backward', lambda T: range(1, T), (-1, 0), lambda c, t: c[t] - c[t - 1])
    add('deriv:improved', lambda T: range(2, T - 2), (-2, -1, 1, 2), lambda c, t: (1 / 12) * (c[t - 2] - 8 * c[t - 1] + 8 * c[t + 1] - c[t + 2]))
    add('deriv:log', lambda T: range(1, T - 1), (-1, 0, 1), lambda c, t: c[t] * (0.5 * (np.log(c[t + 1]) - np.log(c[t - 1]))),
        lambda c, t: pos(c[t - 1]) and pos(c[t + 1]))
    add('second_deriv:symmetric', lambda T: range(1, T - 1), (-1, 0, 1), lambda c, t: c[t + 1] - 2 * c[t] + c[t - 1])
    add('second_deriv:big_symmetric', lambda T: range(2, T - 2), (-2, 0, 2), lambda c, t: (c[t + 2] - 2 * c[t] + c[t - 2]) / 4)
    add('second_deriv:improved', lambda T: range(2, T - 2), (-2, -1, 0, 1, 2),
        lambda c, t: (1 / 12) * (-c[t + 2] + 16 * c[t + 1] - 30 * c[t] + 16 * c[t - 1] - c[t - 2]))
    add('second_deriv:log', lambda T: range(1, T - 1), (-1, 0, 1),
        lambda c, t: c[t] * ((np.log(c[t + 1]) - 2 * np.log(c[t]) + np.log(c[t - 1])) + (0.5 * (np.log(c[t + 1]) - np.log(c[t - 1]))) ** 2),
        lambda c, t: pos(c[t - 1]) and pos(c[t]) and pos(c[t + 1]))
    add('m_eff:log', lambda T: range(0, T - 1), (0, 1), lambda c, t: np.log(c[t] / c[t + 1]), lambda c, t: c[t + 1].value != 0 and c[t].value / c[t + 1].value > 0)
    add('m_eff:logsym', lambda T: range(1, T - 1), (-1, 1), lambda c, t: np.log(c[t - 1] / c[t + 1]) / 2, lambda c, t: c[t + 1].value != 0 and c[t - 1].value / c[t + 1].value > 0)
    add('m_eff:arccosh', lambda T: range(1, T - 1), (-1, 0, 1), lambda c, t: np.arccosh((c[t + 1] + c[t - 1]) / (2 * c[t])),
        lambda c, t: c[t].value != 0 and (c[t + 1].value + c[t - 1].value) / (2 * c[t].value) >= 1)
    return S


def call_variant(C, name, **kw):
    meth, var = name.split(':')
    return getattr(C, meth)(variant=var, **kw)


def check_formula(pe, acc, C, c, T, pattern, kind, name, sp):
    rng, refs, formula, adm = sp
    sub = {'kind': 'one', 'T': T, 'pattern': list(pattern), 'data': kind, 'variant': name}
    D = {}
    for t in rng(T):
        if all(0 <= t + r < T and c[t + r] is not None for r in refs) and (adm is None or adm(c, t)):
            D[t] = formula(c, t)
    try:
        with warnings.catch_warnings():
            warnings.simplefilter('ignore')
            R = call_variant(C, name)
    except Exception as e:
        if not D:
            acc.ok((T, pattern, kind, name), False, 'undefined-everywhere-refused')
        else:
            acc.fail('%s:raised' % name, sub, '%s on pattern %s (%s data) raised %s: %s although timeslices %s are defined by the formula' % (
                name, pattern, kind, type(e).__name__, e, sorted(D)))
        return
    if not isinstance(R, pe.Corr) or R.T != T or R.N != 1:
        acc.fail('%s:shape' % name, sub, 'result is %s T=%s' % (type(R).__name__, getattr(R, 'T', None)))
        return
    got = set(t for t in range(T) if R.content[t] is not None)
    if got != set(D):
        acc.fail('%s:defined-set' % name, sub, '%s on pattern %s (%s data): defined on %s, expected %s' % (name, pattern, kind, sorted(got), sorted(D)))
        return
    for t, e in D.items():
        bad = same_entry(R.content[t][0], e, pe, 1e-10)
        if bad:
            acc.fail('%s:formula' % name, sub, '%s on pattern %s (%s data), timeslice %d: %s' % (name, pattern, kind, t, bad))
            return
    acc.ok((T, pattern, kind, name), (0 in pattern) or kind not in ('cosh', 'exp'), name.split(':')[0])


def check_root_variant(pe, acc, C, c, T, pattern, kind, var, scale=1.0):
    """cosh / periodic / sinh: substitution oracle.  scale: the correlator is multiplied by this factor first (the effective mass depends on
    ratios only, a correlator of magnitude 1e-13 has the same masses and the same defined set)."""
    name = 'm_eff:' + var
    sub = {'kind': 'one', 'T': T, 'pattern': list(pattern), 'data': kind, 'variant': name}
    if scale != 1.0:
        sub['scale'] = scale
        c = [None if x is None else x * scale for x in c]
        C = pe.Corr([None if x is None else x for x in c])
    func = np.sinh if var == 'sinh' else np.cosh
    h = T / 2
    exp = {}     # t -> None | ('root', ratio) | ('marginal', ratio) | ('copy', predecessor)
    prev = None
    for t in range(T - 1):
        if c[t] is None or c[t + 1] is None or c[t + 1].value == 0:
            e = None
        elif var == 'sinh' and t in (h, h - 1):
            e = None if (prev is None or (prev[0] == 'copy' and prev[1] is None)) else ('copy', prev)
        elif c[t].value / c[t + 1].value < 0:
            e = None
        else:
            # a real solution exists iff the ratio lies in the range of the function ratio (statement: otherwise undefined)
            sol = _solvable(var, t, T, c[t].value / c[t + 1].value)
            e = ('nosol', c[t] / c[t + 1]) if sol == 'no' else (('root' if sol == 'yes' else 'marginal'), c[t] / c[t + 1])
        exp[t] = e
        prev = e

    def certain(e):
        return e is not None and (e[0] == 'root' or (e[0] == 'copy' and certain(e[1])))
    D = [t for t, e in exp.items() if certain(e)]
    try:
        with warnings.catch_warnings():
            warnings.simplefilter('ignore')
            R = C.m_eff(variant=var, guess=M0 * 1.2)
    except Exception as e:
        if not D:
            acc.ok((T, pattern, kind, name, scale), False, 'undefined-everywhere-refused')
        else:
            acc.fail('%s:raised' % name, sub, '%s on pattern %s (%s data) raised %s: %s although timeslices %s are defined' % (name, pattern, kind, type(e).__name__, e, D))
        return
    if not isinstance(R, pe.Corr) or R.T != T:
        acc.fail('%s:shape' % name, sub, 'result T=%s' % getattr(R, 'T', None))
        return
    if R.content[T - 1] is not None:
        acc.fail('%s:defined-set' % name, sub, 'last timeslice defined')
        return
    last = None
    nosol = []
    for t in range(T - 1):
        e = exp[t]
        r = R.content[t]
        if e is not None and e[0] == 'copy':
            # documented: the two central slices repeat their predecessor
            pred = R.content[t - 1] if t > 0 else None
            if (r is None) != (pred is None) or (r is not None and same_entry(r[0], pred[0], pe, 1e-12)):
                acc.fail('%s:central-slices' % name, sub, '%s pattern %s: central timeslice %d does not repeat its predecessor' % (name, pattern, t))
                return
            continue
        if e is not None and e[0] == 'marginal' and r is None:
            continue
        if e is not None and e[0] == 'nosol':
            if r is not None:
                nosol.append((t, e[1].value, r[0].value))
            continue
        if (e is not None) != (r is not None):
            acc.fail('%s:defined-set' % name, sub, '%s on pattern %s (%s data): timeslice %d defined=%s, expected %s%s' % (
                name, pattern, kind, t, r is not None, e is not None,
                '' if e is not None or c[t] is None or c[t + 1] is None else ' (C(t)/C(t+1) = %.4g: no real solution)' % (c[t].value / c[t + 1].value)))
            return
        if r is None:
            continue
        m = r[0]
        if not (m.value >= 0):
            acc.fail('%s:sign' % name, sub, 'negative effective mass %r at t=%d' % (m.value, t))
            return
        back = func(m * (t - h)) / func(m * (t + 1 - h))
        bad = same_entry(back, e[1], pe, 1e-7)
        if bad:
            acc.fail('%s:substitution' % name, sub, '%s pattern %s (%s data) t=%d: ratio reconstructed from the returned mass differs from C(t)/C(t+1): %s' % (name, pattern, kind, t, bad))
            return
    if nosol:
        # statement: undefined where the formula has no real solution.  Reported after everything else about this call was
        # found in order, under its own signature (one per variant).
        acc.fail('%s:no-real-solution-defined' % name, sub, '%s on pattern %s (%s data): timeslice(s) %s are defined although C(t)/C(t+1) = %s lies outside the range of the function ratio (no real solution); returned masses %s' % (
            name, pattern, kind, [x[0] for x in nosol], ['%.4g' % x[1] for x in nosol], ['%.4g' % x[2] for x in nosol]))
        return
    acc.ok((T, pattern, kind, name, scale), (0 in pattern) or kind not in ('cosh', 'exp'), 'm_eff-root' if scale == 1.0 else 'm_eff-root-scaled')


def _solvable(var, t, T, ratio):
    """'yes': f(m(t-T/2))/f(m(t+1-T/2)) = ratio has a solution 0.02 < m < 3 well inside the range (must be found);
    'no': the ratio lies outside the range the function ratio attains for any real m (no real solution: must be
    undefined); 'marginal': in between (solution at very small / very large mass: either outcome accepted)."""
    h = T / 2
    f = math.sinh if var == 'sinh' else math.cosh
    a, b = t - h, t + 1 - h
    # the function ratio is monotonic in m > 0, from its m -> 0 limit to its m -> infinity limit
    if var == 'sinh' and a * b <= 0:
        lo = hi = (a / b) if b != 0 else float('inf')          # odd T, central pair: identically -1
    else:
        at0 = (a / b) if var == 'sinh' else 1.0
        atinf = float('inf') if abs(a) > abs(b) else (0.0 if abs(a) < abs(b) else 1.0)
        lo, hi = min(at0, atinf), max(at0, atinf)
    if not (lo * 0.98 < ratio < hi * 1.02) or lo == hi:
        return 'no'
    try:
        vals = [f(m * a) / f(m * b) for m in (0.02, 3.0)]
    except (ZeroDivisionError, OverflowError):
        return 'marginal'
    inside = min(vals) * 1.02 < ratio < max(vals) * 0.98 if min(vals) > 0 else min(vals) * 0.98 < ratio < max(vals) * 1.02
    return 'yes' if inside else 'marginal'


def build(tier, seed):
    cases = []
    Ts = (4, 5, 6, 7, 8) if tier == 'quick' else (4, 5, 6, 7, 8, 9, 10)
    kinds = ['cosh', 'exp', 'sinh', 'flip1', 'flip2,3', 'zero1', 'zero2']
    for T in Ts:
        pats = [p for p in itertools.product([1, 0], repeat=T) if any(p)]
        for i in range(0, len(pats), 32):
            cases.append({'kind': 'formulas', 'T': T, 'patterns': [list(p) for p in pats[i:i + 32]], 'data': kinds})
    for T in ((12, 16) if tier == 'quick' else (12, 16, 24)):
        pats = [tuple(0 if t in holes else 1 for t in range(T)) for k in (0, 1, 2) for holes in itertools.combinations(range(T), k)]
        for i in range(0, len(pats), 32):
            cases.append({'kind': 'formulas', 'T': T, 'patterns': [list(p) for p in pats[i:i + 32]], 'data': ['cosh', 'sinh', 'flip5']})
    for T in (4, 5, 6):
        cases.append({'kind': 'plateau', 'T': T})
    return cases


def run_case(case):
    pe = engine.import_pyerrors()
    acc = Acc()
    with warnings.catch_warnings():
        warnings.simplefilter('ignore')
        if case['kind'] == 'formulas':
            S = spec(pe)
            T = case['T']
            for pattern in case['patterns']:
                pattern = tuple(pattern)
                for kind in case['data']:
                    C = make_corr(pe, T, pattern, kind)
                    c = [None if x is None else x[0] for x in C.content]
                    for name, sp in S.items():
                        check_formula(pe, acc, C, c, T, pattern, kind, name, sp)
                    for var in ('cosh', 'periodic', 'sinh'):
                        if kind.startswith('zero'):
                            continue       # the root variants are examined on the other data kinds
                        if (var == 'sinh') != (kind == 'sinh'):
                            if kind != 'exp':
                                continue
                        check_root_variant(pe, acc, C, c, T, pattern, kind, var)
                        check_root_variant(pe, acc, C, c, T, pattern, kind, var, scale=1e-13)
            acc.sample({'kind': 'formulas', 'T': T, 'pattern': case['patterns'][-1], 'data': case['data'], 'variants': list(S) + ['m_eff:cosh', 'm_eff:periodic', 'm_eff:sinh']})
        elif case['kind'] == 'one':
            S = spec(pe)
            T, pattern, kind, name = case['T'], tuple(case['pattern']), case['data'], case['variant']
            C = make_corr(pe, T, pattern, kind)
            c = [None if x is None else x[0] for x in C.content]
            if name in S:
                check_formula(pe, acc, C, c, T, pattern, kind, name, S[name])
            else:
                check_root_variant(pe, acc, C, c, T, pattern, kind, name.split(':')[1], scale=case.get('scale', 1.0))
        elif case['kind'] == 'plateau':
            run_plateau(pe, acc, case)
    return acc


def run_plateau(pe, acc, case):
    T = case['T']
    for pattern in [p for p in itertools.product([1, 0], repeat=T) if any(p)]:
        content = [mkobs(pe, ('c15p', T, t), 1.0 + 0.01 * ((t * 7) % 5), 0.02 + 0.01 * (t % 3)) if pattern[t] else None for t in range(T)]
        C = pe.Corr(content)
        C.gamma_method()
        c = [None if x is None else x[0] for x in C.content]
        for a in range(T):
            for b in range(a, T):
                inside = [t for t in range(a, b + 1) if c[t] is not None]
                for method in ('fit', 'avg'):
                    sub = dict(case, pattern=list(pattern), a=a, b=b, method=method)
                    try:
                        r = C.plateau([a, b], method=method)
                    except Exception as e:
                        if not inside:
                            acc.ok(('pl', T, pattern, a, b, method), False, 'undefined-everywhere-refused')
                        else:
                            acc.fail('plateau:%s:raised' % method, sub, 'plateau(%s) over [%d,%d], pattern %s raised %s: %s' % (method, a, b, pattern, type(e).__name__, e))
                        continue
                    if not inside:
                        acc.fail('plateau:%s:undefined-accepted' % method, sub, 'plateau over a range without defined timeslices returned %r' % (r,))
                        continue
                    if method == 'avg':
                        e = sum(c[t] for t in inside) / len(inside)
                        tol = 1e-12
                    else:
                        w = np.array([1 / c[t].dvalue ** 2 for t in inside])
                        e = sum((wi / w.sum()) * c[t] for wi, t in zip(w, inside))
                        tol = 1e-7
                    bad = same_entry(r, e, pe, tol)
                    if bad:
                        acc.fail('plateau:%s' % method, sub, 'plateau(%s) over [%d,%d], pattern %s: %s' % (method, a, b, pattern, bad))
                    else:
                        acc.ok(('pl', T, pattern, a, b, method), True, 'plateau-' + method)
        # errors from a NON-default analysis (and different autocorrelation from timeslice to timeslice): the fit weights are the errors
        # the correlator carries; plateau() without auto_gamma leaves them as they are
        if sum(pattern) >= T - 1:
            cf = list(range(1, 61))
            content2 = [pe.Obs([alpha.data('ar1' if t % 2 == 0 else 'white', cf, alpha.rng('c15pa', T, t), 1.0 + 0.01 * ((t * 7) % 5), 0.05)], ['A|r1']) if pattern[t] else None for t in range(T)]
            for params in ({'S': 0}, {'S': 1.0, 'tau_exp': 4, 'N_sigma': 1}, {'S': 3.5}):
                C4 = pe.Corr(content2)
                C4.gamma_method(**params)
                c4 = [None if x is None else x[0] for x in C4.content]
                errs = [None if x is None else x.dvalue for x in c4]
                ins = [t for t in range(T) if c4[t] is not None]
                sub = dict(case, pattern=list(pattern), params=params)
                try:
                    r = C4.plateau([0, T - 1], method='fit')
                    w = np.array([1 / errs[t] ** 2 for t in ins])
                    bad = same_entry(r, sum((wi / w.sum()) * c4[t] for wi, t in zip(w, ins)), pe, 1e-7)
                    if not bad and [None if x is None else x.dvalue for x in c4] != errs:
                        bad = 'plateau(auto_gamma=False) changed the errors of the correlator it was called on'
                except Exception as e:
                    bad = 'raised %s: %s' % (type(e).__name__, e)
                if bad:
                    acc.fail('plateau:fit:weights-of-the-carried-errors', sub, 'errors from gamma_method(%s), pattern %s: %s' % (params, pattern, bad))
                else:
                    acc.ok(('plw', T, pattern, repr(sorted(params.items()))), True, 'plateau-fit')
        # the same correlator in other units: the plateau is the order-one plateau times the factor
        if all(pattern):
            for psc in (1e-9, 1e4, 1e9):
                Cs = pe.Corr([x[0] * psc for x in C.content])
                Cs.gamma_method()
                cs = [x[0] for x in Cs.content]
                for method in ('fit', 'avg'):
                    sub = dict(case, pattern=list(pattern), scale=psc, method=method)
                    try:
                        r = Cs.plateau([0, T - 1], method=method)
                        if method == 'avg':
                            e = sum(cs) / T
                        else:
                            w = np.array([1 / x.dvalue ** 2 for x in cs])
                            e = sum((wi / w.sum()) * x for wi, x in zip(w, cs))
                        bad = same_entry(r, e, pe, 1e-12 if method == 'avg' else 1e-7)
                    except Exception as ex:
                        bad = 'raised %s: %s' % (type(ex).__name__, ex)
                    if bad:
                        acc.fail('plateau:%s:magnitude=%g' % (method, psc), sub, 'plateau(%s) of a correlator of magnitude %g (T=%d): %s' % (method, psc, T, bad))
                    else:
                        acc.ok(('pls', T, psc, method), True, 'plateau-scaled')
        # a stored range inside 0..T-1 is accepted and used; any other is refused, when it is stored or when it is used
        if all(pattern):
            for pr in ([0, T - 1], [T - 1, T - 1], [0, T], [T, T], [T - 1, T], [2, 1], [-1, 2]):
                for route in ('constructor', 'set_prange'):
                    sub = dict(case, pattern=list(pattern), prange=pr, route=route)
                    try:
                        if route == 'constructor':
                            C3 = pe.Corr([x[0] for x in C.content], prange=list(pr))
                        else:
                            C3 = pe.Corr([x[0] for x in C.content])
                            C3.set_prange(list(pr))
                    except Exception:
                        if 0 <= pr[0] <= pr[1] <= T - 1:
                            acc.fail('plateau:prange-refused', sub, 'the range %s inside 0..%d was refused (%s)' % (pr, T - 1, route))
                        else:
                            acc.ok(('prg', T, tuple(pr), route), True, 'plateau-prange-refused')
                        continue
                    C3.gamma_method()
                    try:
                        r = C3.plateau(method='avg')
                        bad = None if 0 <= pr[0] <= pr[1] <= T - 1 else 'accepted, plateau() returned %r' % (r,)
                        bad = bad or same_entry(r, sum(c[t] for t in range(pr[0], pr[1] + 1)) / (pr[1] - pr[0] + 1), pe, 1e-12)
                    except Exception as e:
                        # a range outside 0..T-1 may also be refused when it is used
                        bad = 'accepted, but plateau() then raises %s: %s' % (type(e).__name__, e) if 0 <= pr[0] <= pr[1] <= T - 1 else None
                    if bad:
                        acc.fail('plateau:prange-stored-unusable', sub, 'stored range %s (T=%d, %s): %s' % (pr, T, route, bad))
                    else:
                        acc.ok(('prg', T, tuple(pr), route), True, 'plateau-prange')
        # the stored range is the correlator's own: the caller's list and the ranges of derived correlators can be changed without effect
        if all(pattern) and T >= 4:
            for route in ('constructor', 'set_prange'):
                mine = [1, T - 2]
                if route == 'constructor':
                    C5 = pe.Corr([x[0] for x in C.content], prange=mine)
                else:
                    C5 = pe.Corr([x[0] for x in C.content])
                    C5.set_prange(mine)
                C5.gamma_method()
                ref_pl = C5.plateau(method='avg')
                derived = [2.0 * C5, C5 + 1.0, -C5, abs(C5), C5 / 2]
                mine[0] = 0                   # the caller re-uses its list
                for dcorr in derived:            # ... and changes the ranges of derived correlators in place
                    if dcorr.prange is not None:
                        dcorr.prange[1] = T - 1
                bad = None
                if list(C5.prange) != [1, T - 2]:
                    bad = 'the stored range became %s after the caller changed its own list / the range of a derived correlator' % (list(C5.prange),)
                else:
                    bad = same_entry(C5.plateau(method='avg'), ref_pl, pe, 1e-14)
                # a refused set_prange leaves the stored range as it was
                if not bad:
                    for refused in ([1, T + 3], [T, T + 1], [2, 1], [1, 2, 3], [-2, 1], [1.5, 2]):
                        try:
                            C5.set_prange(list(refused))
                            continue            # (accepted requests are examined by the range probes above)
                        except Exception:
                            pass
                        if C5.prange is None or list(C5.prange) != [1, T - 2]:
                            bad = 'after the refused request set_prange(%s) the stored range is %s instead of [1, %d]' % (refused, C5.prange, T - 2)
                            break
                        try:
                            bad = same_entry(C5.plateau(method='avg'), ref_pl, pe, 1e-14)
                        except Exception as e:
                            bad = 'after the refused request set_prange(%s), plateau() raises %s: %s' % (refused, type(e).__name__, e)
                        if bad:
                            break
                if bad:
                    acc.fail('plateau:prange-shared', dict(case, pattern=list(pattern), route=route), 'range stored through %s: %s' % (route, bad))
                else:
                    acc.ok(('prs', T, route), True, 'plateau-prange')
        # stored plateau range: used when no range is passed, overridden by an explicit one (constructor and set_prange)
        if all(pattern) and T >= 4:
            for route in ('constructor', 'set_prange'):
                if route == 'constructor':
                    C2 = pe.Corr([x[0] for x in C.content], prange=[1, T - 2])
                else:
                    C2 = pe.Corr([x[0] for x in C.content])
                    C2.set_prange([1, T - 2])
                C2.gamma_method()
                for method in ('avg', 'fit'):
                    for given in (None, [0, 1], [T - 2, T - 1], [1, T - 2]):
                        a, b = given if given is not None else (1, T - 2)
                        ts = list(range(a, b + 1))
                        if method == 'avg':
                            e, tol = sum(c[t] for t in ts) / len(ts), 1e-12
                        else:
                            w = np.array([1 / c[t].dvalue ** 2 for t in ts])
                            e, tol = sum((wi / w.sum()) * c[t] for wi, t in zip(w, ts)), 1e-7
                        sub = dict(case, pattern=list(pattern), route=route, method=method, given=given)
                        try:
                            arg = None if given is None else list(given)
                            stored = list(C2.prange)
                            r = C2.plateau(method=method) if given is None else C2.plateau(arg, method=method)
                            bad = same_entry(r, e, pe, tol)
                            # call history: the same range object (or the stored range) used again must give the same plateau,
                            # and neither the caller's list nor the stored range may have been changed
                            if not bad:
                                r2 = C2.plateau(method=method) if given is None else C2.plateau(arg, method=method)
                                bad = same_entry(r2, e, pe, tol)
                                bad = bad and 'second call with the same range object: ' + bad
                            if not bad and arg is not None and arg != list(given):
                                bad = 'plateau changed the range list passed by the caller: %s -> %s' % (list(given), arg)
                            if not bad and list(C2.prange) != stored:
                                bad = 'plateau changed the stored plateau range: %s -> %s' % (stored, list(C2.prange))
                        except Exception as ex:
                            bad = 'raised %s: %s' % (type(ex).__name__, ex)
                        if bad:
                            acc.fail('plateau:prange-%s' % ('default' if given is None else 'explicit-range-ignored'), sub,
                                     'Corr with prange [1,%d] (%s): plateau(%s, method=%s) is not the %s over [%d,%d]: %s' % (T - 2, route, given, method, method, a, b, bad))
                        else:
                            acc.ok(('plpr', T, route, method, repr(given)), True, 'plateau-prange')
    acc.sample({'kind': 'plateau', 'T': T, 'ranges': 'every [a,b]', 'methods': ['fit', 'avg']})
