"""C20 Constant tables and special-function derivatives are mathematically exact.

E-PROD, complete: all 5^3 and 5^4 index tuples, all Grid tags (+ unknown ones), all mu,nu
pairs, K_n for n=0..6 x 40 arguments, a grid per re-exported special function."""
import math
import itertools
import numpy as np
from mc import engine
from mc.engine import Acc

LEVEL = 'exploration'
RULE = ('complete enumeration: every index tuple in {0..4}^3 and {0..4}^4; every Dirac-algebra relation for every '
        'mu,nu; every Grid tag + unknown tags (fixed probes and, from every known tag, case variants, padded / cut forms, Minus-prefixed names) against an independent Kronecker-product construction; K_n for '
        'n=0..6(10) x 40(120) arguments in (0.05,20) against -(K_{n-1}+K_{n+1})/2 and central differences; every '
        're-exported special function x differentiable argument position x argument grid against Richardson central '
        'differences of scipy.  Non-trivial = every case except tuples with repeated indices inside the domain '
        '(value 0) ')
ASSUMPTIONS = ['scipy.special is the ground truth for function values', 'central differences (Richardson, 2 steps) '
               'approximate derivatives to 1e-7 relative on the chosen grids']
EXHAUSTIVE = True
REPEAT = 2      # every case is evaluated twice in the same process: the second verdict must equal the first (call-history oracle)
CHUNK = 1


def perm_sign(t, lo):
    """Sign by inversion counting; 0 when an index repeats."""
    if len(set(t)) != len(t):
        return 0
    inv = sum(1 for a in range(len(t)) for b in range(a + 1, len(t)) if t[a] > t[b])
    return -1 if inv % 2 else 1


def build(tier, seed):
    cases = [{'kind': 'eps3'}, {'kind': 'eps4'}, {'kind': 'dirac'}, {'kind': 'tags'}, {'kind': 'tags-kept'}, {'kind': 'eps-sequence', 'first': 3}, {'kind': 'eps-sequence', 'first': 4}]
    nmax = 6 if tier == 'quick' else 10
    for n in range(0, nmax + 1):
        cases.append({'kind': 'kn', 'n': n, 'npts': 40 if tier == 'quick' else 120})
    for n in (-1, -2, -3, -6):         # "every integer order": K_{-n} = K_n
        cases.append({'kind': 'kn', 'n': n, 'npts': 20 if tier == 'quick' else 60})
    for name in SPECIALS:
        cases.append({'kind': 'special', 'name': name, 'npts': 7 if tier == 'quick' else 25})
    return cases


# independent construction of the chiral (Grid) basis by Kronecker products
def _kron_basis():
    s0 = np.eye(2, dtype=complex)
    sx = np.array([[0, 1], [1, 0]], dtype=complex)
    sy = np.array([[0, -1j], [1j, 0]], dtype=complex)
    sz = np.array([[1, 0], [0, -1]], dtype=complex)
    g = [-np.kron(sy, sx), np.kron(sy, sy), -np.kron(sy, sz), np.kron(sx, s0)]
    g5 = np.kron(sz, s0)
    return g, g5


def _tag_table():
    g, g5 = _kron_basis()
    X, Y, Z, T = g
    comm = lambda a, b: 0.5 * (a @ b - b @ a)
    return {'Identity': np.eye(4, dtype=complex), 'Gamma5': g5, 'GammaX': X, 'GammaY': Y, 'GammaZ': Z, 'GammaT': T,
            'GammaXGamma5': X @ g5, 'GammaYGamma5': Y @ g5, 'GammaZGamma5': Z @ g5, 'GammaTGamma5': T @ g5,
            'SigmaXT': comm(X, T), 'SigmaXY': comm(X, Y), 'SigmaXZ': comm(X, Z), 'SigmaYT': comm(Y, T),
            'SigmaYZ': comm(Y, Z), 'SigmaZT': comm(Z, T)}


def _sp():
    import scipy.special as ss
    return ss


# name -> (callable on (module, x) for pyerrors.special, callable on x for scipy, argument interval)
def _specials():
    ss = _sp()
    d = {}

    def add(name, fpe, fsc, lo, hi):
        d[name] = (fpe, fsc, lo, hi)
    add('j0', lambda m, x: m.j0(x), ss.j0, 0.2, 9.0)
    add('y0', lambda m, x: m.y0(x), ss.y0, 0.2, 9.0)
    add('j1', lambda m, x: m.j1(x), ss.j1, 0.2, 9.0)
    add('y1', lambda m, x: m.y1(x), ss.y1, 0.2, 9.0)
    add('jn2', lambda m, x: m.jn(2, x), lambda x: ss.jn(2, x), 0.2, 9.0)
    add('yn2', lambda m, x: m.yn(2, x), lambda x: ss.yn(2, x), 0.5, 9.0)
    add('i0', lambda m, x: m.i0(x), ss.i0, 0.1, 4.0)
    add('i1', lambda m, x: m.i1(x), ss.i1, 0.1, 4.0)
    add('iv1.5', lambda m, x: m.iv(1.5, x), lambda x: ss.iv(1.5, x), 0.3, 4.0)
    add('ive1.5', lambda m, x: m.ive(1.5, x), lambda x: ss.ive(1.5, x), 0.3, 4.0)
    # negative arguments (integer orders): the scaled / even / odd symmetries must carry over to the derivative
    add('i0-neg', lambda m, x: m.i0(x), ss.i0, -4.0, -0.1)
    add('i1-neg', lambda m, x: m.i1(x), ss.i1, -4.0, -0.1)
    add('iv2-neg', lambda m, x: m.iv(2, x), lambda x: ss.iv(2, x), -4.0, -0.3)
    add('ive0-neg', lambda m, x: m.ive(0, x), lambda x: ss.ive(0, x), -4.0, -0.3)
    add('ive1', lambda m, x: m.ive(1, x), lambda x: ss.ive(1, x), 0.3, 4.0)
    add('ive1-neg', lambda m, x: m.ive(1, x), lambda x: ss.ive(1, x), -4.0, -0.3)
    add('j0-neg', lambda m, x: m.j0(x), ss.j0, -9.0, -0.2)
    add('j1-neg', lambda m, x: m.j1(x), ss.j1, -9.0, -0.2)
    add('jn3', lambda m, x: m.jn(3, x), lambda x: ss.jn(3, x), -6.0, 6.0)
    add('beta_a', lambda m, x: m.beta(x, 1.7), lambda x: ss.beta(x, 1.7), 0.4, 4.0)
    add('beta_b', lambda m, x: m.beta(2.3, x), lambda x: ss.beta(2.3, x), 0.4, 4.0)
    add('betaln_a', lambda m, x: m.betaln(x, 1.7), lambda x: ss.betaln(x, 1.7), 0.4, 4.0)
    add('betaln_b', lambda m, x: m.betaln(2.3, x), lambda x: ss.betaln(2.3, x), 0.4, 4.0)
    add('betainc_x', lambda m, x: m.betainc(2.3, 1.7, x), lambda x: ss.betainc(2.3, 1.7, x), 0.1, 0.9)
    add('polygamma1', lambda m, x: m.polygamma(1, x), lambda x: ss.polygamma(1, x), 0.5, 5.0)
    add('psi', lambda m, x: m.psi(x), ss.psi, 0.5, 5.0)
    add('digamma', lambda m, x: m.digamma(x), ss.digamma, 0.5, 5.0)
    add('gamma', lambda m, x: m.gamma(x), ss.gamma, 0.5, 4.0)
    add('gammaln', lambda m, x: m.gammaln(x), ss.gammaln, 0.5, 5.0)
    add('rgamma', lambda m, x: m.rgamma(x), ss.rgamma, 0.5, 4.0)
    add('gammainc_x', lambda m, x: m.gammainc(2.5, x), lambda x: ss.gammainc(2.5, x), 0.3, 6.0)
    add('gammaincc_x', lambda m, x: m.gammaincc(2.5, x), lambda x: ss.gammaincc(2.5, x), 0.3, 6.0)
    add('multigammaln', lambda m, x: m.multigammaln(x, 2), lambda x: ss.multigammaln(x, 2), 1.5, 5.0)
    add('erf', lambda m, x: m.erf(x), ss.erf, -2.0, 2.0)
    add('erfc', lambda m, x: m.erfc(x), ss.erfc, -2.0, 2.0)
    add('erfinv', lambda m, x: m.erfinv(x), ss.erfinv, -0.9, 0.9)
    add('erfcinv', lambda m, x: m.erfcinv(x), ss.erfcinv, 0.1, 1.9)
    add('logit', lambda m, x: m.logit(x), ss.logit, 0.1, 0.9)
    add('expit', lambda m, x: m.expit(x), ss.expit, -3.0, 3.0)
    return d


SPECIALS = ['i0-neg', 'i1-neg', 'iv2-neg', 'ive0-neg', 'ive1', 'ive1-neg', 'j0-neg', 'j1-neg', 'jn3', 'j0', 'y0', 'j1', 'y1', 'jn2', 'yn2', 'i0', 'i1', 'iv1.5', 'ive1.5', 'beta_a', 'beta_b', 'betaln_a',
            'betaln_b', 'betainc_x', 'polygamma1', 'psi', 'digamma', 'gamma', 'gammaln', 'rgamma', 'gammainc_x',
            'gammaincc_x', 'multigammaln', 'erf', 'erfc', 'erfinv', 'erfcinv', 'logit', 'expit']


def _cdiff(f, x):
    """Richardson-extrapolated central difference."""
    h = 1e-3 * max(0.1, abs(x)) if abs(x) > 0.1 else 1e-3 * max(abs(x), 0.02)
    d1 = (f(x + h) - f(x - h)) / (2 * h)
    d2 = (f(x + h / 2) - f(x - h / 2)) / h
    return (4 * d2 - d1) / 3


def _obs_at(pe, x, key):
    from mc import alpha
    r = alpha.rng('c20', key)
    return pe.Obs([x + 1e-3 * max(1.0, abs(x)) * r.normal(size=8)], ['A|r1'])


def _prop_deriv(res, o):
    """d(res)/d(o) read off the fluctuations (must be the same on every configuration)."""
    d = res.deltas['A|r1'] / o.deltas['A|r1']
    return float(np.mean(d)), float(np.max(np.abs(d - np.mean(d))))


def run_case(case):
    pe = engine.import_pyerrors()
    acc = Acc()
    k = case['kind']
    if k in ('eps3', 'eps4'):
        rank = 3 if k == 'eps3' else 4
        f = pe.dirac.epsilon_tensor if rank == 3 else pe.dirac.epsilon_tensor_rank4
        doms = [set(range(1, rank + 1)), set(range(0, rank))]
        carriers = {'int': int, 'np.int64': np.int64, 'np.uint8': np.uint8, 'np.uint64': np.uint64, 'np.int8': np.int8, 'float': float}
        for t0 in itertools.product(range(5), repeat=rank):
            inside = any(set(t0) <= d for d in doms)
            for cname, conv in carriers.items():
                t = tuple(conv(v) for v in t0)
                try:
                    got = f(*t)
                    raised = False
                except ValueError:
                    raised = True
                sub = dict(case, tuple=list(t0), index_type=cname)
                sfx = '' if cname == 'int' else ':' + cname
                if not inside:
                    if raised:
                        acc.ok((k, t0, cname), True, 'rejected-outside-domain')
                    else:
                        acc.fail('%s:outside-domain-accepted%s' % (k, sfx), sub, 'tuple %s (%s) outside the domain returned %r' % (t0, cname, got))
                    continue
                exp = perm_sign(t0, 0)
                if raised:
                    acc.fail('%s:inside-domain-raised%s' % (k, sfx), sub, 'tuple %s (%s) inside the domain raised' % (t0, cname))
                elif got != exp:
                    acc.fail('%s:wrong-sign%s' % (k, sfx), sub, 'tuple %s given as %s: expected %d got %r' % (t0, cname, exp, got))
                else:
                    acc.ok((k, t0, cname), exp != 0, 'sign' if exp else 'zero')
        acc.sample({'kind': k, 'tuple': [1, 3, 2], 'expected': -1})
    elif k == 'dirac':
        g = pe.dirac.gamma
        g5 = pe.dirac.gamma5
        I = np.eye(4)
        for mu in range(4):
            for nu in range(4):
                anti = g[mu] @ g[nu] + g[nu] @ g[mu]
                if np.array_equal(anti, 2 * I * (mu == nu)):
                    acc.ok(('cliff', mu, nu), True, 'clifford')
                else:
                    acc.fail('dirac:clifford:%d%d' % (mu, nu), case, 'anticommutator of gamma %d,%d is\n%s' % (mu, nu, anti))
            if np.array_equal(g[mu].conj().T, g[mu]):
                acc.ok(('herm', mu), True, 'hermitian')
            else:
                acc.fail('dirac:hermitian:%d' % mu, case, 'gamma %d not Hermitian' % mu)
            if np.array_equal(g[mu] @ g5 + g5 @ g[mu], np.zeros((4, 4))):
                acc.ok(('g5anti', mu), True, 'g5-anticommutes')
            else:
                acc.fail('dirac:g5anti:%d' % mu, case, 'gamma5 does not anticommute with gamma %d' % mu)
        if np.array_equal(g[0] @ g[1] @ g[2] @ g[3], g5):
            acc.ok('g5prod', True, 'g5-product')
        else:
            acc.fail('dirac:g5-product', case, 'gamma5 != gammaX gammaY gammaZ gammaT')
        if np.array_equal(g5.conj().T, g5) and np.array_equal(g5 @ g5, I):
            acc.ok('g5herm', True, 'g5-hermitian-involution')
        else:
            acc.fail('dirac:g5-hermitian', case, 'gamma5 not a Hermitian involution')
        for nm, arr, i in (('gammaX', pe.dirac.gammaX, 0), ('gammaY', pe.dirac.gammaY, 1), ('gammaZ', pe.dirac.gammaZ, 2),
                           ('gammaT', pe.dirac.gammaT, 3)):
            if np.array_equal(arr, g[i]):
                acc.ok(('named', nm), True, 'named-matrix')
            else:
                acc.fail('dirac:named:' + nm, case, '%s differs from gamma[%d]' % (nm, i))
        if np.array_equal(pe.dirac.identity, I):
            acc.ok('identity', True, 'identity')
        else:
            acc.fail('dirac:identity', case, 'identity matrix wrong')
        kg, kg5 = _kron_basis()
        for i in range(4):
            if np.array_equal(kg[i], g[i]):
                acc.ok(('kron', i), True, 'kronecker-basis')
            else:
                acc.fail('dirac:kron:%d' % i, case, 'gamma[%d] differs from the Kronecker construction of the Grid basis' % i)
        if np.array_equal(kg5, g5):
            acc.ok('kron5', True, 'kronecker-basis')
        else:
            acc.fail('dirac:kron:5', case, 'gamma5 differs from sigma_z x 1')
        acc.sample({'kind': 'dirac', 'relation': '{gamma_mu,gamma_nu}=2 delta', 'mu': 0, 'nu': 3})
    elif k == 'tags':
        table = _tag_table()
        for tag, exp in table.items():
            sub = dict(case, tag=tag)
            try:
                got = pe.dirac.Grid_gamma(tag)
            except Exception as e:
                acc.fail('tags:raised:' + tag, sub, 'Grid_gamma(%r) raised %r' % (tag, e))
                continue
            if np.array_equal(np.asarray(got), exp):
                acc.ok(('tag', tag), True, 'tag')
            else:
                acc.fail('tags:wrong:' + tag, sub, 'Grid_gamma(%r) =\n%s\nexpected\n%s' % (tag, got, exp))
        # unknown tags: fixed probes, and for every known tag its case variants, padded / cut forms and Grid's names of the
        # negated structures ('Minus' + tag).  An unknown tag is refused (any exception); a library that learns the negated names
        # may instead return exactly the negated matrix - never the un-negated one.
        table = _tag_table()
        probes = [('gamma5', None), ('', None), ('SigmaTX', None), ('GammaXGammaY', None), ('identity', None), (None, None), (5, None), ('Gamma5 ', None),
                  (b'Gamma5', None), (('Gamma5',), None), ('Minus', None), ('MinusMinusGamma5', None)]
        for tag in table:
            probes += [(tag.lower(), None), (tag.upper(), None), (' ' + tag, None), (tag + ' ', None), (tag[:-1], None), (tag[1:], None), (tag + 'X', None),
                       ('Minus' + tag, -table[tag]), ('-' + tag, -table[tag]), ('minus' + tag, None)]
        # two known tags glued together (only the sixteen stated products exist: 'IdentityGamma5', 'Gamma5Gamma5', 'SigmaXYGamma5' ... do not)
        probes += [(t1 + t2, None) for t1 in table for t2 in table]
        for bad, allowed in probes:
            if isinstance(bad, str) and bad in table:
                continue
            sub = dict(case, tag=repr(bad))
            try:
                got = pe.dirac.Grid_gamma(bad)
            except Exception:
                acc.ok(('badtag', repr(bad)), True, 'unknown-tag-rejected')
                continue
            if allowed is not None and np.shape(got) == (4, 4) and np.array_equal(np.asarray(got), allowed):
                acc.ok(('badtag', repr(bad)), True, 'negated-name-understood')
            else:
                acc.fail('tags:unknown-accepted', sub, 'unknown tag %r returned a matrix%s' % (bad, '' if allowed is None else ' that is not the negated structure'))
        acc.sample({'kind': 'tags', 'tag': 'SigmaYZ', 'expected': '0.5*[gammaY,gammaZ] from Kronecker construction'})
    elif k == 'tags-kept':
        # call history: all named matrices are requested first and kept, then compared - a later call must not change an earlier
        # result; requested in every cyclic order of the tag list, and twice
        table = _tag_table()
        tags = list(table)
        for shift in range(len(tags)):
            order = tags[shift:] + tags[:shift]
            kept = {}
            try:
                for tag in order + order[::-1]:
                    kept.setdefault(tag, []).append(pe.dirac.Grid_gamma(tag))
            except Exception as e:
                acc.fail('tags-kept:raised', dict(case, shift=shift), repr(e))
                continue
            bad = [tag for tag in tags if not all(np.array_equal(np.asarray(g), table[tag]) for g in kept[tag])]
            if bad:
                acc.fail('tags-kept:overwritten', dict(case, shift=shift), 'after requesting all tags in the order starting at %s, the matrices obtained earlier for %s no longer equal the stated products' % (order[0], bad))
            else:
                acc.ok(('tags-kept', shift), True, 'tags-kept')
        # aliasing: the caller modifies a matrix it was given (in place); what is handed out afterwards - the same tag, the other
        # tags, the module-level tables behind them - still equals the stated products
        for tag in tags:
            try:
                g = pe.dirac.Grid_gamma(tag)
                g *= 2
                g[0, 0] = 7.0
                wrong = [t2 for t2 in tags if not np.array_equal(np.asarray(pe.dirac.Grid_gamma(t2)), table[t2])]
                if not np.array_equal(np.asarray(pe.dirac.gamma5), table['Gamma5']) or not np.array_equal(np.asarray(pe.dirac.identity), table['Identity']):
                    wrong.append('module tables')
            except Exception as e:
                acc.fail('tags-kept:raised', dict(case, modified=tag), repr(e))
                continue
            if wrong:
                acc.fail('tags-kept:aliased', dict(case, modified=tag), 'after an in-place change of the matrix returned for %s, %s no longer equal the stated products' % (tag, wrong))
                break
            acc.ok(('tags-alias', tag), True, 'tags-kept')
        acc.sample({'kind': 'tags-kept', 'orders': len(tags)})
    elif k == 'eps-sequence':
        # call history between the two tensors: a complete sweep of one rank, then of the other (index sets valid for one rank
        # only must still be rejected by the other)
        seq = [3, 4] if case['first'] == 3 else [4, 3]
        for rep in range(2):
            for rank in seq:
                f = pe.dirac.epsilon_tensor if rank == 3 else pe.dirac.epsilon_tensor_rank4
                doms = [set(range(1, rank + 1)), set(range(0, rank))]
                nbad = []
                for t in itertools.product(range(5), repeat=rank):
                    inside = any(set(t) <= d for d in doms)
                    try:
                        got = f(*t)
                        ok = inside and got == perm_sign(t, 0)
                    except ValueError:
                        ok = not inside
                    if not ok:
                        nbad.append(t)
                if nbad:
                    acc.fail('eps-sequence:rank%d' % rank, dict(case, rank=rank, round=rep), 'rank-%d sweep as part of the sequence %s (round %d): %d wrong tuples, e.g. %s' % (rank, seq, rep + 1, len(nbad), nbad[:4]))
                else:
                    acc.ok(('eps-seq', case['first'], rank, rep), True, 'eps-sequence')
        acc.sample(dict(case, sweeps='rank %s then rank %s, twice' % tuple(seq)))
    elif k == 'kn':
        ss = _sp()
        n = case['n']
        xs = np.exp(np.linspace(math.log(0.05), math.log(20.0), case['npts'] + 2)[1:-1])
        # large arguments: K_n is of order 1e-9 .. 1e-27 there, far from underflow; value and derivative are compared on their own scale
        xs = np.concatenate([xs, [18.5, 30.0, 60.0]])
        for ix, x in enumerate(xs):
            x = float(x)
            sub = dict(case, x=x)
            o = _obs_at(pe, x, (n, ix))
            try:
                res = pe.derived_observable(lambda z, **kw: pe.special.kn(n, z[0]), [o])
            except Exception as e:
                acc.fail('kn:raised:n=%d' % n, sub, 'K_%d(obs) raised %r' % (n, e))
                continue
            # the order given as numpy integer (signed / unsigned) or integral float
            if ix % 4 == 0:
                for cname, conv in ((('np.int64', np.int64), ('np.uint8', np.uint8), ('np.uint64', np.uint64), ('float', float)) if n >= 0 else (('np.int64', np.int64), ('np.int8', np.int8), ('float', float))):
                    try:
                        r2 = pe.derived_observable(lambda z, **kw: pe.special.kn(conv(n), z[0]), [o])
                        d2, _ = _prop_deriv(r2, o)
                        d1, _ = _prop_deriv(res, o)
                        bad = None if (abs(r2.value - res.value) <= 1e-12 * abs(res.value) and abs(d2 - d1) <= 1e-10 * abs(d1)) else 'value %r derivative %r, with a Python int %r %r' % (r2.value, d2, res.value, d1)
                    except Exception as e:
                        bad = 'raised %r' % (e,)
                    if bad:
                        acc.fail('kn:order-type:%s' % cname, dict(sub, order_type=cname), 'K_n with order %s(%d) at x=%g: %s' % (cname, n, x, bad))
                    else:
                        acc.ok(('kn-type', n, ix, cname), True, 'kn-order-type')
            exp_val = float(ss.kn(n, o.value))
            exp_d = float(-0.5 * (ss.kn(abs(n - 1), o.value) + ss.kn(n + 1, o.value)))
            num_d = _cdiff(lambda t: float(ss.kv(n, t)), o.value)
            got_d, spread = _prop_deriv(res, o)
            if abs(exp_d - num_d) > 1e-6 * abs(exp_d):
                raise engine.MachineryError('K_n recurrence and central difference disagree n=%d x=%g' % (n, x))
            if abs(res.value - exp_val) > 1e-12 * abs(exp_val):
                acc.fail('kn:value:n=%d' % n, sub, 'value %r expected %r' % (res.value, exp_val))
            elif abs(got_d - exp_d) > 1e-10 * abs(exp_d) or spread > 1e-9 * abs(exp_d):
                acc.fail('kn:derivative:n=%d' % n, sub, 'propagated derivative %r expected %r (x=%g)' % (got_d, exp_d, x))
            else:
                acc.ok(('kn', n, ix), True, 'kn-derivative')
            # K_n inside a larger expression of the same call (the chain rule through K_n: an incoming factor multiplies its derivative),
            # and of two observables at once
            if ix % 4 == 1:
                kv, dk = exp_val, exp_d
                comps = {'x*K': (lambda z: z[0] * pe.special.kn(n, z[0]), kv + o.value * dk), 'K**2': (lambda z: pe.special.kn(n, z[0]) ** 2, 2 * kv * dk),
                         'K/x': (lambda z: pe.special.kn(n, z[0]) / z[0], dk / o.value - kv / o.value ** 2), '3*K-1': (lambda z: 3 * pe.special.kn(n, z[0]) - 1, 3 * dk),
                         'K(2x)': (lambda z: pe.special.kn(n, 2 * z[0]), -(ss.kn(abs(n - 1), 2 * o.value) + ss.kn(n + 1, 2 * o.value))),
                         # K_n as a bare term of a sum whose other term depends on the same observable (the two branches share one cotangent)
                         'K+x': (lambda z: pe.special.kn(n, z[0]) + z[0], dk + 1.0), 'x+K': (lambda z: z[0] + pe.special.kn(n, z[0]), dk + 1.0),
                         'K_n+K_(n+1)': (lambda z: pe.special.kn(n, z[0]) + pe.special.kn(n + 1, z[0]), dk - 0.5 * (ss.kn(abs(n), o.value) + ss.kn(n + 2, o.value))),
                         'K+K': (lambda z: pe.special.kn(n, z[0]) + pe.special.kn(n, z[0]), 2 * dk), 'K-x**2': (lambda z: pe.special.kn(n, z[0]) - z[0] ** 2, dk - 2 * o.value)}
                for cn, (f, ed) in comps.items():
                    try:
                        rc = pe.derived_observable(lambda z, **kw: f(z), [o])
                        gd, sp2 = _prop_deriv(rc, o)
                        bad = None if abs(gd - ed) <= 1e-9 * max(abs(ed), abs(kv)) and sp2 <= 1e-8 * max(abs(ed), abs(kv)) else 'propagated derivative %r expected %r' % (gd, float(ed))
                    except Exception as e:
                        bad = 'raised %r' % (e,)
                    if bad:
                        acc.fail('kn:composite:%s' % cn, dict(sub, expression=cn), '%s with K_%d at x=%g: %s' % (cn, n, x, bad))
                    else:
                        acc.ok(('kn-comp', n, ix, cn), True, 'kn-derivative')
                o2 = _obs_at(pe, x * 1.3 + 0.01, (n, ix, 'second'))
                try:
                    r2 = pe.derived_observable(lambda z, **kw: pe.special.kn(n, z[0]) + 2 * pe.special.kn(n, z[1]), [o, o2])
                    e2 = pe.derived_observable(lambda z, **kw: pe.special.kn(n, z[0]), [o]) + 2 * pe.derived_observable(lambda z, **kw: pe.special.kn(n, z[0]), [o2])
                    bad = None if (r2 - e2).is_zero(1e-10) else 'K_n(a) + 2 K_n(b) in one call differs from the sum of two calls'
                except Exception as e:
                    bad = 'raised %r' % (e,)
                if bad:
                    acc.fail('kn:composite:two-arguments', dict(sub, expression='K(a)+2K(b)'), 'K_%d at x=%g: %s' % (n, x, bad))
                else:
                    acc.ok(('kn-comp2', n, ix), True, 'kn-derivative')
        # array arguments, and a caller that changes the tables it got in place: later calls at the same arguments (value and the
        # K_{n-1}, K_{n+1} of the derivative) are not affected
        try:
            obs3 = [_obs_at(pe, float(x), (n, 'arr', i)) for i, x in enumerate(xs[[0, len(xs) // 2, -1]])]
            vals = np.array([o.value for o in obs3])
            first = pe.derived_observable(lambda z, **kw: pe.special.kn(n, z), obs3)
            for m in (abs(n - 1), n, n + 1):
                tab = pe.special.kn(m, vals)
                tab *= 3.0
                tab[0] = -1.0
            again = pe.derived_observable(lambda z, **kw: pe.special.kn(n, z), obs3)
            bad = None
            for i, o in enumerate(obs3):
                ev = float(ss.kn(n, o.value))
                ed = float(-0.5 * (ss.kn(abs(n - 1), o.value) + ss.kn(n + 1, o.value)))
                for nm, r in (('first call', first[i]), ('call after the caller changed earlier tables in place', again[i])):
                    gd, _sp2 = _prop_deriv(r, o)
                    if abs(r.value - ev) > 1e-12 * abs(ev) or abs(gd - ed) > 1e-9 * abs(ed):
                        bad = bad or '%s, component %d: value %r (expected %r), derivative %r (expected %r)' % (nm, i, r.value, ev, gd, ed)
            if not np.allclose(pe.special.kn(n, vals), ss.kn(n, vals), rtol=1e-13, atol=0):
                bad = bad or 'kn(%d, array) after the in-place change of an earlier result: %s' % (n, pe.special.kn(n, vals))
        except Exception as e:
            bad = 'raised %r' % (e,)
        if bad:
            acc.fail('kn:array-argument', dict(case, what='array'), 'K_%d of an array of observables: %s' % (n, bad))
        else:
            acc.ok(('kn-arr', n), True, 'kn-derivative')
        for bad in (0.5, 1.5):
            try:
                pe.special.kn(bad, 1.0)
                acc.fail('kn:noninteger-order-accepted', dict(case, order=bad), 'K_%s accepted' % bad)
            except TypeError:
                acc.ok(('kn-order', n, bad), True, 'noninteger-order-rejected')
        acc.sample({'kind': 'kn', 'n': n, 'x': float(xs[0])})
    elif k == 'special':
        fpe, fsc, lo, hi = _specials()[case['name']]
        xs = np.linspace(lo, hi, case['npts'])
        for ix, x in enumerate(xs):
            x = float(x)
            sub = dict(case, x=x)
            o = _obs_at(pe, x, (case['name'], ix))
            try:
                res = pe.derived_observable(lambda z, **kw: fpe(pe.special, z[0]), [o])
                if isinstance(res, np.ndarray) and res.size == 1:
                    res = res.reshape(-1)[0]  # scipy returns a 0-d array for some functions
            except Exception as e:
                acc.fail('special:raised:' + case['name'], sub, '%s(obs) raised %r' % (case['name'], e))
                continue
            exp_val = float(fsc(o.value))
            exp_d = _cdiff(lambda t: float(fsc(t)), o.value)
            got_d, spread = _prop_deriv(res, o)
            sc = max(abs(exp_d), 1e-3 * abs(exp_val), 1e-12)
            if abs(res.value - exp_val) > 1e-10 * max(1e-300, abs(exp_val)) + 1e-14:
                acc.fail('special:value:' + case['name'], sub, 'value %r expected %r' % (res.value, exp_val))
            elif abs(got_d - exp_d) > 2e-6 * sc or spread > 1e-8 * sc:
                acc.fail('special:derivative:' + case['name'], sub,
                         'propagated derivative %r, central difference %r (x=%g)' % (got_d, exp_d, x))
            else:
                acc.ok(('sp', case['name'], ix), True, 'special-derivative')
        acc.sample({'kind': 'special', 'name': case['name'], 'x': float(xs[0])})
    return acc
