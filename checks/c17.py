"""C17 File readers return exactly the stored numbers at the right configurations.

E-PROD x E-FAULT(listing order): synthetic file sets (every stored number encodes its coordinates)
x selection arguments x every permutation of the directory listing (<=4 entries; <=2-transposition
deviations beyond), injected through patched os.walk / os.listdir.  Ground truth comes from the
generator after the documented reduction."""
import os
import io
import math
import shutil
import warnings
import itertools
import contextlib
import numpy as np
from mc import engine, envpatch, ref, compare
from mc.engine import Acc
from mc.synth import openqcd as sq

LEVEL = 'exploration'
RULE = ('full product per format: openQCD reweighting factors (versions 1.4 / 1.6 / 2.0; 1..3 factors, nfct 1..3, 1..3 sources (thorough: three factor/source shapes); '
        'replica sets {r1}, {r1,r2}, {r1,r2,r10}; 6..12 measurements; first trajectory and spacing in {1,2,5} x {1,2,5}) x '
        'selection {none, r_start/r_stop grid incl. boundaries, r_step 1..3, explicit files+names}; openQCD ms.dat (read_qtop, '
        'extract_t0 / extract_w0 with dtr_cnfg / dtr_read); sfqcd gfms (read_qtop Wilson / Zeuthen flow for every c on the grid, '
        'read_gf_coupling); ms5_xsf (12 correlators, idl selections); sfcf separate / compact / appended layouts (bi, bb, bib; '
        'quarks / offset / wf / wf2 grids; names / files / replica selections); Hadrons meson hdf5 (gammas / meson index / idl); '
        'each x every listing order (all permutations for <=4 directory entries, <=2-transposition deviations beyond).  '
        'Non-trivial = every reader call (all compare every returned number with the generator)')
ASSUMPTIONS = ['synthetic writers follow the layouts the readers document; for every format with a stored example the layout is bound '
               'to the example file at the start of the run (record structure / byte-identical re-serialisation)',
               'formats without a stored example (rwms v1.4, Hadrons hdf5) are bound only through the documented layout']
EXHAUSTIVE = True
REPEAT = 2      # every case is evaluated twice in the same process: the second verdict must equal the first (call-history oracle)
CHUNK = 1


def tmpdir(tag):
    d = '/dev/shm/verif_c17_%d_%s' % (os.getpid(), tag)
    shutil.rmtree(d, ignore_errors=True)
    os.makedirs(d)
    return d


@contextlib.contextmanager
def quiet():
    with warnings.catch_warnings():
        warnings.simplefilter('ignore')
        with contextlib.redirect_stdout(io.StringIO()):
            yield


def obs_samples(o, name):
    return np.asarray(o.deltas[name]) + o.r_values[name]


def check_obs(o, exp_names, exp_idl, exp_samples, rtol=1e-13):
    """names, configuration numbers and per-configuration numbers exactly as stored"""
    if sorted(o.names) != sorted(exp_names):
        return 'chains %s, expected %s' % (o.names, sorted(exp_names))
    for n in exp_names:
        if list(o.idl[n]) != list(exp_idl[n]):
            return 'configurations of %s: %s, expected %s' % (n, list(o.idl[n]), list(exp_idl[n]))
        got = obs_samples(o, n)
        e = np.asarray(exp_samples[n], dtype=float)
        if got.shape != e.shape or not np.all(np.abs(got - e) <= rtol * np.maximum(1.0, np.abs(e))):
            k = int(np.argmax(np.abs(got - e))) if got.shape == e.shape else -1
            return 'numbers on %s differ (first at position %d: %r vs stored %r)' % (n, k, got[k] if k >= 0 else None, e[k] if k >= 0 else None)
    return None


REPLICA_SETS = [[1], [1, 2], [1, 2, 10]]


def build(tier, seed):
    cases = []
    for version in ('1.4', '1.6', '2.0'):
        for reps in REPLICA_SETS:
            for first, spacing in ((1, 1), (5, 1), (2, 2), (4, 2), (10, 5), (3, 1)):
                cases.append({'kind': 'rwms', 'version': version, 'reps': reps, 'first': first, 'spacing': spacing})
            # a file prefix that itself contains the letter that introduces the replica part
            cases.append({'kind': 'rwms', 'version': version, 'reps': reps, 'first': 3, 'spacing': 2, 'prefix': 'runAr'})
            cases.append({'kind': 'rwms', 'version': version, 'reps': reps, 'first': 1, 'spacing': 1, 'prefix': 'corr'})
            # ... and one in which that letter is followed by a digit
            cases.append({'kind': 'rwms', 'version': version, 'reps': reps, 'first': 2, 'spacing': 1, 'prefix': 'master3'})
            if tier == 'thorough':
                for shape in (0, 2):
                    for first, spacing in ((1, 1), (7, 1), (6, 3), (5, 5), (20, 4)):
                        cases.append({'kind': 'rwms', 'version': version, 'reps': reps, 'first': first, 'spacing': spacing, 'shape': shape})
    for reps in REPLICA_SETS:
        for first, spacing in ((1, 1), (2, 2), (6, 3)):
            cases.append({'kind': 'msdat', 'reps': reps, 'first': first, 'spacing': spacing})
            cases.append({'kind': 'gfms', 'reps': reps, 'first': first, 'spacing': spacing})
        cases.append({'kind': 'msdat', 'reps': reps, 'first': 1, 'spacing': 1, 'prefix': 'run7'})
        cases.append({'kind': 'msdat', 'reps': reps, 'first': 1, 'spacing': 1, 'prefix': 'corr5'})
        # flow measured every dn-th integration step (header field dn > 1), larger lattice so that the flow-time index is > 1
        cases.append({'kind': 'msdat', 'reps': reps, 'first': 2, 'spacing': 2, 'dn': 2, 'L': 4})
        cases.append({'kind': 'msdat', 'reps': reps, 'first': 1, 'spacing': 1, 'dn': 3, 'L': 6})
        cases.append({'kind': 'gfms', 'reps': reps, 'first': 1, 'spacing': 1, 'prefix': 'rr'})
        cases.append({'kind': 'gfms', 'reps': reps, 'first': 1, 'spacing': 1, 'prefix': 'r2'})
        cases.append({'kind': 'gfms', 'reps': reps, 'first': 2, 'spacing': 2, 'zthfl': 1})      # a file with the Wilson flow only
        cases.append({'kind': 'ms5', 'reps': reps})
        cases.append({'kind': 'ms5', 'reps': reps, 'prefix': 'corrD'})
        cases.append({'kind': 'ms5', 'reps': reps, 'prefix': 'xr4'})
    # stored numbers of another magnitude: exponents x with |x| of a few hundred (exp(-x) still a finite double)
    for version in ('1.4', '1.6', '2.0'):
        for shift in (250.0, -250.0, 600.0):
            cases.append({'kind': 'rwms', 'version': version, 'reps': [1, 2], 'first': 1, 'spacing': 1, 'rw_shift': shift})
    cases.append({'kind': 'sort-names'})
    from checks import c17_sfcf
    cases += c17_sfcf.build(tier)
    return cases


def run_case(case):
    pe = engine.import_pyerrors()
    acc = Acc()
    problems = sq.bind_examples(engine.REPO)
    if problems:
        raise engine.MachineryError('synthetic formats not bound to the stored examples: %s' % problems)
    k = case['kind']
    d = tmpdir(k)
    from mc.synth import sfcf as sfs
    sfs.SCALE, sq.RW_SHIFT = case.get('scale', 1.0), case.get('rw_shift', 0.0)
    try:
        with quiet():
            if k == 'rwms':
                run_rwms(pe, acc, case, d)
            elif k == 'msdat':
                run_msdat(pe, acc, case, d)
            elif k == 'gfms':
                run_gfms(pe, acc, case, d)
            elif k == 'ms5':
                run_ms5(pe, acc, case, d)
            elif k == 'sort-names':
                run_sort_names(pe, acc, case)
            else:
                from checks import c17_sfcf
                c17_sfcf.run(pe, acc, case, d)
    finally:
        sfs.SCALE, sq.RW_SHIFT = 1.0, 0.0
        shutil.rmtree(d, ignore_errors=True)
    return acc


# ----------------------------------------------------------------------------- rwms
def run_rwms(pe, acc, case, d):
    version, reps, first, spacing = case['version'], case['reps'], case['first'], case['spacing']
    nfct, nsrc = [([1], [1]), ([2, 1], [2, 3]), ([1, 2, 3], [3, 1, 2])][case.get('shape', 1)]
    if version == '1.4':
        nfct = [1] * len(nsrc)
    nmeas = {1: 11, 2: 14, 10: 9}
    prefix = case.get('prefix', 'ensA')
    trajs, cfgs, truth = {}, {}, {}
    for r in reps:
        trajs[r] = sq.traj_numbers(nmeas[r], first, spacing)
        sq.write_rwms(os.path.join(d, '%sr%d.ms1.dat' % (prefix, r)), version, r, trajs[r], nfct, nsrc)
        cfgs[r] = sq.config_numbers(trajs[r])
        truth[r] = sq.truth_rwms(version, r, nmeas[r], nfct, nsrc)
    # a file that must be ignored by the pattern
    open(os.path.join(d, 'other.txt'), 'w').write('x')
    names = {r: '%s|r%d' % (prefix, r) for r in reps}
    sel_list = [{}]
    c0 = {r: cfgs[r] for r in reps}
    sel_list.append({'r_start': [c0[r][0] for r in reps], 'r_stop': [c0[r][-1] for r in reps]})
    sel_list.append({'r_start': [c0[r][1 + ri] for ri, r in enumerate(reps)], 'r_stop': [c0[r][-2 - (len(reps) - 1 - ri)] for ri, r in enumerate(reps)]})
    sel_list.append({'r_start': [c0[r][2 - (ri % 2)] for ri, r in enumerate(reps)]})
    sel_list.append({'r_stop': [c0[r][5] for r in reps]})
    sel_list.append({'r_start': [c0[r][0] for r in reps], 'r_stop': [c0[r][-1] for r in reps], 'r_step': 1 if min(len(c0[r]) for r in reps) < 10 else 2})
    sel_list.append({'r_start': [c0[r][1] for r in reps], 'r_stop': [c0[r][-1] for r in reps], 'r_step': 1 if min(len(c0[r]) for r in reps) < 14 else 3})
    sel_list.append({'r_step': 1 if min(len(c0[r]) for r in reps) < 10 else 2})
    nent = len(reps) + 1
    for si, sel in enumerate(sel_list):
        for order in envpatch.orders(nent):
            sub = dict(case, sel=sel, order=order)
            if 'sel' in case and (case['sel'], case['order']) != (sel, order):
                continue
            try:
                with envpatch.listing_order(order):
                    res = pe.input.openQCD.read_rwms(d, prefix, version=version, postfix='ms1', **sel)
            except Exception as e:
                acc.fail('rwms:raised', sub, 'read_rwms(version %s, replicas %s, first %d, spacing %d, %s, listing %s) raised %s: %s' % (
                    version, reps, first, spacing, sel, order, type(e).__name__, e))
                continue
            bad = None
            if len(res) != len(nsrc):
                bad = '%d observables, expected %d' % (len(res), len(nsrc))
            for i in range(len(nsrc)):
                if bad:
                    break
                exp_idl, exp_s = {}, {}
                for ri, r in enumerate(reps):
                    a = c0[r].index(sel['r_start'][ri]) if 'r_start' in sel else 0
                    b = c0[r].index(sel['r_stop'][ri]) if 'r_stop' in sel else len(c0[r]) - 1
                    step = sel.get('r_step', 1)
                    exp_idl[names[r]] = c0[r][a:b + 1][::step]
                    exp_s[names[r]] = truth[r][i][a:b + 1][::step]
                bad = check_obs(res[i], list(names.values()), exp_idl, exp_s)
                if bad:
                    bad = 'factor %d: %s' % (i, bad)
            if bad:
                acc.fail('rwms:%s' % ('listing-order' if order != list(range(nent)) and not case.get('_base_failed') else 'values'), sub,
                         'read_rwms(version %s, replicas %s, first trajectory %d, spacing %d, %s, listing order %s): %s' % (version, reps, first, spacing, sel, order, bad))
            else:
                acc.ok(('rwms', version, tuple(reps), first, spacing, si, tuple(order)), True, 'rwms')
    # selections that name a configuration the file does not store, on each replica in turn: refused
    for which in range(len(reps)):
        r = reps[which]
        step = c0[r][1] - c0[r][0]
        probes = [('r_stop-beyond-last', 'r_stop', c0[r][-1] + step), ('r_stop-far-beyond-last', 'r_stop', c0[r][-1] + 1000), ('r_start-beyond-last', 'r_start', c0[r][-1] + step)]
        if c0[r][0] - step >= 1:
            probes.append(('r_start-before-first', 'r_start', c0[r][0] - step))
        if step > 1:
            probes += [('r_start-in-gap', 'r_start', c0[r][2] + 1), ('r_stop-in-gap', 'r_stop', c0[r][-2] - 1)]
        for pn, arg, val in probes:
            sel = {arg: [val if i == which else None for i in range(len(reps))]}
            sub = dict(case, sel=sel, probe=pn)
            try:
                res = pe.input.openQCD.read_rwms(d, prefix, version=version, postfix='ms1', **sel)
                acc.fail('rwms:unstored-configuration-accepted', sub, 'read_rwms(%s) although replica %d stores %s: returned configurations %s' % (sel, r, c0[r], {n: list(res[0].idl[n]) for n in res[0].idl}))
            except Exception:
                acc.ok(('rwms-unstored', version, tuple(reps), first, spacing, which, pn), True, 'unstored-configuration-refused')
    # explicit files (with and without names) in EVERY order of the list: data, configuration numbers and names stay together,
    # and per-replica selections follow the order of the list that was passed
    if len(reps) > 1:
        for perm in itertools.permutations(reps):
            files = ['%sr%d.ms1.dat' % (prefix, r) for r in perm]
            name_sets = {'auto': None, 'rep': ['ensA|rep%d' % r for r in perm],
                         'unsorted-labels': ['ensA|%s' % 'zyx'[i] for i in range(len(perm))]}      # labels that sort against the file order
            for nk, nm in name_sets.items():
                for with_sel in (False, True):
                    sel = {'r_start': [c0[r][1 + (r % 2)] for r in perm], 'r_stop': [c0[r][-2] for r in perm]} if with_sel else {}
                    sub = dict(case, files=files, names=nk, sel=with_sel)
                    eff = nm if nm is not None else [names[r] for r in perm]
                    try:
                        kw = dict(sel)
                        if nm is not None:
                            kw['names'] = list(nm)
                        res = pe.input.openQCD.read_rwms(d, prefix, version=version, files=list(files), **kw)
                        exp_idl, exp_s = {}, [dict() for _ in nsrc]
                        for n, r in zip(eff, perm):
                            a = c0[r].index(sel['r_start'][list(perm).index(r)]) if with_sel else 0
                            b = c0[r].index(sel['r_stop'][list(perm).index(r)]) if with_sel else len(c0[r]) - 1
                            exp_idl[n] = c0[r][a:b + 1]
                            for i in range(len(nsrc)):
                                exp_s[i][n] = truth[r][i][a:b + 1]
                        bad = None
                        for i in range(len(nsrc)):
                            bad = bad or check_obs(res[i], list(eff), exp_idl, exp_s[i])
                        if bad:
                            acc.fail('rwms:files-names', sub, 'explicit files %s, names %s%s: %s' % (files, nm or 'automatic', ' with r_start/r_stop' if with_sel else '', bad))
                        else:
                            acc.ok(('rwms-files', version, tuple(perm), first, spacing, nk, with_sel), True, 'rwms-files')
                    except Exception as e:
                        acc.fail('rwms:files-names:raised', sub, 'explicit files %s, names %s: %r' % (files, nk, e))
    acc.sample({'kind': 'rwms', 'version': version, 'replicas': reps, 'first_trajectory': first, 'spacing': spacing, 'selections': sel_list[:4], 'listing_orders': len(envpatch.orders(nent))})


# ----------------------------------------------------------------------------- the helper that orders replica files
def run_sort_names(pe, acc, case):
    """sort_names puts replica names into numerical order whatever order they are listed in (every permutation)."""
    families = {
        'r<d>': lambda n: 'ensAr%d.ms1.dat' % n, 'r<d> bare': lambda n: 'r%d' % n, 'id<d>': lambda n: 'data_id%d' % n,
        'r<d>_id<d>': lambda n: 'Xr%d_id7' % n, 'no marker (rep<d>)': lambda n: 'rep%d' % n, 'no marker (prefix_<d>.ext)': lambda n: 'run_%d.dat' % n,
        'no marker, common leading digit': lambda n: 'b%d' % (100 + n), 'no marker, zero padded': lambda n: 'cfg%03d' % n,
        # the common prefix itself contains the marker letter followed by a digit
        'r<d> after a prefix containing r<d>': lambda n: 'master3r%d.ms1.dat' % n, 'r<d> after r<d>': lambda n: 'xr2r%d.dat' % n,
        'id<d> after a prefix containing id<d>': lambda n: 'grid4id%d' % n, 'r<d>id<d> after a prefix containing r<d>': lambda n: 'corr5r%did%d' % (n // 3, n % 3),
    }
    for fam, mk in families.items():
        for nums in ([1, 2], [1, 2, 10], [2, 10, 11], [0, 5, 30, 100], [9, 10], [1, 10, 100]):
            want = [mk(n) for n in nums]
            for perm in itertools.permutations(want):
                sub = dict(case, family=fam, listing=list(perm))
                try:
                    with quiet():
                        got = pe.input.utils.sort_names(list(perm))
                except Exception as e:
                    acc.fail('sort-names:raised', sub, 'sort_names(%s) raised %s: %s' % (list(perm), type(e).__name__, e))
                    continue
                if list(got) != want:
                    acc.fail('sort-names:order', sub, 'sort_names(%s) = %s, numerical order is %s' % (list(perm), got, want))
                else:
                    acc.ok(('sortn', fam, tuple(nums), perm), True, 'sort-names')
    acc.sample({'kind': 'sort-names', 'families': list(families), 'listings': 'every permutation of 2..4 names'})


# ----------------------------------------------------------------------------- ms.dat
def run_msdat(pe, acc, case, d):
    reps, first, spacing = case['reps'], case['first'], case['spacing']
    prefix = case.get('prefix', 'ensB')
    dn, nn, tmax, eps, L = case.get('dn', 1), 12, 4, 0.05, case.get('L', 2)
    nmeas = {1: 9, 2: 12, 10: 8}
    trajs, cfgs = {}, {}
    for r in reps:
        trajs[r] = sq.traj_numbers(nmeas[r], first, spacing)
        sq.write_msdat(os.path.join(d, '%sr%d.ms.dat' % (prefix, r)), r, trajs[r], dn, nn, tmax, eps)
        cfgs[r] = sq.config_numbers(trajs[r], always_offset=True)
    names = {r: '%s|r%d' % (prefix, r) for r in reps}
    nent = len(reps)
    # read_qtop (openQCD): sum over timeslices of the Q block at the flow time closest to (cL)^2/8
    for c in (0.3, 0.45, 0.6):
        index_aim = round((c * L) ** 2 / 8 / eps / dn)
        if index_aim > nn:
            continue
        for sel in ({}, {'r_start': [cfgs[r][1] for r in reps], 'r_stop': [cfgs[r][-2] for r in reps]}):
            for order in envpatch.orders(nent):
                sub = dict(case, c=c, sel=sel, order=order)
                try:
                    with envpatch.listing_order(order):
                        q = pe.input.openQCD.read_qtop(d, prefix, c, L=L, **sel)
                except Exception as e:
                    acc.fail('msdat:qtop:raised', sub, 'read_qtop(c=%g, %s, listing %s) raised %s: %s' % (c, sel, order, type(e).__name__, e))
                    continue
                exp_idl, exp_s = {}, {}
                for ri, r in enumerate(reps):
                    a = cfgs[r].index(sel['r_start'][ri]) if sel else 0
                    b = cfgs[r].index(sel['r_stop'][ri]) if sel else len(cfgs[r]) - 1
                    exp_idl[names[r]] = cfgs[r][a:b + 1]
                    exp_s[names[r]] = [math.fsum(sq.flow_value(r, k, 2, index_aim, t) for t in range(tmax)) for k in range(nmeas[r])][a:b + 1]
                bad = check_obs(q, list(names.values()), exp_idl, exp_s, 1e-12)
                if bad:
                    acc.fail('msdat:qtop', sub, 'read_qtop(c=%g, replicas %s, first %d, spacing %d, %s, listing %s): %s' % (c, reps, first, spacing, sel, order, bad))
                else:
                    acc.ok(('qtop', tuple(reps), first, spacing, c, bool(sel), tuple(order)), True, 'qtop')
    # selections that name a configuration which is not stored (beyond the last, before the first, inside a gap of the measurement
    # spacing), on each replica in turn: "precisely the requested configurations" cannot be served - refused
    for which in range(len(reps)):
        r = reps[which]
        step = cfgs[r][1] - cfgs[r][0]
        probes = [('r_stop-beyond-last', 'r_stop', cfgs[r][-1] + step), ('r_stop-far-beyond-last', 'r_stop', cfgs[r][-1] + 1000), ('r_start-beyond-last', 'r_start', cfgs[r][-1] + step)]
        if cfgs[r][0] - step >= 1:
            probes.append(('r_start-before-first', 'r_start', cfgs[r][0] - step))
        if step > 1:
            probes += [('r_start-in-gap', 'r_start', cfgs[r][2] + 1), ('r_stop-in-gap', 'r_stop', cfgs[r][-2] - 1)]
        for pn, arg, val in probes:
            sel = {arg: [val if i == which else None for i in range(len(reps))]}
            sub = dict(case, sel=sel, probe=pn)
            try:
                q = pe.input.openQCD.read_qtop(d, prefix, 0.3, L=L, **sel)
                acc.fail('msdat:qtop:unstored-configuration-accepted', sub, 'read_qtop(%s) although replica %d stores %s: returned configurations %s' % (sel, r, cfgs[r], {n: list(q.idl[n]) for n in q.idl}))
            except Exception:
                acc.ok(('qtop-unstored', tuple(reps), first, spacing, which, pn), True, 'unstored-configuration-refused')
    # explicit files (automatic names / given names) in every order of the list
    if len(reps) > 1:
        c = 0.3
        index_aim = round((c * L) ** 2 / 8 / eps / dn)
        for perm in itertools.permutations(reps):
            files = ['%sr%d.ms.dat' % (prefix, r) for r in perm]
            for nk, nm in (('auto', None), ('unsorted-labels', ['ensA|%s' % 'zyx'[i] for i in range(len(perm))])):
                sub = dict(case, files=files, names=nk)
                eff = nm if nm is not None else [names[r] for r in perm]
                try:
                    kw = {'names': list(nm)} if nm is not None else {}
                    q = pe.input.openQCD.read_qtop(d, prefix, c, L=L, files=list(files), **kw)
                    exp_idl = {n: cfgs[r] for n, r in zip(eff, perm)}
                    exp_s = {n: [math.fsum(sq.flow_value(r, k, 2, index_aim, t) for t in range(tmax)) for k in range(nmeas[r])] for n, r in zip(eff, perm)}
                    bad = check_obs(q, list(eff), exp_idl, exp_s, 1e-12)
                except Exception as e:
                    bad = 'raised %r' % (e,)
                if bad:
                    acc.fail('msdat:qtop:files-names', sub, 'read_qtop with explicit files %s, names %s: %s' % (files, nm or 'automatic', bad))
                else:
                    acc.ok(('qtop-files', tuple(perm), first, spacing, nk), True, 'qtop-files')
    # the caller's selection lists (with None = no restriction) are not modified, and a second call with the same list objects
    # gives the same observable
    for rdr in ('qtop', 't0'):
        rs = [None if i % 2 == 0 else cfgs[r][-2] for i, r in enumerate(reps)]
        rst = [cfgs[r][1] if i % 2 == 0 else None for i, r in enumerate(reps)]
        before = (list(rs), list(rst))
        sub = dict(case, sel='lists-with-None', reader=rdr)
        try:
            def rd():
                if rdr == 'qtop':
                    return pe.input.openQCD.read_qtop(d, prefix, 0.3, L=L, r_start=rst, r_stop=rs)
                return pe.input.openQCD.extract_t0(d, prefix, dtr_read=1, xmin=1, spatial_extent=1, fit_range=2, c=0.5, r_start=rst, r_stop=rs)
            try:
                q1 = rd()
            except Exception:
                q1 = None            # (t0: the fit window may lie outside the data - a refusal, checked above)
            mid = (list(rs), list(rst))
            q2 = rd() if q1 is not None else None
            bad = None
            if mid != before or (list(rs), list(rst)) != before:
                bad = 'the reader changed the r_start / r_stop lists passed by the caller: %s -> %s' % (before, (list(rs), list(rst)))
            elif q1 is not None:
                if rdr == 'qtop':
                    exp_idl = {names[r]: cfgs[r][(1 if i % 2 == 0 else 0):(len(cfgs[r]) if i % 2 == 0 else len(cfgs[r]) - 1)] for i, r in enumerate(reps)}
                    if {n: list(q1.idl[n]) for n in q1.idl} != exp_idl:
                        bad = 'configurations %s, expected %s' % (q1.idl, exp_idl)
                if not bad and not (q1 - q2).is_zero(1e-14):
                    bad = 'a second call with the same list objects gives another observable'
        except Exception as e:
            bad = 'raised %s: %s' % (type(e).__name__, e)
        if bad:
            acc.fail('msdat:%s:selection-lists' % rdr, sub, '%s with r_start=%s r_stop=%s: %s' % (rdr, before[1], before[0], bad))
        else:
            acc.ok(('sel-lists', rdr, tuple(reps), first, spacing, dn), True, 'selection-lists')
    # dtr_cnfg = 2: every second measurement belongs to a configuration
    if spacing == 1 and first == 1:
        try:
            q = pe.input.openQCD.read_qtop(d, prefix, 0.3, L=L, dtr_cnfg=2)
            index_aim = round((0.3 * L) ** 2 / 8 / eps / dn)
            exp_idl, exp_s = {}, {}
            ok_len = True
            for r in reps:
                cl = [t // 1 // 2 for t in trajs[r]]
                if cl[0] > 1:
                    cl = [x - (cl[0] - 1) for x in cl]
                exp_s[names[r]] = [math.fsum(sq.flow_value(r, 2 * i, 2, index_aim, t) for t in range(tmax)) for i in range(nmeas[r] // 2)]
            for r in reps:
                got = obs_samples(q, names[r])
                if not np.allclose(got, exp_s[names[r]], rtol=1e-12, atol=0):
                    acc.fail('msdat:qtop:dtr_cnfg', dict(case, dtr_cnfg=2), 'dtr_cnfg=2: numbers on %s are not those of every second measurement' % names[r])
                    break
            else:
                acc.ok(('qtop-dtr', tuple(reps)), True, 'qtop-dtr_cnfg')
        except Exception as e:
            acc.ok(('qtop-dtr-ref', tuple(reps)), False, 'qtop-dtr_cnfg-refused')
    # extract_t0 / extract_w0: root of the straight-line fit through 2*fit_range points around the zero crossing
    for plaquette in (False, True):
        for fit_range in (2, 3):
            for sel in ({}, {'r_start': [cfgs[r][1] for r in reps], 'r_stop': [cfgs[r][-1] for r in reps]}):
                for order in envpatch.orders(nent)[:6]:
                    sub = dict(case, plaquette=plaquette, fit_range=fit_range, sel=sel, order=order)
                    raised = None
                    try:
                        with envpatch.listing_order(order):
                            t0 = pe.input.openQCD.extract_t0(d, prefix, dtr_read=1, xmin=1, spatial_extent=1, fit_range=fit_range, plaquette=plaquette, c=0.5, **sel)
                    except Exception as e:
                        raised = e
                    block = 0 if plaquette else 1
                    E = {}
                    for n in range(nn + 1):
                        samples, idl = {}, {}
                        for ri, r in enumerate(reps):
                            a = cfgs[r].index(sel['r_start'][ri]) if sel else 0
                            b = cfgs[r].index(sel['r_stop'][ri]) if sel else len(cfgs[r]) - 1
                            samples[names[r]] = [float(np.mean([sq.flow_value(r, k, block, n, t) for t in range(1, tmax - 1)])) for k in range(nmeas[r])][a:b + 1]
                            idl[names[r]] = cfgs[r][a:b + 1]
                        E[n] = (samples, idl)
                    exp = expected_root(pe, E, [n * dn * eps for n in range(nn + 1)], 0.5, fit_range, list(names.values()))
                    if raised is not None:
                        if exp is None:      # the fit window around the zero crossing does not lie inside the stored flow times
                            acc.ok(('t0-ref', tuple(reps), first, spacing, plaquette, fit_range, bool(sel), tuple(order), dn), False, 't0-window-outside-data-refused')
                        else:
                            acc.fail('msdat:t0:raised', sub, 'extract_t0 raised %s: %s' % (type(raised).__name__, raised))
                        continue
                    bad = ref.close(exp, compare.to_ref(t0), 1e-7) if exp is not None else None
                    if bad:
                        acc.fail('msdat:t0', sub, 'extract_t0(plaquette=%s, fit_range=%d, %s, listing %s): %s' % (plaquette, fit_range, sel, order, bad))
                    else:
                        acc.ok(('t0', tuple(reps), first, spacing, plaquette, fit_range, bool(sel), tuple(order)), True, 't0')
    acc.sample({'kind': 'msdat', 'replicas': reps, 'first_trajectory': first, 'spacing': spacing, 'readers': ['read_qtop', 'extract_t0']})


def expected_root(pe, E, times, c, fit_range, names):
    """t^2 E - c, straight-line GLS through the 2*fit_range points around the zero crossing, root -p0/p1."""
    rs = []
    for n, t in enumerate(times):
        samples, idl = E[n]
        r = ref.r_from_samples({k: np.array(v) for k, v in samples.items()}, idl)
        rs.append(ref.r_propagate(t * t * r['value'] - c, [t * t], [r]))
    vals = [r['value'] for r in rs]
    zc = int(np.argmax(np.array(vals) > 0.0))
    if zc == 0:
        return None
    sel = list(range(zc - fit_range, zc + fit_range))
    if min(sel) <= 0 or max(sel) >= len(times):
        return None      # window outside the data, or containing t = 0 where t^2 E - c is the exact number -c (zero error: no weight)
    # errors of the points (weights of the fit): analyse with the implementation (gamma method is decided by C02)
    ys = []
    for n in sel:
        samples, idl = E[n]
        nm = sorted(samples)
        o = pe.Obs([np.array(samples[k]) for k in nm], nm, idl=[idl[k] for k in nm])
        y = times[n] ** 2 * o - c
        y.gamma_method()
        ys.append(y)
    A = np.array([[1.0, times[n]] for n in sel])
    W = np.diag([1 / y.dvalue ** 2 for y in ys])
    K = np.linalg.solve(A.T @ W @ A, A.T @ W)
    p = K @ np.array([rs[n]['value'] for n in sel])
    root = -p[0] / p[1]
    g = [(-K[0, i] / p[1] + p[0] * K[1, i] / p[1] ** 2) for i in range(len(sel))]
    return ref.r_propagate(root, g, [rs[n] for n in sel])


# ----------------------------------------------------------------------------- gfms (sfqcd)
def run_gfms(pe, acc, case, d):
    reps, first, spacing = case['reps'], case['first'], case['spacing']
    prefix = case.get('prefix', 'ensC')
    ncs, tmax, L, cmax = 4, 5, 4, 0.4
    nmeas = {1: 8, 2: 10, 10: 7}
    trajs, cfgs = {}, {}
    zthfl = case.get('zthfl', 2)         # 2: Zeuthen and Wilson flow in the file, 1: only the Wilson flow
    for r in reps:
        trajs[r] = sq.traj_numbers(nmeas[r], first, spacing)
        sq.write_gfms(os.path.join(d, '%sr%d.gfms.dat' % (prefix, r)), r, trajs[r], zthfl, ncs, tmax, L, cmax)
        c_ = [t // spacing for t in trajs[r]]
        if c_[0] > 1:
            c_ = [x - (c_[0] - 1) for x in c_]
        cfgs[r] = c_
    names = {r: '%s|r%d' % (prefix, r) for r in reps}
    nent = len(reps)
    for zeuthen in (False, True):
        for jc in range(ncs + 1):
            c = cmax / ncs * jc
            for sel in ({}, {'r_start': [cfgs[r][1] for r in reps], 'r_stop': [cfgs[r][-2] for r in reps]}):
                for order in (envpatch.orders(nent) if jc in (1, 3) else [list(range(nent))]):
                    sub = dict(case, zeuthen=zeuthen, jc=jc, sel=sel, order=order)
                    try:
                        with envpatch.listing_order(order):
                            q = pe.input.openQCD.read_qtop(d, prefix, c, version='sfqcd', Zeuthen_flow=zeuthen, **sel)
                    except Exception as e:
                        if zthfl != 2 and zeuthen:
                            acc.ok(('gfq-nz', tuple(reps), first, spacing, jc, bool(sel), tuple(order)), True, 'zeuthen-flow-not-in-file-refused')
                            continue
                        acc.fail('gfms:qtop:raised', sub, 'read_qtop(sfqcd, c=%g, Zeuthen=%s, %s) raised %s: %s' % (c, zeuthen, sel, type(e).__name__, e))
                        continue
                    if zthfl != 2 and zeuthen:
                        acc.fail('gfms:qtop:zeuthen-not-in-file-accepted', sub, 'the file holds only the Wilson flow (header flag %d), Zeuthen_flow=True returned %r' % (zthfl, q))
                        continue
                    iobs = 0 if (zeuthen or zthfl != 2) else 8
                    exp_idl, exp_s = {}, {}
                    for ri, r in enumerate(reps):
                        a = cfgs[r].index(sel['r_start'][ri]) if sel else 0
                        b = cfgs[r].index(sel['r_stop'][ri]) if sel else len(cfgs[r]) - 1
                        exp_idl[names[r]] = cfgs[r][a:b + 1]
                        exp_s[names[r]] = [math.fsum(sq.gf_value(r, k, jc, iobs, t) for t in range(tmax)) for k in range(nmeas[r])][a:b + 1]
                    bad = check_obs(q, list(names.values()), exp_idl, exp_s, 1e-12)
                    if not bad and q.tag != {'T': tmax - 1, 'L': L}:
                        bad = 'tag %r' % (q.tag,)
                    if bad:
                        acc.fail('gfms:qtop', sub, 'read_qtop(sfqcd, c=%g (index %d), Zeuthen=%s, replicas %s, first %d, spacing %d, %s, listing %s): %s' % (
                            c, jc, zeuthen, reps, first, spacing, sel, order, bad))
                    else:
                        acc.ok(('gfq', tuple(reps), first, spacing, zeuthen, jc, bool(sel), tuple(order)), True, 'gfms-qtop')
    if zthfl != 2:
        acc.sample({'kind': 'gfms', 'replicas': reps, 'first_trajectory': first, 'spacing': spacing, 'c_grid': ncs + 1, 'flows': 'Wilson only'})
        return
    # gradient-flow coupling (c = 0.3 only): t^2 (5/3 plaq - 1/12 C2x1)(T/2) / norm, Zeuthen flow, observables 6 and 7
    try:
        g = pe.input.openQCD.read_gf_coupling(d, prefix, c=0.3)
        jc = round(0.3 / (cmax / ncs))
        t = (0.3 * L) ** 2 / 8
        norm = 0.012341170468270
        exp_idl = {names[r]: cfgs[r] for r in reps}
        exp_s = {names[r]: [t * t * (5 / 3 * sq.gf_value(r, k, jc, 6, tmax // 2) - 1 / 12 * sq.gf_value(r, k, jc, 7, tmax // 2)) / norm for k in range(nmeas[r])] for r in reps}
        # a derived observable: compare value and fluctuations through the reference
        e = ref.r_from_samples({k: np.array(v) for k, v in exp_s.items()}, exp_idl)
        bad = ref.close(e, compare.to_ref(g), 1e-10)
        if bad:
            acc.fail('gfms:coupling', case, 'read_gf_coupling: %s' % bad)
        else:
            acc.ok(('gfc', tuple(reps), first, spacing), True, 'gf-coupling')
    except Exception as e:
        acc.fail('gfms:coupling:raised', case, repr(e))
    acc.sample({'kind': 'gfms', 'replicas': reps, 'first_trajectory': first, 'spacing': spacing, 'c_grid': ncs + 1})


# ----------------------------------------------------------------------------- ms5_xsf
def run_ms5(pe, acc, case, d):
    reps = case['reps']
    prefix = case.get('prefix', 'ensD')
    tmax = 5
    cfgl = {1: list(range(1, 13)), 2: list(range(2, 26, 2)), 10: [3, 4, 7, 8, 9, 12, 13, 15, 16, 20]}
    for r in reps:
        sq.write_ms5_xsf(os.path.join(d, '%sr%d.ms5_xsf_dd.dat' % (prefix, r)), r, cfgl[r], tmax)
    names = {r: '%s|r%d' % (prefix, r) for r in reps}
    nent = len(reps)
    corrs = sq.PLACES_BI + sq.PLACES_BB
    srt = sorted(reps)      # the expected idl list follows the file list: replica numbers in numeric order for a directory listing
    idl_sel = [None, [cfgl[r][1:-1] for r in srt], [cfgl[r][::2] for r in srt]]
    for ci, corr in enumerate(corrs):
        for sel in idl_sel:
            for order in (envpatch.orders(nent) if ci in (0, 5, 10) else [list(range(nent))]):
                sub = dict(case, corr=corr, idl=sel, order=order)
                kw = {} if sel is None else {'idl': sel}
                try:
                    with envpatch.listing_order(order):
                        res = pe.input.openQCD.read_ms5_xsf(d, prefix, 'dd', corr, **kw)
                except Exception as e:
                    acc.fail('ms5:raised', sub, 'read_ms5_xsf(%s, idl %s, listing %s) raised %s: %s' % (corr, sel, order, type(e).__name__, e))
                    continue
                bb = corr in sq.PLACES_BB
                T = 1 if bb else tmax
                entries = [res] if bb else [res.content[t][0] for t in range(T)] if isinstance(res, pe.Corr) and res.T == T else None
                if entries is None:
                    acc.fail('ms5:shape', sub, 'result for %s is %r' % (corr, res))
                    continue
                bad = None
                for t in range(T):
                    for im, part in ((0, entries[t].real), (1, entries[t].imag)):
                        exp_idl, exp_s = {}, {}
                        for r in reps:
                            cl = cfgl[r] if sel is None else sel[srt.index(r)]
                            exp_idl[names[r]] = cl
                            exp_s[names[r]] = [sq.xsf_value(r, c, ci, t, im) for c in cl]
                        bad = bad or check_obs(part, list(names.values()), exp_idl, exp_s)
                if bad:
                    acc.fail('ms5:values', sub, 'read_ms5_xsf(%s, replicas %s, idl %s, listing %s): %s' % (corr, reps, sel, order, bad))
                else:
                    acc.ok(('ms5', tuple(reps), corr, idl_sel.index(sel), tuple(order)), True, 'ms5_xsf')
    # explicit files in every order, automatic names / given names, idl aligned with the file list
    if len(reps) > 1:
        ci, corr = 5, corrs[5]
        bb = corr in sq.PLACES_BB
        T = 1 if bb else tmax
        for perm in itertools.permutations(reps):
            files = ['%sr%d.ms5_xsf_dd.dat' % (prefix, r) for r in perm]
            for nk, nm in (('auto', None), ('unsorted-labels', ['ensD|%s' % 'zyx'[i] for i in range(len(perm))]), ('labels-with-replica-number', ['ensD|run_r%d' % r for r in perm])):
                for with_idl in (False, True):
                    eff = nm if nm is not None else [names[r] for r in perm]
                    kw = {'files': list(files)}
                    if nm is not None:
                        kw['names'] = list(nm)
                    if with_idl:
                        kw['idl'] = [cfgl[r][1:-1] for r in perm]
                    sub = dict(case, files=files, names=nk, with_idl=with_idl)
                    try:
                        res = pe.input.openQCD.read_ms5_xsf(d, prefix, 'dd', corr, **kw)
                        entries = [res] if bb else [res.content[t][0] for t in range(T)]
                        bad = None
                        for t in range(T):
                            for im, part in ((0, entries[t].real), (1, entries[t].imag)):
                                exp_idl = {n: (cfgl[r][1:-1] if with_idl else cfgl[r]) for n, r in zip(eff, perm)}
                                exp_s = {n: [sq.xsf_value(r, c, ci, t, im) for c in exp_idl[n]] for n, r in zip(eff, perm)}
                                bad = bad or check_obs(part, list(eff), exp_idl, exp_s)
                    except Exception as e:
                        bad = 'raised %r' % (e,)
                    if bad:
                        acc.fail('ms5:files-names', sub, 'read_ms5_xsf with explicit files %s, names %s%s: %s' % (files, nm or 'automatic', ', idl per file' if with_idl else '', bad))
                    else:
                        acc.ok(('ms5-files', tuple(perm), nk, with_idl), True, 'ms5-files')
    acc.sample({'kind': 'ms5_xsf', 'replicas': reps, 'correlators': corrs, 'idl_selections': 3})
