#!/venv/bin/python
"""Runner: python run.py <ID> --tier quick|thorough [--replay file] [--jobs N]

Exit 0: property held on everything explored (KNOWN-FINDING lines may be printed).
Exit 1: at least one 'VIOLATION property=<id> replay=<path>' line was printed.
Exit 2: the machinery itself is inconsistent (never on the unchanged tree).
"""
import os
import sys
import time
import argparse


def main():
    ap = argparse.ArgumentParser()
    ap.add_argument('prop')
    ap.add_argument('--tier', default=os.environ.get('VERIF_TIER', 'quick'), choices=['quick', 'thorough'])
    ap.add_argument('--replay')
    ap.add_argument('--jobs', type=int, default=int(os.environ.get('VERIF_JOBS', '16')))
    a = ap.parse_args()
    if os.environ.get('PYTHONHASHSEED') != '0':
        os.environ['PYTHONHASHSEED'] = '0'
        os.execv(sys.executable, [sys.executable] + sys.argv)
    here = os.path.dirname(os.path.abspath(__file__))
    sys.path.insert(0, here)
    from mc import engine
    engine.setup_env()
    seed = int(os.environ.get('VERIF_SEED', '0') or 0)
    os.environ['VERIF_SEED'] = str(seed)
    os.environ['VERIF_TIER'] = a.tier
    prop = a.prop.upper()
    if a.replay:
        fails = engine.replay(a.replay)
        for sig, detail in fails:
            print('VIOLATION property=%s replay=%s' % (prop, a.replay))
            print('   sig=%s\n   %s' % (sig, detail[:1500]))
        if not fails:
            print('replay of %s: no violation (twice, identical)' % a.replay)
        return 1 if fails else 0
    import importlib
    mod = importlib.import_module('checks.' + prop.lower())
    t0 = time.time()
    if hasattr(mod, 'main'):
        return mod.main(a.tier, seed, a.jobs)
    cases = list(mod.build(a.tier, seed))
    packs = engine.pmap('checks.' + prop.lower(), 'run_case', cases, a.jobs, seed,
                        chunksize=getattr(mod, 'CHUNK', 1))
    tot = engine.merge_packs(packs)
    extra = mod.coverage_extra(a.tier, seed, cases, tot) if hasattr(mod, 'coverage_extra') else {'batches': len(cases)}
    return engine.report(prop, a.tier, seed, mod.LEVEL, tot, time.time() - t0, mod.RULE, mod.ASSUMPTIONS,
                         extra_cov=extra, exhaustive=getattr(mod, 'EXHAUSTIVE', True))


if __name__ == '__main__':
    sys.exit(main())
