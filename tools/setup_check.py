#!/venv/bin/python
"""MANIFEST.setup_cmd: nothing to build (pure Python); verify the environment and self-test the reference tables."""
import os
import sys
sys.path.insert(0, os.path.dirname(os.path.dirname(os.path.abspath(__file__))))
from mc import engine, ref
pe = engine.import_pyerrors()
ref.self_test()
import jsonschema  # noqa: F401  (C11)
import h5py  # noqa: F401  (C17)
for d in ('evidence', 'replays'):
    os.makedirs(os.path.join(engine.ROOT, d), exist_ok=True)
print('setup ok: pyerrors', pe.__version__, 'from', os.path.dirname(pe.__file__))
