#!/bin/bash
# usage: tools/mutate.sh [-t] <patch.diff> <ID> [<ID> ...]
#   copies /repo to a scratch dir on /dev/shm, applies the patch, (with -t: runs the baseline tests there),
#   runs the named checks (quick tier, or $VERIF_TIER) against the copy via VERIF_REPO, removes the copy.
set -u
RUNTESTS=0
if [ "$1" = "-t" ]; then RUNTESTS=1; shift; fi
PATCH=$(readlink -f "$1"); shift
D=/dev/shm/pe_mut.$$
rm -rf "$D"; mkdir -p "$D"
( cd /repo && git ls-files -z | xargs -0 cp --parents -t "$D" ) || exit 3
cd "$D" && git init -q . >/dev/null 2>&1
if ! git apply --whitespace=nowarn "$PATCH"; then echo "PATCH DOES NOT APPLY"; rm -rf "$D"; exit 3; fi
if [ $RUNTESTS = 1 ]; then
  ( cd "$D" && /venv/bin/python -m pytest -q -x -p no:cacheprovider --timeout=900 -n 8 2>&1 | tail -3 ) || true
fi
cd /verif
rc=0
for id in "$@"; do
  VERIF_REPO="$D" VERIF_NO_EVIDENCE=1 /venv/bin/python run.py "$id" --tier "${VERIF_TIER:-quick}" 2>&1 | grep -E "VIOLATION|KNOWN|sig=|tier=" | head -${MUT_LINES:-8}
done
rm -rf "$D"
