#!/bin/bash
# usage: tools/confirm_seed.sh <seed dir with patch.diff demo.py> <logfile>
#  - demo on an unchanged scratch copy must exit 0, with the patch exit non-zero
#  - the repository's full test suite with the patch: the set of failing tests must equal the baseline's always_fail set
S=$(readlink -f "$1"); LOG=$2
D=/dev/shm/pe_confirm.$$
rm -rf "$D"; mkdir -p "$D"
( cd /repo && git ls-files -z | xargs -0 cp --parents -t "$D" )
cd "$D"
{
echo "== demo without change"; PYTHONPATH="$D" /venv/bin/python "$S/demo.py" > out0.txt 2>&1; echo "exit=$?"; tail -3 out0.txt
git init -q . ; git apply --whitespace=nowarn "$S/patch.diff" || echo "PATCH-DOES-NOT-APPLY"
echo "== demo with change"; PYTHONPATH="$D" /venv/bin/python "$S/demo.py" > out1.txt 2>&1; echo "exit=$?"; tail -3 out1.txt
echo "== test suite with change (full baseline command)"
OMP_NUM_THREADS=1 OPENBLAS_NUM_THREADS=1 /venv/bin/python -m pytest -ra -q -p no:cacheprovider --timeout=900 --continue-on-collection-errors 2>&1 | grep -E "^FAILED|^ERROR|passed|failed" > suite.txt
tail -1 suite.txt
/venv/bin/python - <<'PY'
import json,re
base=set(json.load(open('/root/.vp/BASELINE.json'))['always_fail'])
fails=set()
for l in open('suite.txt'):
    m=re.match(r'(FAILED|ERROR) (tests/\S+?)\.py::(\S+)',l)
    if m: fails.add(m.group(2).replace('/','.')+'::'+m.group(3))
extra=sorted(fails-base)
print('SUITE-OK: failing set is within the baseline always_fail set' if not extra else 'SUITE-BROKEN: additional failures %s'%extra)
PY
} > "$LOG" 2>&1
cd /; rm -rf "$D"
