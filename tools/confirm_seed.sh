#!/bin/bash
# usage: tools/confirm_seed.sh <seed dir with patch.diff demo.py> <logfile>
#  - demo on an unchanged scratch copy must exit 0, with the patch exit non-zero
#  - the repository's test suite (baseline-stable tests) must still pass with the patch
S=$(readlink -f "$1"); LOG=$2
D=/dev/shm/pe_confirm.$$
rm -rf "$D"; mkdir -p "$D"
( cd /repo && git ls-files -z | xargs -0 cp --parents -t "$D" )
cd "$D"
{
echo "== demo without change"; PYTHONPATH="$D" /venv/bin/python "$S/demo.py" > out0.txt 2>&1; echo "exit=$?"; tail -3 out0.txt
git init -q . ; git apply --whitespace=nowarn "$S/patch.diff" || echo "PATCH-DOES-NOT-APPLY"
echo "== demo with change"; PYTHONPATH="$D" /venv/bin/python "$S/demo.py" > out1.txt 2>&1; echo "exit=$?"; tail -3 out1.txt
echo "== test suite with change"
/venv/bin/python -m pytest -q -p no:cacheprovider --timeout=900 -x \
  --deselect tests/fits_test.py::test_combined_fit_no_autograd --deselect tests/fits_test.py::test_fit_no_autograd \
  --deselect tests/obs_test.py::test_function_overloading --deselect tests/roots_test.py::test_root_no_autograd \
  --deselect tests/pandas_test.py::test_nan_df_export_import --deselect tests/pandas_test.py::test_null_first_line_df_export_import \
  --deselect tests/pandas_test.py::test_null_first_line_df_gzsql_export_import --deselect tests/pandas_test.py::test_null_first_line_df_sql_export_import \
  --deselect tests/pandas_test.py::test_null_second_line_df_export_import --deselect tests/pandas_test.py::test_null_second_line_df_gzsql_export_import \
  --deselect tests/pandas_test.py::test_null_second_line_df_sql_export_import 2>&1 | tail -4
} > "$LOG" 2>&1
cd /; rm -rf "$D"
