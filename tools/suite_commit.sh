#!/bin/bash
c=$1; D=/dev/shm/pe_suite_$c; rm -rf $D; mkdir -p $D; cd /repo; git archive $c | tar -x -C $D; cd $D
OMP_NUM_THREADS=1 OPENBLAS_NUM_THREADS=1 /venv/bin/python -m pytest -ra -q -p no:cacheprovider --timeout=900 --continue-on-collection-errors 2>&1 | grep -E "^FAILED|^ERROR|passed|failed" > /dev/shm/suite_$c.txt
/venv/bin/python - <<PY
import json,re
base=set(json.load(open('/root/.vp/BASELINE.json'))['always_fail'])
fails=set()
for l in open('/dev/shm/suite_$c.txt'):
    m=re.match(r'(FAILED|ERROR) (tests/\S+?)\.py::(\S+)',l)
    if m: fails.add(m.group(2).replace('/','.')+'::'+m.group(3))
print('$c', open('/dev/shm/suite_$c.txt').read().strip().splitlines()[-1], 'EXTRA:', sorted(fails-base))
PY
rm -rf $D
