#!/bin/bash
# usage: tools/regress.sh [jobs]   -- every hand-made mutant and every seeded change against the check(s) of its property
#   mutants/cNN_*.patch -> CNN ; seeded/cNN-*/patch.diff -> the checks listed in meta.json caught_by
# prints one line per patch: <name> <check> caught|MISSED ; equivalents listed in mutants/EQUIVALENT are expected MISSED
J=${1:-4}
cd "$(dirname "$0")/.."
list=$(mktemp -p /dev/shm)
for p in mutants/*.patch; do n=$(basename $p .patch); id=$(echo ${n%%_*} | tr c C); echo "$p $id $n" >> $list; done
for d in seeded/*/; do n=$(basename $d); ids=$(/venv/bin/python -c "import json;print(' '.join(json.load(open('$d/meta.json'))['caught_by'][:1]))"); echo "$d/patch.diff $ids seed:$n" >> $list; done
one() { p=$1; id=$2; n=$3; out=$(MUT_LINES=200 tools/mutate.sh $p $id 2>&1); c=$(echo "$out" | grep -c "VIOLATION property=$id"); if echo "$out" | grep -q "PATCH DOES NOT APPLY"; then echo "$n $id NOAPPLY"; elif [ "$c" -gt 0 ]; then echo "$n $id caught"; elif grep -q "^$n " mutants/EQUIVALENT.txt; then echo "$n $id equivalent(MISSED as expected)"; else echo "$n $id MISSED"; fi; }
export -f one
cat $list | xargs -P $J -L 1 bash -c 'one $0 $1 $2'
rm -f $list
