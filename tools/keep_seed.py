#!/venv/bin/python
"""keep_seed.py <src dir> <seed id> <confirm log> <caught-by (comma separated checks)> [note]
Archives a confirmed seeded change under /verif/seeded/<seed id>/ (patch.diff, demo.py, meta.json)."""
import sys, os, json, shutil, re
src, sid, log, caught = sys.argv[1:5]
note = sys.argv[5] if len(sys.argv) > 5 else ''
dst = os.path.join(os.path.dirname(os.path.dirname(os.path.abspath(__file__))), 'seeded', sid)
os.makedirs(dst, exist_ok=True)
shutil.copy(os.path.join(src, 'patch.diff'), dst)
shutil.copy(os.path.join(src, 'demo.py'), dst)
meta = json.load(open(os.path.join(src, 'meta.json')))
txt = open(log).read()
exits = re.findall(r'exit=(\d+)', txt)
suite = [l for l in txt.splitlines() if l.startswith('SUITE')]
tail = [l for l in txt.splitlines() if 'passed' in l or 'failed' in l]
out = {'id': sid, 'property': meta.get('property'), 'summary': meta.get('summary'), 'needs': meta.get('needs'),
       'files_changed': meta.get('files_changed'),
       'author': 'independent sub-agent given only the property text and a scratch worktree',
       'confirmed_by_me': {'demo_exit_without_change': int(exits[0]), 'demo_exit_with_change': int(exits[1]),
                           'suite_with_change': (tail[-1] if tail else ''), 'suite_verdict': suite[0] if suite else '',
                           'how': 'tools/confirm_seed.sh: scratch copy of /repo HEAD on /dev/shm, demo before/after git apply, full baseline test command with the change'},
       'checks_run': 'tools/mutate.sh <patch> ' + ' '.join(caught.split(',')),
       'caught_by': caught.split(','), 'note': note}
json.dump(out, open(os.path.join(dst, 'meta.json'), 'w'), indent=1)
print(sid, out['confirmed_by_me']['demo_exit_without_change'], out['confirmed_by_me']['demo_exit_with_change'], out['confirmed_by_me']['suite_verdict'])
