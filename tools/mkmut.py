#!/venv/bin/python
"""mkmut.py <name> <repo-relative file> <<< 'OLD\n====\nNEW'  -> mutants/<name>.patch (unified diff vs /repo HEAD)"""
import sys, subprocess, os, tempfile, shutil
name, rel = sys.argv[1], sys.argv[2]
old, new = sys.stdin.read().split('\n====\n')
new = new.rstrip('\n')
old = old.rstrip('\n')
src = open('/repo/' + rel).read()
if src.count(old) != 1:
    sys.exit('OLD occurs %d times' % src.count(old))
d = tempfile.mkdtemp(dir='/dev/shm')
os.makedirs(os.path.join(d, 'a', os.path.dirname(rel)))
os.makedirs(os.path.join(d, 'b', os.path.dirname(rel)))
open(os.path.join(d, 'a', rel), 'w').write(src)
open(os.path.join(d, 'b', rel), 'w').write(src.replace(old, new))
p = subprocess.run(['diff', '-u', 'a/' + rel, 'b/' + rel], cwd=d, capture_output=True, text=True)
out = os.path.join(os.path.dirname(os.path.dirname(os.path.abspath(__file__))), 'mutants', name + '.patch')
open(out, 'w').write(p.stdout)
shutil.rmtree(d)
print(out)
