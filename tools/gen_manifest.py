#!/venv/bin/python
"""Regenerates MANIFEST.json from the table below (only checks whose module exists are claimed)."""
import os
import json

ROOT = os.path.dirname(os.path.dirname(os.path.abspath(__file__)))
PY = '/venv/bin/python'

# id -> (category, technique, text, note, design_ref)
T = {
    'C01': ('exploration', 'bounded exhaustive enumeration (operator x operand kind x layout pair; all 2-node expression trees) against a configuration-keyed reference model',
            'every operator/function x operand-kind x ordered layout pair inside the alphabet is executed on the real code and compared (value, every fluctuation on every configuration number, every covariance gradient) with the C01 statement transcribed as a reference model; all expression trees with two internal nodes; split-independence in the promised regime',
            'data values come from a finite data alphabet (seeded); analytic derivative table self-tested at start', '4 C01'),
    'C02': ('exploration', 'bounded exhaustive enumeration of chain layouts x data shapes x analysis parameters against a pair-enumeration Gamma-method reference',
            'all layouts x data shapes x (S,tau_exp,N_sigma,fft,parameter source) in the bound analysed by the real gamma_method and compared with an explicit pair-enumeration transcription of Wolff/Schaefer',
            'the admissible-lag cap is mirrored from the implementation; rounding-critical window decisions skipped and counted', '4 C02'),
    'C03': ('model_checking', 'explicit-state breadth-first search over call histories of the real objects with a lock-step reference (parameter precedence) plus exhaustive metamorphic relabelling product',
            'explicit-state BFS over histories of gamma_method calls / global-and-per-ensemble parameter changes / arithmetic on two live observables; every transition checks immutability of the data, agreement with the reference under the effective parameters, and equality with a never-analysed copy',
            'states are concrete object states (de-duplicated on a hash of all slots and class dictionaries)', '4 C03'),
    'C04': ('model_checking', 'explicit-state breadth-first search over public-operation histories with a structural invariant on every produced object, plus exhaustive malformed-constructor product',
            'BFS over sequences of public operations on a register file of real observables; the structural invariant of the statement is evaluated on every object produced by every transition; all listed malformed constructor requests x positions must raise',
            'states abstracted to structure (argued in DESIGN.md 4 C04)', '4 C04'),
    'C05': ('exploration', 'bounded exhaustive enumeration of weight/observable subset layouts against a dictionary-by-configuration reference',
            'all weight layouts x observable subset kinds x replica subsets x normalisation modes; all ordered pairs for correlate; all partitions for merge_obs; misaligned requests must raise; flag inheritance',
            'weights/observables are functions of the configuration number so positional pairing is visible', '4 C05'),
    'C06': ('exploration', 'bounded exhaustive enumeration of observable lists, orders and options against matrix identities and a Pearson reference',
            'all lists in the bound x all permutations (n<=4) x analysis parameters x correlation flag x smoothing parameter', 'Pearson reference on common configurations', '4 C06'),
    'C07': ('exploration', 'bounded exhaustive enumeration of linear fit set-ups against closed-form GLS',
            'all (basis, data layout, prior form/subset, correlation mode, method, gradient mode, permutation) combinations in the bound compared with the closed-form generalised least-squares solution incl. every fluctuation',
            'minimiser tolerances as in DESIGN.md', '4 C07'),
    'C08': ('exploration', 'bounded exhaustive enumeration of non-linear fit set-ups with stationarity and re-fit sensitivity oracles',
            'all (model, data layout, correlation, prior, gradient mode) combinations; stationarity of the documented chi-square and finite-difference re-fit sensitivities for every data point',
            'finite differences with Richardson extrapolation', '4 C08'),
    'C09': ('exploration', 'bounded exhaustive enumeration of root/integral families x observable subsets against closed forms',
            'all function families x guesses x layouts (roots); all integrands x subsets of observable parameters/limits (integrals) compared with the closed-form inverse / antiderivative',
            'closed forms evaluated through the reference model', '4 C09'),
    'C10': ('exploration', 'bounded exhaustive enumeration of matrix shapes x entry kinds x entry layouts against defining identities as reference differences',
            'all shapes/entry kinds/layout assignments in the bound; identities checked as vanishing reference differences', 'well-conditioned value alphabet', '4 C10'),
    'C11': ('exploration', 'bounded exhaustive enumeration of a structure grammar x content alphabet x transports, attribute-wise round-trip oracle + JSON-schema validation',
            'every structure of the grammar to depth 2 x content alphabet x transport x options is written and read back by the real code and compared attribute-wise; every document validated against the shipped schema',
            'jsonschema Draft 7 validator', '4 C11'),
    'C12': ('exploration', 'bounded exhaustive enumeration of observable lists x layouts x separator modes, attribute-wise round-trip oracle',
            'all lists/layout combinations/separator modes/gz in the bound written and re-imported by the real code', 'documented separator treatment', '4 C12'),
    'C13': ('exploration', 'bounded exhaustive enumeration of chain lengths x layouts x data shapes x resampling tables against explicit-loop resampling',
            'every length in the bound x idl kind x data shape; every bootstrap multiset table for n=5 (exhaustive) and structured tables', 'explicit loops as reference', '4 C13'),
    'C14': ('exploration', 'bounded exhaustive enumeration of undefined-slice patterns x operators x partner types against per-timeslice definitions, with aliasing oracle',
            'all None patterns for small T (exhaustive), deviation-bounded beyond; all operator/function/partner combinations; all index-map arguments; operands deep-compared before/after',
            'per-slice expectations use pyerrors scalar arithmetic (itself decided by C01)', '4 C14'),
    'C15': ('exploration', 'bounded exhaustive enumeration of undefined-slice patterns x variants against the documented formulas and defined-sets',
            'all None patterns for T<=8 (exhaustive), deviation-bounded beyond; every variant; defined-set computed from referenced inputs', 'formula transcriptions', '4 C15'),
    'C16': ('exploration', 'bounded exhaustive enumeration of exact spectra x solver options against the eigen-equation and exact energies',
            'all spectra/T/t0/state/method/sort/ts combinations in the bound', 'exact multi-exponential data', '4 C16'),
    'C17': ('exploration', 'bounded exhaustive enumeration of synthetic file sets x selection arguments x directory-listing permutations against generator ground truth',
            'every file-set shape x selection grid x listing permutation (all for <=4 entries, <=2 transpositions beyond) read by the real readers', 'synthetic writers bound byte-for-byte to stored examples where available', '4 C17'),
    'C18': ('fault_enumeration', 'exhaustive enumeration of truncation offsets of every synthetic file and exported archive',
            'every byte offset of every file in the bound: outcome must be an exception or exactly the complete-record prefix', 'one file truncated at a time', '4 C18'),
    'C19': ('exploration', 'bounded exhaustive enumeration of (value, error, significance, flag) grid against exact rational rounding',
            'all mantissa x decade x value-ratio x significance x flag combinations checked with exact rational arithmetic', 'Fraction arithmetic', '4 C19'),
    'C20': ('exploration', 'complete enumeration of index tuples, tags and algebra relations; derivative grids against recurrence and central differences',
            'complete enumeration of the finite tables; K_n and re-exported special functions on argument grids', 'scipy.special values trusted', '4 C20'),
}

NOT_BUILT = 'check not built yet in this round (planned in DESIGN.md section 4); not claimed until it exists and is silent on the unchanged tree'


def main():
    checks = []
    na = []
    for pid in sorted(T):
        cat, tech, text, note, ref = T[pid]
        if not os.path.exists(os.path.join(ROOT, 'checks', pid.lower() + '.py')):
            na.append({'property_id': pid, 'reason': NOT_BUILT})
            continue
        checks.append({
            'property_id': pid,
            'quick_cmd': '%s run.py %s --tier quick' % (PY, pid),
            'thorough_cmd': '%s run.py %s --tier thorough' % (PY, pid),
            'evidence_file': '/verif/evidence/%s.json' % pid,
            'replay_cmd_template': '%s run.py %s --replay {path}' % (PY, pid),
            'engine': 'mc-engine',
            'level_claimed': {'category': cat, 'text': text, 'design_ref': 'DESIGN.md ' + ref},
            'level_note': note,
            'technique': tech,
        })
    man = {
        'version': 1,
        'setup_cmd': '%s tools/setup_check.py' % PY,
        'hooks': {'guard': 'PYERRORS_VERIF', 'enable': 'no source hooks are needed; checks import pyerrors from /repo (pure Python) in a fresh interpreter',
                  'baseline_off_cmd': 'cd /repo && /venv/bin/python -m pytest -ra -q -p no:cacheprovider --timeout=900 --continue-on-collection-errors',
                  'source_commits': [], 'add_only': True},
        'engines': [{'name': 'mc-engine', 'path': 'mc/engine.py', 'serves_properties': [c['property_id'] for c in checks],
                     'kind_free_text': 'hand-written bounded exhaustive explorer for Python: product/deviation-bounded enumeration, explicit-state BFS over real objects, fault (truncation / listing order) enumeration; reference model in mc/ref.py'}],
        'checks': checks,
        'not_applicable': na,
        'notes': 'All checks run the real pyerrors from /repo (or VERIF_REPO for mutation runs). Known findings: known_findings.json.',
    }
    with open(os.path.join(ROOT, 'MANIFEST.json'), 'w') as f:
        json.dump(man, f, indent=1)
    print('claimed', [c['property_id'] for c in checks])


if __name__ == '__main__':
    main()
