#!/bin/bash
# usage: tools/rebase_patch.sh <patch file>  -- re-creates the patch against /repo HEAD with fuzzy context matching (patch -F3)
P=$(readlink -f "$1"); D=/dev/shm/rebase.$$; rm -rf $D; mkdir -p $D/a $D/b
( cd /repo && git ls-files -z pyerrors | xargs -0 cp --parents -t $D/a ); cp -r $D/a/pyerrors $D/b/
if ( cd $D/b && patch -p1 -F3 -s --no-backup-if-mismatch < "$P" ); then
  ( cd $D && diff -ruN a b | sed 's|^--- a/|--- a/|; s|^+++ b/|+++ b/|' > "$P.new" ); 
  if [ -s "$P.new" ]; then mv "$P.new" "$P"; echo "rebased $1"; else echo "EMPTY $1"; rm -f "$P.new"; fi
else echo "FAILED $1"; fi
rm -rf $D
