#!/bin/bash
# usage: tools/try_seed.sh <seed src dir> <ID> [<ID>...]  -> confirms (demo before/after, full suite) and runs the checks against the change
S=$1; shift
tools/confirm_seed.sh $S /dev/shm/confirm_$(basename $(dirname $S))_$(basename $S).log
grep -E "exit=|SUITE|passed|failed|PATCH" /dev/shm/confirm_$(basename $(dirname $S))_$(basename $S).log | tr '\n' ' '; echo
for id in "$@"; do echo "-- $id: $(MUT_LINES=300 tools/mutate.sh $S/patch.diff $id 2>&1 | grep -c 'VIOLATION property') violation lines"; MUT_LINES=300 tools/mutate.sh $S/patch.diff $id 2>&1 | grep "sig=" | head -3; done
