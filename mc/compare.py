"""Implementation objects -> reference form; structural well-formedness (C04 invariant)."""
import numbers
import numpy as np

DUMMY = '###dummy_covobs###'


def to_ref(o, drop_dummy=True):
    """pyerrors.Obs -> reference dict keyed by configuration number."""
    ch = {}
    for n in o.deltas:
        idl = list(o.idl[n])
        d = o.deltas[n]
        if len(idl) != len(d):
            raise ValueError('malformed Obs: chain %s has %d configurations and %d fluctuations' % (n, len(idl), len(d)))
        ch[n] = {int(c): float(x) for c, x in zip(idl, d)}
    cov = {}
    for n, c in o.covobs.items():
        if drop_dummy and n == DUMMY:
            continue
        cov[n] = (np.array(c.cov, dtype=float), np.array(c.grad, dtype=float).reshape(-1))
    return {'value': float(o.value), 'chains': ch, 'cov': cov, 'rw': bool(o.reweighted)}


def to_ref_any(x, pe):
    """Obs / CObs / number -> (real ref, imag ref)."""
    from . import ref
    if isinstance(x, pe.Obs):
        return to_ref(x), ref.r_const(0.0)
    if isinstance(x, pe.CObs):
        re = to_ref(x.real) if isinstance(x.real, pe.Obs) else ref.r_const(float(x.real))
        im = to_ref(x.imag) if isinstance(x.imag, pe.Obs) else ref.r_const(float(x.imag))
        return re, im
    z = complex(x)
    return ref.r_const(z.real), ref.r_const(z.imag)


def r_values_ref(o):
    return {n: float(v) for n, v in o.r_values.items()}


def wf(o, pe):
    """Structural well-formedness of one Obs per the C04 statement.  Returns None or text."""
    if not isinstance(o, pe.Obs):
        return 'not an Obs: %s' % type(o).__name__
    v = o.value
    if isinstance(v, (complex, np.complexfloating)):
        return 'central value is complex: %r' % (v,)
    if isinstance(v, np.ndarray):
        if v.shape != ():
            return 'central value is an array of shape %s' % (v.shape,)
        if np.iscomplexobj(v):
            return 'central value is a complex 0-d array'
    elif not isinstance(v, (float, np.floating)):
        return 'central value has type %s (the statement: a real floating-point central value)' % type(v).__name__
    names = list(o.names)
    for n in names:
        if not isinstance(n, str):
            return 'name %r is not a string' % (n,)
    if len(set(names)) != len(names):
        return 'names not unique: %s' % names
    covn = set(o.covobs.keys())
    mc = [n for n in names if n not in covn]
    if mc != sorted(mc):
        return 'chain names not sorted: %s' % mc
    if set(names) != set(mc) | covn:
        return 'names %s do not equal chains + covariance names' % names
    if set(mc) != set(o.deltas.keys()):
        return 'chains with fluctuations %s != Monte-Carlo names %s' % (sorted(o.deltas), mc)
    tot = 0
    for n in mc:
        if n not in o.idl or n not in o.shape:
            return 'chain %s lacks a configuration list / length' % n
        idl = o.idl[n]
        if not isinstance(idl, (range, list)):
            return 'configuration list of %s is a %s' % (n, type(idl).__name__)
        il = list(idl)
        if len(il) == 0:
            return 'chain %s is empty' % n
        for c in il:
            if isinstance(c, bool) or not isinstance(c, (int, np.integer)):
                return 'configuration number %r of %s is not an integer' % (c, n)
        if any(b <= a for a, b in zip(il, il[1:])):
            return 'configuration numbers of %s not strictly increasing: %s' % (n, il)
        diffs = set(b - a for a, b in zip(il, il[1:]))
        if len(il) > 1:
            if len(diffs) == 1 and not isinstance(idl, range):
                return 'equally spaced configurations of %s held as list' % n
            if len(diffs) > 1 and isinstance(idl, range):
                return 'irregular configurations held as range'
        d = o.deltas[n]
        if not isinstance(d, np.ndarray) or d.ndim != 1 or d.dtype.kind != 'f':
            return 'fluctuations of %s are not a 1-d float array (%s, %s)' % (
                n, type(d).__name__, getattr(d, 'dtype', None))
        if not (len(il) == len(d) == o.shape[n]):
            return 'chain %s: %d configurations, %d fluctuations, recorded length %s' % (n, len(il), len(d), o.shape[n])
        tot += len(il)
    if o.N != tot:
        return 'sample count N=%s but chains sum to %d' % (o.N, tot)
    # configuration lists and recorded lengths exist for the Monte-Carlo chains and for nothing else
    if set(o.idl.keys()) != set(mc) or set(o.shape.keys()) != set(mc):
        return 'configuration lists for %s, recorded lengths for %s, Monte-Carlo chains %s' % (sorted(o.idl), sorted(o.shape), mc)
    if sum(o.shape.values()) != o.N:
        return 'sample count N=%s but recorded chain lengths %s' % (o.N, dict(o.shape))
    for n in covn:
        if '|' in n:
            return "covariance name %s contains '|'" % n
        if n in o.deltas:
            return 'covariance name %s is also a chain' % n
    if type(o.reweighted) is not bool:
        return 'reweighted flag has type %s' % type(o.reweighted).__name__
    # ensembles group by text before '|'
    ens = sorted(set(n.split('|')[0] for n in names))
    if list(o.e_names) != ens:
        return 'ensemble names %s != %s' % (o.e_names, ens)
    return None


def wf_any(x, pe):
    """Closure: the result of arithmetic is an Obs / CObs (components well-formed) or an
    ndarray of such - never a bare number, never an Obs with complex value."""
    if isinstance(x, pe.Obs):
        return wf(x, pe)
    if isinstance(x, pe.CObs):
        for part, nm in ((x.real, 'real'), (x.imag, 'imag')):
            if isinstance(part, pe.Obs):
                r = wf(part, pe)
                if r:
                    return nm + ' part: ' + r
            elif isinstance(part, numbers.Real) or isinstance(part, (np.floating, np.integer)):
                pass
            else:
                return '%s part of CObs has type %s' % (nm, type(part).__name__)
        if not isinstance(x.real, pe.Obs) and not isinstance(x.imag, pe.Obs):
            return 'CObs without any observable part'
        return None
    if isinstance(x, np.ndarray):
        for i in np.ndindex(x.shape):
            r = wf_any(x[i], pe)
            if r:
                return 'entry %s: %s' % (i, r)
        return None
    return 'result is a bare %s' % type(x).__name__
