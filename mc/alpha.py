"""Shared finite alphabets: configuration sets, chain layouts, data shapes, scalars.

Everything is listed simplest-first.  Numbers come from counter-based generators keyed by
(VERIF_SEED, case key): the seed changes the numbers, never the enumerated structure."""
import os
import zlib
import numpy as np


def seed():
    return int(os.environ.get('VERIF_SEED', '0') or 0)


def rng(*key):
    h = zlib.crc32(repr(key).encode()) & 0xFFFFFFFF
    return np.random.default_rng([seed(), h])


# ---------------------------------------------------------------- configuration sets (>= 5 entries each)
CFG = {
    'c12': list(range(1, 13)),            # contiguous
    'c8': list(range(1, 9)),              # prefix of c12
    'suf': list(range(5, 13)),            # suffix of c12
    'ev': list(range(2, 13, 2)),          # every other of c12 (range with step 2)
    'od': list(range(1, 12, 2)),          # interleaved-disjoint partner of ev
    'irr': [1, 2, 4, 5, 7, 8, 11, 12],    # irregular, smallest gap 1, subset of c12
    'g2': [2, 4, 8, 10, 12, 16],          # stride 2 with holes
    'sh': list(range(7, 19)),             # partly overlapping with c12
    's3': list(range(1, 17, 3)),          # stride 3
    'irr2': [1, 3, 4, 6, 9, 10, 12],      # second irregular subset of c12
    'far': list(range(101, 109)),         # disjoint from everything else
    'c5': list(range(1, 6)),              # minimal length
    'trA': [1, 3, 4, 7, 9],               # trap pair: union [1,3,4,7,9,11] has as many entries as range(1,12,2)
    'trB': [1, 3, 7, 9, 11],              # but is not that range; intersection [1,3,7,9] ~ range(1,10,2)+1
    'big': list(range(1000, 1040, 4)),    # large numbers, stride 4
    'eqA': [1, 2, 4, 7, 9, 10, 13, 16],     # trap pair: same length, same first and last entry,
    'eqB': [1, 3, 4, 8, 9, 11, 13, 16],     # different interior (common: 1,4,9,13,16)
    'eqR': list(range(1, 17, 3)) + [],      # range 1,4,..,16 with the same end points as eqA/eqB (6 entries)
    'eqC': list(range(1, 25, 2)),           # range 1..23 step 2 (12 entries) and
    'eqD': [1, 2, 5, 7, 9, 10, 13, 15, 17, 20, 21, 23],   # an irregular list with the same length and end points (and (last-first) % (n-1) == 0)
    'gcd2': [1, 5, 11, 15, 21, 25, 31, 35, 41],   # differences 4 and 6: the common spacing 2 is smaller than the smallest gap
    'gcd3': [3, 9, 18, 24, 30, 39, 45, 54, 60, 66],   # differences 6 and 9: common spacing 3
    'evs': list(range(4, 13, 2)),         # suffix of ev: a strided range that starts later than a same-step partner
    'evp': list(range(6, 17, 2)),         # same step as ev, partly overlapping, union is again a range
    'c20': list(range(1, 21)),            # longer contiguous chain
    'st3': list(range(4, 21, 3)),         # coarser range inside c20 whose size does not tile it (20/6 != 3)
}


def idl_carrier(cfgs, form='auto'):
    """How a configuration list is handed to the constructor: range / list / ndarray."""
    d = set(np.diff(cfgs))
    if form == 'auto':
        if len(d) == 1:
            return range(cfgs[0], cfgs[-1] + 1, cfgs[1] - cfgs[0])
        return list(cfgs)
    if form == 'list':
        return list(cfgs)
    if form == 'ndarray':
        return np.array(cfgs)
    raise ValueError(form)


# ---------------------------------------------------------------- chain layouts {chain name: cfg set id}
LAYOUTS_QUICK = [
    {'A|r1': 'c12'},
    {'A|r1': 'c8'},
    {'A|r1': 'suf'},
    {'A|r1': 'ev'},
    {'A|r1': 'od'},
    {'A|r1': 'irr'},
    {'A|r1': 'g2'},
    {'A|r1': 'sh'},
    {'A|r1': 'c12', 'A|r2': 'c8'},
    {'A|r2': 'c8'},
    {'A|r1': 'irr', 'A|r10': 's3', 'A|r2': 'c8'},
    {'B|r1': 'c8'},
    {'A': 'c8'},
    {'A1|r1': 'c8'},
    {'A|r1': 'trA'},
    {'A|r1': 'trB'},
    {'A|r1': 'c20'},
    {'A|r1': 'st3'},
    {'A|r1': 'eqA'},
    {'A|r1': 'eqB'},
    {'A': 'c12', 'A|r2': 'c8'},            # a bare chain name is a replica of the ensemble of the same name
    {'A|r1': 'evs'},
    {'A|r1': 'evp'},
    {'A|r1': 'gcd2'},
    {'A|r1': 'gcd3', 'A|r2': 'c12'},
]
LAYOUTS_MORE = [
    {'A|r1': 's3'},
    {'A|r1': 'irr2'},
    {'A|r1': 'far'},
    {'A|r1': 'c5'},
    {'A|r1': 'big'},
    {'A|r10': 'ev', 'A|r2': 'od'},
    {'A|r10': 'c8'},
    {'B|r1': 'irr', 'B|r2': 'ev'},
    {'A|r1': 'c12', 'A|r10': 'g2', 'A|r2': 'irr'},
    {'A|r1': 'c8', 'A|r2': 'c8'},
    {'A|r1': 'c8', 'A|r10': 'c8', 'A|r2': 'c8'},
    {'A1|r1': 'irr', 'A1|r2': 'c8'},
    {'A': 'c12', 'A|r1': 'c8'},
    {'B': 'ev'},
]


def layouts(tier):
    return LAYOUTS_QUICK + (LAYOUTS_MORE if tier == 'thorough' else [])


def lname(layout):
    return ','.join('%s:%s' % (k, v) for k, v in sorted(layout.items()))


# ---------------------------------------------------------------- data shapes
DATA_KINDS = ['white', 'ar1', 'const', 'alt', 'count']  # + 'walk' (C02/C03: no window before the cap)


def data(kind, cfgs, r, mean=1.0, sigma=0.1):
    """Samples on the configuration list cfgs.  The AR(1) process is generated on the
    configuration-number axis so that thinning keeps its meaning."""
    n = len(cfgs)
    if kind == 'white':
        return mean + sigma * r.normal(size=n)
    if kind == 'ar1':
        span = cfgs[-1] - cfgs[0] + 1
        x = np.zeros(span)
        a = 0.7
        e = r.normal(size=span)
        x[0] = e[0]
        for i in range(1, span):
            x[i] = a * x[i - 1] + np.sqrt(1 - a * a) * e[i]
        return mean + sigma * x[[c - cfgs[0] for c in cfgs]]
    if kind == 'walk':
        span = cfgs[-1] - cfgs[0] + 1
        x = np.cumsum(r.normal(size=span))
        return mean + sigma * x[[c - cfgs[0] for c in cfgs]]
    if kind == 'const':
        return np.full(n, float(mean))
    if kind == 'alt':
        return mean + sigma * np.array([(-1.0) ** c for c in cfgs]) * (1 + 0.01 * r.normal(size=n))
    if kind == 'count':
        return np.floor(np.abs(r.normal(size=n)) * 2.0)
    raise ValueError(kind)


def make_obs(pe, layout, key, kind='white', mean=1.0, sigma=0.1, form='auto'):
    """A primary observable on 'layout'; returns (Obs, samples_by_name, cfgs_by_name)."""
    names = sorted(layout)
    samples = {}
    cfgs = {}
    for n in names:
        cfgs[n] = list(CFG[layout[n]]) if isinstance(layout[n], str) else list(layout[n])
        samples[n] = data(kind, cfgs[n], rng(key, n), mean, sigma)
    ens = sorted(set(n.split('|')[0] for n in names))
    if len(ens) == 1:
        o = pe.Obs([samples[n] for n in names], names, idl=[idl_carrier(cfgs[n], form) for n in names])
    else:
        o = None
        for e in ens:
            ns = [n for n in names if n.split('|')[0] == e]
            p = pe.Obs([samples[n] for n in ns], ns, idl=[idl_carrier(cfgs[n], form) for n in ns])
            o = p if o is None else o + p
    return o, samples, cfgs


# ---------------------------------------------------------------- covariance inputs
def cov_matrix(dim, full, key):
    r = rng('cov', key)
    if not full or dim == 1:
        return np.diag(0.01 * (1 + np.arange(dim)) * (1 + 0.1 * r.random(dim)))
    a = r.normal(size=(dim, dim))
    m = a @ a.T * 0.01 + 0.01 * np.eye(dim)
    return (m + m.T) / 2


COVS = [('cv1', 1, False), ('cv2', 2, True), ('cv3', 3, True), ('cvd', 2, False)]

# ---------------------------------------------------------------- scalars
SCALARS = [('int', 2), ('float', 0.5), ('negfloat', -1.5), ('complex', 1 + 2j),
           ('npfloat', np.float64(0.75)), ('npint', np.int64(3))]
