"""Writers + ground truth for openQCD / sfqcd binary formats (layouts taken from the reader's documented
structure and bound byte-for-byte to the stored examples in tests/data/openqcd_test, see bind_examples)."""
import os
import struct
import math
import numpy as np


def traj_numbers(n, first, spacing):
    return [first + k * spacing for k in range(n)]


def config_numbers(trajs, dtr_cnfg=1, always_offset=False):
    """documented rule: configuration = trajectory // spacing (// dtr_cnfg); if the first one is > 1 it is assumed to be
    due to thermalisation and the numbering is shifted to start at 1 (rwms: only when spacing > 1)."""
    spacing = trajs[-1] - trajs[-2]
    cfg = [t // spacing // dtr_cnfg for t in trajs]
    if cfg[0] > 1 and (spacing > 1 or always_offset):
        off = cfg[0] - 1
        cfg = [c - off for c in cfg]
    return cfg


# ----------------------------------------------------------------------------- ms1 / rwms
RW_SHIFT = 0.0      # added to every stored exponent (a check sets it for the duration of one case)


def rw_value(rep, k, i, j, s):
    """the stored number x (the reweighting factor is mean over sources of exp(-x), product over j)"""
    return RW_SHIFT + 0.02 * (rep + 1) + 0.003 * k + 0.05 * i + 0.011 * j + 0.0017 * s + 0.0001 * ((7 * k + 3 * s + rep) % 5)


def write_rwms(path, version, rep, trajs, nfct, nsrc):
    """nfct, nsrc: lists of length nrw.  Returns list of record byte offsets (start of every record, plus end)."""
    nrw = len(nsrc)
    out = bytearray()
    if version == '2.0':
        out += struct.pack('<i', 2 * nrw)
    else:
        out += struct.pack('<i', nrw)
    if version in ('1.6', '2.0'):
        out += struct.pack('<%di' % nrw, *nfct)
    out += struct.pack('<%di' % nrw, *nsrc)
    if version == '2.0':
        out += struct.pack('<i', 0)
    bounds = []
    for k, tr in enumerate(trajs):
        bounds.append(len(out))
        out += struct.pack('<i', tr)
        for i in range(nrw):
            if version == '2.0':
                for arr in (0, 1):     # two arrays per factor: sqn (ignored by the reader), lnr (used)
                    out += struct.pack('<i', 2)
                    out += struct.pack('<2i', nfct[i], 2 * nsrc[i])
                    out += struct.pack('<i', 8)
                    vals = []
                    for j in range(nfct[i]):
                        for s in range(nsrc[i]):
                            x = rw_value(rep, k, i, j, s) if arr == 1 else 100.0 + rw_value(rep, k, i, j, s)
                            vals += [x, 1e-20 * (s + 1)]      # (hi, lo) pair; the reader uses hi
                    out += struct.pack('<%dd' % len(vals), *vals)
            else:
                for j in range(nfct[i] if version == '1.6' else 1):
                    out += struct.pack('<%dd' % nsrc[i], *[100.0 + rw_value(rep, k, i, j, s) for s in range(nsrc[i])])
                    out += struct.pack('<%dd' % nsrc[i], *[rw_value(rep, k, i, j, s) for s in range(nsrc[i])])
    bounds.append(len(out))
    with open(path, 'wb') as f:
        f.write(out)
    return bounds


def truth_rwms(version, rep, n, nfct, nsrc):
    """per factor i: list over the n records of prod_j mean_s exp(-x)"""
    res = []
    for i in range(len(nsrc)):
        vals = []
        for k in range(n):
            f = 1.0
            for j in range(nfct[i] if version != '1.4' else 1):
                f *= float(np.mean(np.exp(-np.array([rw_value(rep, k, i, j, s) for s in range(nsrc[i])]))))
            vals.append(f)
        res.append(vals)
    return res


# ----------------------------------------------------------------------------- ms.dat (openQCD flow observables)
def flow_value(rep, k, block, n, t):
    """block 0,1,2 = W, Y, Q ; n = flow-time index ; t = timeslice"""
    return (block + 1) * 1.0 + 0.1 * rep + 0.01 * k + 0.37 * n + 0.0013 * t + 0.00011 * ((k * 5 + n * 3 + t) % 7)


def write_msdat(path, rep, trajs, dn, nn, tmax, eps):
    out = bytearray(struct.pack('<iii', dn, nn, tmax) + struct.pack('<d', eps))
    bounds = []
    for k, tr in enumerate(trajs):
        bounds.append(len(out))
        out += struct.pack('<i', tr)
        for block in range(3):
            vals = [flow_value(rep, k, block, n, t) for n in range(nn + 1) for t in range(tmax)]
            out += struct.pack('<%dd' % len(vals), *vals)
    bounds.append(len(out))
    with open(path, 'wb') as f:
        f.write(out)
    return bounds


# ----------------------------------------------------------------------------- gfms.dat (sfqcd)
def gf_value(rep, k, jc, iobs, t):
    return 0.5 * (iobs + 1) + 0.07 * rep + 0.013 * k + 0.21 * jc + 0.0019 * t + 0.0001 * ((k + 2 * jc + 3 * iobs + t) % 11)


def write_gfms(path, rep, trajs, zthfl, ncs, tmax, L, cmax):
    out = bytearray(struct.pack('<iii', zthfl, ncs, tmax) + struct.pack('<iii', L, L, L) + struct.pack('<dd', 1e-7, cmax))
    nfl = 2 if zthfl == 2 else 1
    iobs = 8 * nfl
    bounds = []
    for k, tr in enumerate(trajs):
        bounds.append(len(out))
        out += struct.pack('<i', tr)
        for jc in range(ncs + 1):
            for i in range(iobs):
                out += struct.pack('<%dd' % tmax, *[gf_value(rep, k, jc, i, t) for t in range(tmax)])
    bounds.append(len(out))
    with open(path, 'wb') as f:
        f.write(out)
    return bounds


# ----------------------------------------------------------------------------- ms5_xsf
PLACES_BI = ["gS", "gP", "gA", "gV", "gVt", "lA", "lV", "lVt", "lT", "lTt"]
PLACES_BB = ["g1", "l1"]


def xsf_value(rep, cfg, corr_index, t, im):
    return 1.0 + 0.1 * rep + 0.001 * cfg + 0.3 * corr_index + 0.017 * t + (0.5 if im else 0.0) + 0.0001 * ((cfg + t + corr_index) % 13)


def write_ms5_xsf(path, rep, cfgs, tmax):
    out = bytearray(struct.pack('<4d', 0.125, 1.0, 0.5, 1.0) + struct.pack('<ii', tmax, 0))
    bounds = []
    for cfg in cfgs:
        bounds.append(len(out))
        out += struct.pack('<i', cfg)
        for ci in range(10):
            for t in range(tmax):
                out += struct.pack('<2d', xsf_value(rep, cfg, ci, t, 0), xsf_value(rep, cfg, ci, t, 1))
        for ci in range(2):
            out += struct.pack('<2d', xsf_value(rep, cfg, 10 + ci, 0, 0), xsf_value(rep, cfg, 10 + ci, 0, 1))
    bounds.append(len(out))
    with open(path, 'wb') as f:
        f.write(out)
    return bounds


# ----------------------------------------------------------------------------- binding to the stored examples
def bind_examples(repo):
    """Parse -> re-serialise round trip of the stored example files must be byte identical (a mismatch is a machinery
    error: the synthetic formats would not be the formats the readers are written for)."""
    d = os.path.join(repo, 'tests', 'data', 'openqcd_test')
    problems = []
    # openqcd2r1.ms1.dat : version 2.0
    b = open(os.path.join(d, 'openqcd2r1.ms1.dat'), 'rb').read()
    pos = 0

    def rd(fmt):
        nonlocal pos
        v = struct.unpack_from('<' + fmt, b, pos)
        pos += struct.calcsize('<' + fmt)
        return v
    nrw = rd('i')[0] // 2
    nfct = list(rd('%di' % nrw))
    nsrc = list(rd('%di' % nrw))
    zero = rd('i')[0]
    recs = []
    while pos < len(b):
        tr = rd('i')[0]
        arrays = []
        for i in range(nrw):
            for a in range(2):
                dd = rd('i')[0]
                n = rd('%di' % dd)
                size = rd('i')[0]
                m = int(np.prod(n))
                vals = rd('%dd' % m)
                arrays.append((dd, n, size, vals))
        recs.append((tr, arrays))
    out = bytearray(struct.pack('<i', 2 * nrw) + struct.pack('<%di' % nrw, *nfct) + struct.pack('<%di' % nrw, *nsrc) + struct.pack('<i', zero))
    for tr, arrays in recs:
        out += struct.pack('<i', tr)
        for dd, n, size, vals in arrays:
            out += struct.pack('<i', dd) + struct.pack('<%di' % dd, *n) + struct.pack('<i', size) + struct.pack('<%dd' % len(vals), *vals)
    if bytes(out) != b:
        problems.append('openqcd2r1.ms1.dat does not round-trip through the v2.0 layout')
    for (dd, n, size, vals) in recs[0][1]:
        if dd != 2 or size != 8 or n[1] % 2:
            problems.append('openqcd2r1.ms1.dat: unexpected array layout %s %s %s' % (dd, n, size))
    # sfqcdr1.rwms.dat : version 1.6
    b = open(os.path.join(d, 'sfqcdr1.rwms.dat'), 'rb').read()
    nrw = struct.unpack_from('<i', b, 0)[0]
    nf = struct.unpack_from('<%di' % nrw, b, 4)
    ns = struct.unpack_from('<%di' % nrw, b, 4 + 4 * nrw)
    rec = 4 + sum(2 * 8 * ns[i] * nf[i] for i in range(nrw))
    if (len(b) - 4 - 8 * nrw) % rec:
        problems.append('sfqcdr1.rwms.dat does not consist of whole v1.6 records')
    # openqcd2r1.ms.dat
    b = open(os.path.join(d, 'openqcd2r1.ms.dat'), 'rb').read()
    dn, nn, tmax = struct.unpack_from('<iii', b, 0)
    rec = 4 + 3 * 8 * tmax * (nn + 1)
    if (len(b) - 20) % rec:
        problems.append('openqcd2r1.ms.dat does not consist of whole records')
    # sfqcdr1.gfms.dat
    b = open(os.path.join(d, 'sfqcdr1.gfms.dat'), 'rb').read()
    zthfl, ncs, tmax = struct.unpack_from('<iii', b, 0)
    rec = 4 + (ncs + 1) * 8 * (2 if zthfl == 2 else 1) * 8 * tmax
    if (len(b) - 40) % rec:
        problems.append('sfqcdr1.gfms.dat does not consist of whole records')
    # ms5_xsf
    b = open(os.path.join(d, 'ms5_xsf_T24L16r1.ms5_xsf_dd.dat'), 'rb').read()
    tmax = struct.unpack_from('<i', b, 32)[0]
    rec = 4 + 16 * tmax * 10 + 32
    if (len(b) - 40) % rec:
        problems.append('ms5_xsf example does not consist of whole records')
    return problems
