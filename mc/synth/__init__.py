"""Synthetic measurement-file writers (harness side).  Every stored number encodes its coordinates
(replica, configuration, factor / source / flow time / timeslice / correlator, re/im) so that any
mis-assignment by a reader changes the result."""
