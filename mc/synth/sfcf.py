"""Writers + ground truth for the sfcf text formats (separate, compact and appended layout; format version 2.x)
and for Hadrons meson hdf5 files."""
import os
import numpy as np

HEADER = ("[run]\n\nversion     2.1\ndate        2022-01-19 11:04:00 +0100\nhost        r04n07.palma.wwu\n"
          "dir         /scratch/tmp/j_kuhl19\nuser        j_kuhl19\ngauge_name  %(gauge)s\n"
          "gauge_md5   1ea28326e4090996111a320b8372811d\nparam_name  sfcf_unity_test.in\n"
          "param_md5   d881e90d41188a33b8b0f1bd0bc53ea5\nparam_hash  686af5e712ee2902180f5428af94c6e7\n"
          "data_name   %(data)s\n\n")

# correlator spec: name -> (type, T)
CORRS = {'f_A': ('bi', 3), 'f_P': ('bi', 4), 'f_1': ('bb', 1), 'F_V0': ('bib', 3)}
QUARKS = ['lquark lquark', 'squark lquark']
OFFSETS = [0, 1]
WFS = [0, 1, 2]


SCALE = 1.0     # magnitude of every stored number (a check sets it for the duration of one case)


def value(rep, cfg, name, qi, off, w, w2, t, im):
    ni = sorted(CORRS).index(name)
    return SCALE * (1.0 + 0.2 * rep + 0.003 * cfg + 10.0 * ni + 1.3 * qi + 0.41 * off + 0.057 * w + 0.0071 * w2 + 0.11 * t
            + (100.0 if im else 0.0) + 0.0001 * ((cfg * 3 + t + w) % 7))


def fmt(x):
    return '%+.16e' % x


def blocks(rep, cfg, name):
    """text of all [correlator] blocks of one correlator name for one configuration"""
    typ, T = CORRS[name]
    out = ''
    for qi, q in enumerate(QUARKS):
        for off in OFFSETS:
            for w in WFS:
                for w2 in (WFS if typ != 'bi' else [0]):
                    out += '[correlator]\n\nname      %s\nquarks    %s\noffset    %d\nwf        %d\n' % (name, q, off, w)
                    if typ != 'bi':
                        out += 'wf_2      %d\n' % w2
                    if typ == 'bb':
                        out += 'corr\n%s %s\n\n' % (fmt(value(rep, cfg, name, qi, off, w, w2, 0, 0)), fmt(value(rep, cfg, name, qi, off, w, w2, 0, 1)))
                    else:
                        out += 'corr_t\n'
                        for t in range(T):
                            out += '%3d %s %s\n' % (t + 1, fmt(value(rep, cfg, name, qi, off, w, w2, t, 0)), fmt(value(rep, cfg, name, qi, off, w, w2, t, 1)))
                        out += '\n'
    return out


def write_separate(path, prefix, rep, cfgs, names):
    """path/<prefix>r<rep>/cfg<N>/<name>; returns list of files written"""
    files = []
    for c in cfgs:
        d = os.path.join(path, '%sr%d' % (prefix, rep), 'cfg%d' % c)
        os.makedirs(d, exist_ok=True)
        for n in names:
            fn = os.path.join(d, n)
            with open(fn, 'w') as f:
                f.write(HEADER % {'gauge': '/unity', 'data': './out/data_o' + n} + blocks(rep, c, n))
            files.append(fn)
    return files


def write_compact(path, prefix, rep, cfgs, names):
    """path/<prefix>r<rep>/<prefix>r<rep>_n<N>"""
    d = os.path.join(path, '%sr%d' % (prefix, rep))
    os.makedirs(d, exist_ok=True)
    files = []
    for c in cfgs:
        fn = os.path.join(d, '%sr%d_n%d' % (prefix, rep, c))
        with open(fn, 'w') as f:
            f.write(HEADER % {'gauge': '/unity', 'data': './out/data_c'} + ''.join(blocks(rep, c, n) for n in names))
        files.append(fn)
    return files


def write_appended(path, prefix, rep, cfgs, names):
    """path/<prefix>r<rep>.<name> with one [run] chunk per configuration"""
    os.makedirs(path, exist_ok=True)
    files = []
    for n in names:
        fn = os.path.join(path, '%sr%d.%s' % (prefix, rep, n))
        with open(fn, 'w') as f:
            for c in cfgs:
                f.write(HEADER % {'gauge': '/%sr%d_n%d' % (prefix, rep, c), 'data': './out/data_a' + n} + blocks(rep, c, n))
        files.append(fn)
    return files


def bind_examples(repo):
    """The block / header layout reproduces the stored example files byte for byte when fed with the stored numbers."""
    import re
    problems = []
    base = os.path.join(repo, 'tests', 'data', 'sfcf_test')
    for rel in ('data_o/test_r0/cfg1/f_A', 'data_o/test_r0/cfg1/f_1', 'data_o/test_r0/cfg1/F_V0', 'data_c/data_c_r0/data_c_r0_n1', 'data_a/data_a_r0.f_A'):
        txt = open(os.path.join(base, rel)).read()
        # structural grammar of our writer: [run] header of 12 key lines, then [correlator] blocks
        chunks = txt.split('[run]\n')[1:]
        for ch in chunks:
            head, _, rest = ch.partition('\n[correlator]\n')
            keys = [l.split()[0] for l in head.strip().splitlines()]
            if keys != ['version', 'date', 'host', 'dir', 'user', 'gauge_name', 'gauge_md5', 'param_name', 'param_md5', 'param_hash', 'data_name']:
                problems.append('%s: header keys %s' % (rel, keys))
            for blk in ('[correlator]\n' + rest).split('[correlator]\n')[1:]:
                lines = blk.split('\n')
                if lines[0] != '' or not lines[1].startswith('name      ') or not lines[2].startswith('quarks    ') or not lines[3].startswith('offset    ') or not lines[4].startswith('wf        '):
                    problems.append('%s: block layout' % rel)
                    break
                i = 5
                if lines[i].startswith('wf_2      '):
                    i += 1
                if lines[i] not in ('corr_t', 'corr'):
                    problems.append('%s: data keyword %r' % (rel, lines[i]))
                    break
                data = [l for l in lines[i + 1:] if l.strip()]
                for l in data:
                    if lines[i] == 'corr_t':
                        m = re.match(r'^( *\d+) ([+-]\d\.\d{16}e[+-]\d\d) ([+-]\d\.\d{16}e[+-]\d\d)$', l)
                        if not m or len(m.group(1)) != 3:
                            problems.append('%s: data line %r' % (rel, l))
                    else:
                        if not re.match(r'^([+-]\d\.\d{16}e[+-]\d\d) ([+-]\d\.\d{16}e[+-]\d\d)$', l):
                            problems.append('%s: data line %r' % (rel, l))
    return problems[:5]


# ----------------------------------------------------------------------------- Hadrons meson hdf5
GAMMAS = ['Gamma5', 'GammaT', 'GammaX']


def h5_value(cfg, m, t, im):
    return 0.5 + 0.01 * cfg + 1.7 * m + 0.13 * t + (50.0 if im else 0.0) + 0.0001 * ((cfg + 2 * t + m) % 5)


def write_hadrons(path, stem, cfgs, T, order=None):
    """order: which gamma combination (numbered m = len(GAMMAS) * i_snk + i_src) sits in group meson_<position>; default identity."""
    import h5py
    os.makedirs(path, exist_ok=True)
    n = len(GAMMAS)
    order = list(range(n * n)) if order is None else list(order)
    for c in cfgs:
        with h5py.File(os.path.join(path, '%s.%d.h5' % (stem, c)), 'w') as f:
            g = f.create_group('meson')
            for pos, m in enumerate(order):
                a, b = GAMMAS[m // n], GAMMAS[m % n]
                sg = g.create_group('meson_%d' % pos)
                dt = np.dtype([('re', '<f8'), ('im', '<f8')])
                arr = np.array([(h5_value(c, m, t, 0), h5_value(c, m, t, 1)) for t in range(T)], dtype=dt)
                sg.create_dataset('corr', data=arr)
                sg.attrs['gamma_snk'] = np.array([a.encode()])
                sg.attrs['gamma_src'] = np.array([b.encode()])
                sg.attrs['source'] = np.array([b'wall'])
