"""Directory-listing interposition: os.walk / os.listdir return their entries in an order chosen by the harness
(the operating system does not promise any order)."""
import os
import contextlib

_real_walk = os.walk
_real_listdir = os.listdir


def _reorder(entries, order):
    """order: a permutation given as list of indices into sorted(entries) (shorter lists are padded, longer cut)."""
    s = sorted(entries)
    if order is None:
        return s
    idx = [i for i in order if i < len(s)] + [i for i in range(len(s)) if i not in order]
    return [s[i] for i in idx]


@contextlib.contextmanager
def listing_order(order):
    def walk(top, *a, **k):
        for dirpath, dirnames, filenames in _real_walk(top, *a, **k):
            dn = _reorder(dirnames, order)
            fn = _reorder(filenames, order)
            dirnames[:] = dn
            yield dirpath, dirnames, fn

    def listdir(path='.'):
        return _reorder(_real_listdir(path), order)
    os.walk, os.listdir = walk, listdir
    try:
        yield
    finally:
        os.walk, os.listdir = _real_walk, _real_listdir


def orders(n):
    """all permutations for n <= 4 entries, the identity / reversal / every <=2-transposition deviation beyond"""
    import itertools
    if n <= 4:
        return [list(p) for p in itertools.permutations(range(n))]
    out = [list(range(n)), list(range(n))[::-1]]
    for i, j in itertools.combinations(range(n), 2):
        p = list(range(n))
        p[i], p[j] = p[j], p[i]
        out.append(p)
    for (i, j), (k, l) in itertools.combinations(list(itertools.combinations(range(min(n, 6)), 2)), 2):
        p = list(range(n))
        p[i], p[j] = p[j], p[i]
        p[k], p[l] = p[l], p[k]
        out.append(p)
    uniq = []
    for p in out:
        if p not in uniq:
            uniq.append(p)
    return uniq
