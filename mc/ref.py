"""Reference model ("boring, in the implementation language").

An observable is a plain dict keyed by *configuration number*:
    {'value': float, 'chains': {name: {cfg: delta}}, 'cov': {name: (Sigma, grad)}, 'rw': bool}
No ranges, no position-indexed arrays.  Nothing in this file imports pyerrors."""
import math
import numpy as np


def ens_of(name):
    return name.split('|')[0]


def r_from_samples(samples, cfgs):
    """samples: {name: array}, cfgs: {name: list of configuration numbers}."""
    chains = {}
    tot = 0.0
    n = 0
    for name in samples:
        s = [float(x) for x in samples[name]]
        m = math.fsum(s) / len(s)
        chains[name] = {int(c): x - m for c, x in zip(cfgs[name], s)}
        tot += len(s) * m
        n += len(s)
    return {'value': tot / n, 'chains': chains, 'cov': {}, 'rw': False}


def r_cov(value, sigma, name, pos, dim=None):
    sigma = np.atleast_2d(np.array(sigma, dtype=float))
    if sigma.shape[0] == 1 and sigma.shape[1] > 1:
        sigma = np.diag(sigma[0])
    g = np.zeros(sigma.shape[0])
    g[pos] = 1.0
    return {'value': float(value), 'chains': {}, 'cov': {name: (sigma, g)}, 'rw': False}


def r_const(value):
    return {'value': float(value), 'chains': {}, 'cov': {}, 'rw': False}


def _replicas_of(names, ens):
    # the statement's grouping: chains belong to the ensemble named by the text before '|'
    # (so a bare chain 'ens' is a replica of ensemble 'ens' like 'ens|r2')
    return [m for m in names if m.split('|')[0] == ens]


def r_propagate(val, grads, ins):
    """The C01 statement transcribed: union of configuration sets per chain; each input
    scattered with zeros; factor |union|/|own| per chain; factor (sum over the replicas of the
    ensemble present in the result of |union_r|) / (same sum over the replicas the input has)
    when the input lacks whole replicas; covariance gradients by the chain rule.
    Returns the reference observable plus 'scale' (sum of |contributions|, for tolerances)."""
    names = sorted(set(n for i in ins for n in i['chains']))
    union = {n: sorted(set().union(*[set(i['chains'][n]) for i in ins if n in i['chains']])) for n in names}
    out = {n: {c: 0.0 for c in union[n]} for n in names}
    scale = abs(val)
    for g, i in zip(grads, ins):
        for n, ch in i['chains'].items():
            f = len(union[n]) / len(ch)
            e = ens_of(n)
            mine = _replicas_of(i['chains'], e)
            allr = _replicas_of(names, e)
            if 0 < len(mine) < len(allr):
                f *= sum(len(union[m]) for m in allr) / sum(len(union[m]) for m in mine)
            mx = 0.0
            for c, d in ch.items():
                out[n][c] += g * f * d
                mx = max(mx, abs(d))
            scale = max(scale, abs(g * f) * mx)
    cov = {}
    for g, i in zip(grads, ins):
        for n, (S, gr) in i['cov'].items():
            if n in cov:
                cov[n] = (S, cov[n][1] + g * gr)
            else:
                cov[n] = (S, g * gr)
    return {'value': float(val), 'chains': out, 'cov': cov, 'rw': any(i.get('rw') for i in ins), 'scale': scale}


def r_diff(a, b):
    """Reference difference a - b (the notion of identity between observables)."""
    return r_propagate(a['value'] - b['value'], [1.0, -1.0], [a, b])


def r_is_zero(d, tol, scale):
    if abs(d['value']) > tol * scale:
        return 'value differs by %g (scale %g)' % (d['value'], scale)
    for n, ch in d['chains'].items():
        for c, x in ch.items():
            if abs(x) > tol * scale:
                return 'fluctuation differs on %s cfg %d by %g (scale %g)' % (n, c, x, scale)
    for n, (S, g) in d['cov'].items():
        if np.max(np.abs(g)) > tol * scale:
            return 'covariance gradient differs for %s by %g' % (n, np.max(np.abs(g)))
    return None


def r_identical(a, b, tol=1e-9, scale_min=0.0):
    d = r_diff(a, b)
    sc = max(1e-300, scale_min, max(abs(a['value']), abs(b['value'])),
             max([abs(x) for r in (a, b) for ch in r['chains'].values() for x in ch.values()] + [0.0]))
    return r_is_zero(d, tol, sc)


def close(exp, got, rtol=1e-10, what=''):
    """exp: reference result (may carry 'scale'), got: to_ref(implementation result).
    Returns None or a description of the first difference."""
    sc = exp.get('scale')
    if sc is None:
        sc = max([abs(exp['value'])] + [abs(d) for ch in exp['chains'].values() for d in ch.values()])
    sc = max(sc, 1e-300)
    if not (abs(exp['value'] - got['value']) <= rtol * max(sc, abs(exp['value']))):
        return '%svalue: expected %.17g got %.17g' % (what, exp['value'], got['value'])
    if sorted(exp['chains']) != sorted(got['chains']):
        return '%schain names: expected %s got %s' % (what, sorted(exp['chains']), sorted(got['chains']))
    for n in exp['chains']:
        if sorted(exp['chains'][n]) != sorted(got['chains'][n]):
            return '%sconfigurations of %s: expected %s got %s' % (what, n, sorted(exp['chains'][n]), sorted(got['chains'][n]))
        for c in exp['chains'][n]:
            if not (abs(exp['chains'][n][c] - got['chains'][n][c]) <= rtol * sc):
                return '%sfluctuation %s cfg %d: expected %.17g got %.17g (scale %g)' % (
                    what, n, c, exp['chains'][n][c], got['chains'][n][c], sc)
    if sorted(exp['cov']) != sorted(got['cov']):
        return '%scovariance names: expected %s got %s' % (what, sorted(exp['cov']), sorted(got['cov']))
    for n in exp['cov']:
        ge, gg = np.ravel(exp['cov'][n][1]), np.ravel(got['cov'][n][1])
        if ge.shape != gg.shape:
            return '%sgradient shape %s' % (what, n)
        gs = max(sc, float(np.max(np.abs(ge))) if ge.size else 0.0)
        if np.max(np.abs(ge - gg), initial=0.0) > rtol * gs:
            return '%scovariance gradient %s: expected %s got %s' % (what, n, ge, gg)
        if np.max(np.abs(np.array(exp['cov'][n][0]) - np.array(got['cov'][n][0])), initial=0.0) > 1e-12 * max(1.0, np.max(np.abs(exp['cov'][n][0]))):
            return '%scovariance matrix %s differs' % (what, n)
    return None


# ------------------------------------------------------------------ analytic derivative table (C01)
# name -> (f, df, domain kind).  Written independently of obs.py; self-tested against central
# differences in self_test() (a wrong entry must fail set-up, never raise a property alarm).
UNARY = {
    'sqrt': (math.sqrt, lambda x: 0.5 / math.sqrt(x), 'pos'),
    'log': (math.log, lambda x: 1.0 / x, 'pos'),
    'exp': (math.exp, lambda x: math.exp(x), 'any'),
    'sin': (math.sin, lambda x: math.cos(x), 'any'),
    'cos': (math.cos, lambda x: -math.sin(x), 'any'),
    'tan': (math.tan, lambda x: 1.0 + math.tan(x) ** 2, 'any'),
    'arcsin': (math.asin, lambda x: 1.0 / math.sqrt(1 - x * x), 'unit'),
    'arccos': (math.acos, lambda x: -1.0 / math.sqrt(1 - x * x), 'unit'),
    'arctan': (math.atan, lambda x: 1.0 / (1 + x * x), 'any'),
    'sinh': (math.sinh, lambda x: math.cosh(x), 'any'),
    'cosh': (math.cosh, lambda x: math.sinh(x), 'any'),
    'tanh': (math.tanh, lambda x: 1.0 - math.tanh(x) ** 2, 'any'),
    'arcsinh': (math.asinh, lambda x: 1.0 / math.sqrt(x * x + 1), 'any'),
    'arccosh': (math.acosh, lambda x: 1.0 / math.sqrt(x * x - 1), 'gt1'),
    'arctanh': (math.atanh, lambda x: 1.0 / (1 - x * x), 'unit'),
    'abs': (abs, lambda x: 1.0 if x > 0 else -1.0, 'any'),
    'neg': (lambda x: -x, lambda x: -1.0, 'any'),
}
DOMAIN_MEAN = {'pos': 1.3, 'any': 0.7, 'unit': 0.4, 'gt1': 1.9}

BINARY = {
    '+': (lambda a, b: a + b, lambda a, b: (1.0, 1.0)),
    '-': (lambda a, b: a - b, lambda a, b: (1.0, -1.0)),
    '*': (lambda a, b: a * b, lambda a, b: (b, a)),
    '/': (lambda a, b: a / b, lambda a, b: (1.0 / b, -a / (b * b))),
    '**': (lambda a, b: a ** b, lambda a, b: (b * a ** (b - 1), a ** b * math.log(a))),
}


def self_test():
    from .engine import MachineryError
    for name, (f, df, dom) in UNARY.items():
        for x in (DOMAIN_MEAN[dom], DOMAIN_MEAN[dom] * 1.07):
            h = 1e-6
            num = (f(x + h) - f(x - h)) / (2 * h)
            if abs(num - df(x)) > 1e-7 * max(1, abs(num)):
                raise MachineryError('derivative table entry %s is wrong' % name)
    for name, (f, df) in BINARY.items():
        a, b, h = 1.3, 0.8, 1e-6
        na = (f(a + h, b) - f(a - h, b)) / (2 * h)
        nb = (f(a, b + h) - f(a, b - h)) / (2 * h)
        ga, gb = df(a, b)
        if abs(na - ga) > 1e-7 or abs(nb - gb) > 1e-7:
            raise MachineryError('derivative table entry %s is wrong' % name)


# ------------------------------------------------------------------ Gamma method by pair enumeration (C02/C03)
def r_wmax(chains, reps, gap):
    """Largest admissible lag, mirrored from the implementation (documented as such):
    equally spaced chain: len*step//gap ; otherwise the number of slots of the chain expanded to
    the ensemble spacing, (last-first+gap)//gap ; w_max = max//2."""
    rl = []
    for n in reps:
        cs = sorted(chains[n])
        d = set(b - a for a, b in zip(cs, cs[1:]))
        if len(d) == 1:
            rl.append(len(cs) * list(d)[0] // gap)
        else:
            rl.append((cs[-1] - cs[0] + gap) // gap)
    return max(rl) // 2


def r_gamma_ens(chains, reps, S, tau_exp, N_sigma):
    """Wolff / Schaefer estimator for one ensemble by explicit pair enumeration.
    Returns a dict or a string naming the documented refusal."""
    eps = np.finfo(float).eps
    gaps = []
    for n in reps:
        cs = sorted(chains[n])
        gaps.append(int(np.gcd.reduce([b - a for a, b in zip(cs, cs[1:])])))      # the common spacing of the chain (statement), not its smallest gap
    gap = min(gaps)
    if any(g % gap for g in gaps):
        return 'noncommensurate'
    N = sum(len(chains[n]) for n in reps)
    wmax = r_wmax(chains, reps, gap)
    G = np.zeros(wmax)
    C = np.zeros(wmax)
    for n in reps:
        ch = chains[n]
        cs = sorted(ch)
        for t in range(wmax):
            s = 0.0
            k = 0
            for c in cs:
                c2 = c + t * gap
                if c2 in ch:
                    s += ch[c] * ch[c2]
                    k += 1
            G[t] += s
            C[t] += k
    C[C < 1] = 1
    G = G / C
    if wmax == 0 or abs(G[0]) < 10 * np.finfo(float).tiny:
        return dict(tauint=0.5, dtauint=0.0, dvalue=0.0, ddvalue=0.0, W=0, const=True, gap=gap, N=N, wmax=wmax)
    rho = G / G[0]
    nt = np.cumsum(np.concatenate(([0.5], rho[1:])))
    nt[nt <= 0.5] = 0.5 + eps
    ndt = nt * 2 * np.sqrt(np.abs(np.arange(wmax) + 0.5 - nt) / N)
    ndt[0] = 0.0

    def drho(i):
        s = 0.0
        for k in range(1, wmax - i):
            s += (rho[i + k] + rho[abs(i - k)] - 2 * rho[i] * rho[k]) ** 2
        return math.sqrt(s / N)

    out = dict(rho=rho, n_tauint=nt, n_dtauint=ndt, drho={}, gap=gap, N=N, wmax=wmax, G0=G[0], const=False)
    if tau_exp > 0:
        if wmax // 2 <= 1:
            return 'need8'
        out['drho'][1] = drho(1)
        margins = []
        for n in range(1, wmax // 2):
            out['drho'][n + 1] = drho(n + 1)
            margin = rho[n] - N_sigma * out['drho'][n]
            margins.append(margin)
            if margin < 0 or n >= wmax // 2 - 2:
                tau = nt[n] * (1 + (2 * n + 1) / N) / (1 + 1 / N) + tau_exp * abs(rho[n + 1])
                out.update(tauint=tau, dtauint=math.sqrt(ndt[n] ** 2 + tau_exp ** 2 * out['drho'][n + 1] ** 2),
                           dvalue=math.sqrt(2 * tau * G[0] * (1 + 1 / N) / N), W=n)
                out['ddvalue'] = out['dvalue'] * math.sqrt((n + 0.5) / N)
                break
        out['margins'] = margins
    elif S == 0:
        out.update(tauint=0.5, dtauint=0.0, dvalue=math.sqrt(G[0] / (N - 1)), W=0)
        out['ddvalue'] = out['dvalue'] * math.sqrt(0.5 / N)
    else:
        margins = []
        for n in range(1, wmax):
            tw = S / math.log((2 * nt[n] + 1) / (2 * nt[n] - 1))
            g = math.exp(-n / tw) - tw / math.sqrt(n * N)
            margins.append(g)
            if g < 0 or n >= wmax - 1:
                out['drho'][n] = drho(n)
                tau = nt[n] * (1 + (2 * n + 1) / N) / (1 + 1 / N)
                out.update(tauint=tau, dtauint=ndt[n], dvalue=math.sqrt(2 * tau * G[0] * (1 + 1 / N) / N), W=n)
                out['ddvalue'] = out['dvalue'] * math.sqrt((n + 0.5) / N)
                break
        out['margins'] = margins
    return out


def r_groups(chains):
    """Ensembles and their chains: text before '|' (a bare chain name is listed last)."""
    ens = sorted(set(ens_of(n) for n in chains))
    res = {}
    for e in ens:
        res[e] = sorted(n for n in chains if n.startswith(e + '|'))
        if e in chains:
            res[e].append(e)
    return res


def r_gamma(o_ref, S=2.0, tau_exp=0.0, N_sigma=1.0):
    """Per-ensemble analysis.  S, tau_exp, N_sigma: numbers or {ensemble: number}."""
    res = {}
    get = lambda p, e: p[e] if isinstance(p, dict) else p
    for e, reps in r_groups(o_ref['chains']).items():
        res[e] = r_gamma_ens(o_ref['chains'], reps, get(S, e), get(tau_exp, e), get(N_sigma, e))
    return res


def r_total_error(o_ref, per_ens):
    """dvalue^2 = sum of squared per-ensemble errors + J Sigma J^T per covariance input;
    ddvalue = sqrt(sum (dv_e ddv_e)^2)/dvalue."""
    v = 0.0
    dd = 0.0
    for e, r in per_ens.items():
        v += r['dvalue'] ** 2
        dd += (r['dvalue'] * r['ddvalue']) ** 2
    cov_err = {}
    for n, (S, g) in o_ref['cov'].items():
        g = np.ravel(g)
        cov_err[n] = float(g @ np.array(S) @ g)
        v += cov_err[n]
    dv = math.sqrt(v)
    return dv, (math.sqrt(dd) / dv if dv > 0 else 0.0), cov_err
