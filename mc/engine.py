"""Bounded exhaustive exploration engine for the pyerrors checks.

One engine serves three exploration styles (DESIGN.md section 1):

* E-PROD  : product_cases / deviation_cases + pmap over a check's run_case
* E-BFS   : bfs() explicit-state search stepping the real objects
* E-FAULT : the same pmap, the case list being (file, truncation offset) / (listing permutation)

Nothing here samples: every helper enumerates a finite set completely and reports what it
enumerated.  The only random numbers are the *data values* that fill the enumerated
structures; they come from counter-based generators keyed by VERIF_SEED (mc.alpha.rng).
"""
import os
import sys
import json
import time
import hashlib
import itertools
import traceback
import collections
import multiprocessing as mp

ROOT = os.path.dirname(os.path.dirname(os.path.abspath(__file__)))
REPO = os.environ.get('VERIF_REPO', '/repo')
# mutation runs (VERIF_REPO pointing at a scratch copy) never touch /verif/evidence or /verif/replays
OUT = ROOT if os.path.realpath(REPO) == '/repo' else os.path.join('/dev/shm', 'verif_mut_out')


def setup_env():
    """Environment every check process runs in (owned nondeterminism, one BLAS thread)."""
    for k in ('OMP_NUM_THREADS', 'OPENBLAS_NUM_THREADS', 'MKL_NUM_THREADS', 'NUMEXPR_NUM_THREADS'):
        os.environ.setdefault(k, '1')
    os.environ.setdefault('MPLBACKEND', 'Agg')
    os.environ['PYERRORS_VERIF'] = '1'
    if REPO not in sys.path:
        sys.path.insert(0, REPO)
    if ROOT not in sys.path:
        sys.path.insert(0, ROOT)


def import_pyerrors():
    setup_env()
    import warnings
    warnings.filterwarnings('ignore')
    import pyerrors as pe
    got = os.path.realpath(os.path.dirname(os.path.dirname(pe.__file__)))
    if got != os.path.realpath(REPO):
        raise RuntimeError('machinery error: pyerrors imported from %s, expected %s' % (got, REPO))
    return pe


class MachineryError(Exception):
    """Raised when the harness itself is inconsistent (never a property violation)."""


# ----------------------------------------------------------------------------- enumeration

def product_cases(dims):
    """Full Cartesian product of dims = [(name, [values...]), ...], simplest-first.

    'Simplest-first' = ordered by the sum of the value indices (values are listed
    simplest-first in every alphabet), ties in lexicographic order.  Yields dicts."""
    names = [d[0] for d in dims]
    vals = [d[1] for d in dims]
    idx = sorted(itertools.product(*[range(len(v)) for v in vals]), key=lambda t: (sum(t), t))
    for t in idx:
        yield {n: v[i] for n, v, i in zip(names, vals, t)}


def deviation_cases(dims, k):
    """All cases with at most k dimensions away from their default (= first) value.

    Iterated bound: yields (deviations, case) for deviations = 0, 1, ..., k in this order,
    so the first counter-example has the fewest deviations."""
    names = [d[0] for d in dims]
    vals = [d[1] for d in dims]
    for dev in range(0, k + 1):
        for where in itertools.combinations(range(len(dims)), dev):
            alts = [range(1, len(vals[w])) for w in where]
            for choice in itertools.product(*alts):
                t = [0] * len(dims)
                for w, c in zip(where, choice):
                    t[w] = c
                yield dev, {n: v[i] for n, v, i in zip(names, vals, t)}


# ----------------------------------------------------------------------------- accumulation

class Acc:
    """Accumulates the outcome of many evaluations inside one worker call."""

    def __init__(self):
        self.n = 0
        self.nontrivial = set()
        self.outcomes = collections.Counter()
        self.fails = []
        self.samples = []
        self.extra = collections.Counter()

    def ok(self, key, nontrivial=True, outcome='ok'):
        self.n += 1
        self.outcomes[outcome] += 1
        if nontrivial:
            self.nontrivial.add(key if isinstance(key, str) else json.dumps(key, sort_keys=True, default=str))

    def fail(self, sig, case, detail, nontrivial_key=None):
        self.n += 1
        self.outcomes['failed-oracle'] += 1
        if len(self.fails) < 50:
            self.fails.append({'sig': sig, 'case': case, 'detail': str(detail)[:2000]})
        else:
            self.extra['fails_dropped'] += 1

    def skip(self, why):
        self.extra['skipped:' + why] += 1

    def count(self, what, n=1):
        self.extra[what] += n

    def sample(self, s):
        if len(self.samples) < 2:
            self.samples.append(s)

    def pack(self):
        return {'n': self.n, 'nontrivial': len(self.nontrivial), 'outcomes': dict(self.outcomes),
                'fails': self.fails, 'samples': self.samples, 'extra': dict(self.extra)}


def merge_packs(packs):
    tot = {'n': 0, 'nontrivial': 0, 'outcomes': collections.Counter(), 'fails': [], 'samples': [],
           'extra': collections.Counter()}
    for p in packs:
        tot['n'] += p['n']
        tot['nontrivial'] += p['nontrivial']
        tot['outcomes'].update(p['outcomes'])
        tot['fails'].extend(p['fails'])
        tot['extra'].update(p.get('extra', {}))
        if len(tot['samples']) < 6:
            tot['samples'].extend(p['samples'][:1])
    return tot


# ----------------------------------------------------------------------------- parallel map

_WORKER_FUNC = None
_WORKER_REPEAT = 1


def _worker_init(modname, funcname, seed):
    global _WORKER_FUNC, _WORKER_REPEAT
    setup_env()
    os.environ['VERIF_SEED'] = str(seed)
    sys.stdout = open(os.devnull, 'w')
    import importlib
    mod = importlib.import_module(modname)
    if hasattr(mod, 'worker_init'):
        mod.worker_init()
    _WORKER_FUNC = getattr(mod, funcname)
    _WORKER_REPEAT = int(getattr(mod, 'REPEAT', 1)) if funcname == 'run_case' else 1


def _worker_call(item):
    idx, case = item
    try:
        r = _WORKER_FUNC(case)
        if isinstance(r, Acc):
            r = r.pack()
        if _WORKER_REPEAT > 1:
            # history oracle: the same case once more in the same process (module-level caches, class attributes and
            # whatever else earlier calls leave behind are now warm) must give exactly the same verdicts
            r2 = _WORKER_FUNC(case)
            if isinstance(r2, Acc):
                r2 = r2.pack()
            s1 = (sorted(r['outcomes'].items()), sorted(f['sig'] for f in r['fails']))
            s2 = (sorted(r2['outcomes'].items()), sorted(f['sig'] for f in r2['fails']))
            r['extra']['repeated-evaluations'] = r['extra'].get('repeated-evaluations', 0) + r2['n']
            if s1 != s2:
                new = [f for f in r2['fails'] if f['sig'] not in s1[1]]
                r['fails'] += [dict(f, sig=f['sig'] + ':on-second-run') for f in new[:3]]
                r['fails'].append({'sig': 'history:second-run-differs', 'case': case,
                                   'detail': 'running the same case a second time in the same process changes the verdicts: first %s, second %s' % (s1, s2)})
                r['outcomes']['failed-oracle'] = r['outcomes'].get('failed-oracle', 0) + 1
        return idx, r
    except MachineryError:
        return idx, {'n': 1, 'nontrivial': 0, 'outcomes': {'MACHINERY_ERROR': 1}, 'samples': [], 'extra': {},
                     'fails': [{'sig': 'machinery-error', 'case': case, 'detail': traceback.format_exc()[-3000:]}]}
    except Exception as e:
        # An exception that escapes a check body: on the unchanged tree this never happens (verified),
        # so on a modified tree it is attributed to the modification and reported as a violation.
        return idx, {'n': 1, 'nontrivial': 0, 'outcomes': {'failed-oracle': 1}, 'samples': [], 'extra': {},
                     'fails': [{'sig': 'uncaught:' + type(e).__name__, 'case': case,
                                'detail': traceback.format_exc()[-3000:]}]}


def pmap(modname, funcname, cases, jobs, seed, chunksize=1):
    """Apply <modname>.<funcname> to every case in a pool of long-lived workers.

    Deterministic: results are returned in case order; workers are forked once."""
    cases = list(cases)
    if jobs <= 1 or len(cases) <= 1:
        _worker_init_local(modname, funcname, seed)
        return [_worker_call((i, c))[1] for i, c in enumerate(cases)]
    ctx = mp.get_context('fork')
    with ctx.Pool(min(jobs, len(cases)), initializer=_worker_init, initargs=(modname, funcname, seed)) as pool:
        out = [None] * len(cases)
        for idx, r in pool.imap_unordered(_worker_call, list(enumerate(cases)), chunksize=chunksize):
            out[idx] = r
    return out


def _worker_init_local(modname, funcname, seed):
    global _WORKER_FUNC, _WORKER_REPEAT
    setup_env()
    os.environ['VERIF_SEED'] = str(seed)
    import importlib
    mod = importlib.import_module(modname)
    if hasattr(mod, 'worker_init'):
        mod.worker_init()
    _WORKER_FUNC = getattr(mod, funcname)
    _WORKER_REPEAT = int(getattr(mod, 'REPEAT', 1)) if funcname == 'run_case' else 1


# ----------------------------------------------------------------------------- explicit-state search

def bfs(init_states, events, step, canon, depth, on_transition=None, max_states=None):
    """Breadth-first explicit-state search over the real objects.

    init_states : list of concrete states (any python objects)
    events(state) -> iterable of event descriptors enabled in that state
    step(state, event) -> new concrete state (must not mutate 'state'; deep-copy inside)
                          or None if the event is refused (recorded, no successor)
    canon(state) -> hashable canonical form (states with equal canon are merged)
    on_transition(state, event, new_state, path) -> called for EVERY transition (invariants)
    Returns dict(states, transitions, depth_completed, refused, capped).
    A state is kept together with the event path that first reached it (for replay)."""
    seen = {}
    frontier = collections.deque()
    for s in init_states:
        k = canon(s)
        if k not in seen:
            seen[k] = ()
            frontier.append((s, (), 0))
    transitions = 0
    refused = 0
    capped = False
    depth_completed = 0
    while frontier:
        s, path, d = frontier.popleft()
        depth_completed = max(depth_completed, d)
        if d >= depth:
            continue
        for ev in events(s):
            ns = step(s, ev)
            transitions += 1
            if ns is None:
                refused += 1
                if on_transition is not None:
                    on_transition(s, ev, None, path)
                continue
            if on_transition is not None:
                on_transition(s, ev, ns, path)
            k = canon(ns)
            if k not in seen:
                if max_states is not None and len(seen) >= max_states:
                    capped = True
                    continue
                seen[k] = path + (ev,)
                frontier.append((ns, path + (ev,), d + 1))
    return {'states': len(seen), 'transitions': transitions, 'depth_completed': depth_completed,
            'refused': refused, 'capped': capped}


# ----------------------------------------------------------------------------- findings / replay / evidence

def load_known():
    p = os.path.join(ROOT, 'known_findings.json')
    if not os.path.exists(p):
        return []
    with open(p) as f:
        return json.load(f)['findings']


def match_known(prop, sig, known):
    import fnmatch
    for k in known:
        if k.get('status') != 'known' or k['property'] != prop:
            continue
        if sig == k['signature'] or (k.get('glob') and fnmatch.fnmatchcase(sig, k['signature'])):
            return k
    return None


def write_replay(prop, fail, seed, tier):
    os.makedirs(os.path.join(OUT, 'replays'), exist_ok=True)
    blob = json.dumps({'property': prop, 'seed': seed, 'tier': tier, 'sig': fail['sig'], 'case': fail['case'],
                       'detail': fail['detail']}, indent=1, sort_keys=True, default=str)
    h = hashlib.md5((prop + fail['sig'] + json.dumps(fail['case'], sort_keys=True, default=str)).encode()).hexdigest()[:10]
    path = os.path.join(OUT, 'replays', '%s_%s.json' % (prop, h))
    with open(path, 'w') as f:
        f.write(blob)
    test = os.path.join(OUT, 'replays', 'test_%s_%s.py' % (prop, h))
    with open(test, 'w') as f:
        f.write(_REPLAY_TEST % {'root': ROOT, 'path': path, 'prop': prop})
    return path


_REPLAY_TEST = '''# stand-alone replay of one recorded violation (no explorer involved)
import sys, json
sys.path.insert(0, %(root)r)
from mc import engine


def test_replay():
    fails = engine.replay(%(path)r)
    assert not fails, fails
'''


def replay(path):
    """Re-execute one recorded case twice; identical observations are required."""
    setup_env()
    with open(path) as f:
        rec = json.load(f)
    os.environ['VERIF_SEED'] = str(rec['seed'])
    os.environ['VERIF_TIER'] = rec.get('tier', 'quick')
    import importlib
    mod = importlib.import_module('checks.' + rec['property'].lower())
    if hasattr(mod, 'worker_init'):
        mod.worker_init()
    fn = getattr(mod, 'replay_case', None) or getattr(mod, 'run_case')
    runs = []
    for _ in range(2):
        r = fn(rec['case'])
        if isinstance(r, Acc):
            r = r.pack()
        runs.append(sorted((f['sig'], f['detail']) for f in r['fails']))
    if runs[0] != runs[1]:
        raise RuntimeError('machinery error: replay of %s is not deterministic: %r vs %r' % (path, runs[0], runs[1]))
    return runs[0]


def write_evidence(prop, tier, seed, level, coverage, wall, violations, assumptions):
    os.makedirs(os.path.join(OUT, 'evidence'), exist_ok=True)
    ev = {'property_id': prop, 'tier': tier, 'seed': int(seed), 'level': level, 'coverage': coverage,
          'assumptions': assumptions, 'wall_s': round(wall, 2), 'violations': int(violations)}
    path = os.path.join(OUT, 'evidence', prop + '.json')
    tmp = path + '.tmp'
    with open(tmp, 'w') as f:
        json.dump(ev, f, indent=1, default=str)
    os.replace(tmp, path)
    return path


def report(prop, tier, seed, level, tot, wall, rule, assumptions, extra_cov=None, exhaustive=True):
    """Common tail of every check: classify failures, print lines, write evidence, return exit code."""
    known = load_known()
    viol = []
    kf = collections.OrderedDict()
    mach = []
    for f in tot['fails']:
        if f['sig'] == 'machinery-error':
            mach.append(f)
            continue
        k = match_known(prop, f['sig'], known)
        if k is not None:
            kf.setdefault(k['signature'], [k, 0])
            kf[k['signature']][1] += 1
        else:
            viol.append(f)
    for sig, (k, n) in kf.items():
        print('KNOWN-FINDING: property=%s %s [%s; %d case(s) this run]' % (prop, k['what'], sig, n))
    seen_sig = set()
    for f in viol:
        if f['sig'] in seen_sig:
            continue
        seen_sig.add(f['sig'])
        if len(seen_sig) > int(os.environ.get('VERIF_MAXSIG', '12')):
            break
        path = write_replay(prop, f, seed, tier)
        print('VIOLATION property=%s replay=%s' % (prop, path))
        print('   sig=%s' % f['sig'])
        print('   ' + f['detail'].replace('\n', '\n   ')[:1200])
    for f in mach[:3]:
        print('MACHINERY-ERROR property=%s case=%s\n%s' % (prop, json.dumps(f['case'], default=str)[:300], f['detail']))
    cov = {'evaluations': int(tot['n']), 'distinct_nontrivial': int(tot['nontrivial']), 'rule': rule,
           'samples': tot['samples'][:6], 'exhaustive': bool(exhaustive),
           'outcome_classes': {k: int(v) for k, v in tot['outcomes'].items()},
           'distinct_violation_signatures': len(seen_sig),
           'known_finding_cases': int(sum(v[1] for v in kf.values()))}
    if tot['extra']:
        cov['counters'] = {k: int(v) for k, v in tot['extra'].items()}
    if extra_cov:
        cov.update(extra_cov)
    write_evidence(prop, tier, seed, level, cov, wall, len(viol), assumptions)
    print('%s tier=%s seed=%s evaluations=%d nontrivial=%d outcomes=%s wall=%.1fs' % (
        prop, tier, seed, tot['n'], tot['nontrivial'], dict(tot['outcomes']), wall))
    if mach:
        return 2
    return 1 if viol else 0


# ----------------------------------------------------------------------------- level-synchronous parallel BFS

def bfs_levels(modname, init, depth, jobs, seed, max_states=None, log=None):
    """Explicit-state BFS whose frontier is expanded in parallel, level by level.

    init: list of (canon, blob) ; the module provides expand(case) with
    case = {'blob': bytes, 'path': [events]} returning a dict
       {'succ': [(event, canon, blob or None)], 'pack': Acc.pack()}
    (blob None = observation / refused event: a transition without a new state).
    States are de-duplicated on 'canon' by the master.  Returns (stats, merged pack)."""
    seen = {}
    frontier = []
    for canon, blob in init:
        if canon not in seen:
            seen[canon] = ()
            frontier.append({'blob': blob, 'path': []})
    transitions = 0
    packs = []
    capped = False
    depth_completed = 0
    per_level = []
    for d in range(depth):
        if not frontier:
            break
        res = pmap(modname, 'expand', frontier, jobs, seed, chunksize=max(1, len(frontier) // (jobs * 8)))
        nxt = []
        for case, r in zip(frontier, res):
            if 'succ' not in r:      # uncaught exception inside expand -> already a failure pack
                packs.append(r)
                continue
            packs.append(r['pack'])
            for ev, canon, blob in r['succ']:
                transitions += 1
                if blob is None or canon in seen:
                    continue
                if max_states is not None and len(seen) >= max_states:
                    capped = True
                    continue
                seen[canon] = tuple(case['path']) + (ev,)
                nxt.append({'blob': blob, 'path': case['path'] + [ev]})
        depth_completed = d + 1
        per_level.append(len(nxt))
        if log:
            log('level %d: %d new states, %d transitions so far' % (d + 1, len(nxt), transitions))
        frontier = nxt
    stats = {'states': len(seen), 'transitions': transitions, 'depth_completed': depth_completed,
             'new_states_per_level': per_level, 'capped': capped, 'frontier_left': len(frontier)}
    return stats, merge_packs(packs)
